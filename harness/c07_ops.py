"""C07: scheduling operations called with their NON-DEFAULT modes / keyword options.

harness/sched.py (shared) mostly uses the default keyword arguments.  A missing copy can sit in a branch that only
a non-default mode reaches (e.g. DoLiftAlloc.idx_mode in mode='col'), so the purity monitor additionally
enumerates, for every applicable position, the keyword variants of every primitive that has any:
autolift_alloc (n_lifts x mode x size x keep_dims), autofission / fission / lift_alloc / lift_if (n_lifts),
divide_loop (every tail + perfect), expand_dim with an enclosing iterator, resize_dim (fold), stage_mem (accum),
add_loop / fuse / remove_loop / fission (unsafe_disable_check), extract_subproc (include_asserts=False),
set_window(False), set_memory / set_precision on arguments, replace (quiet=True).
Each candidate is (opname, description with the explicit arguments, thunk) like sched.candidates."""
from __future__ import annotations

import exo.API_cursors as PC
import exo.stdlib.scheduling as S
from exo.core.LoopIR import LoopIR, T
from exo.libs.memories import DRAM_STACK, DRAM_STATIC

import sched


def enclosing_loops(c):
    out = []
    try:
        q = c.parent()
        while not isinstance(q, PC.InvalidCursor):
            if isinstance(q, PC.ForCursor):
                out.append(q)
            q = q.parent()
    except Exception:
        pass
    return out


def extra_candidates(p, rng, subs=(), limit=4):
    st = sched.Sites(p)
    out = []
    fresh = [0]

    def nm(b):
        fresh[0] += 1
        return "%s_x%d" % (b, fresh[0])

    def add(op, descr, thunk):
        out.append((op, descr, thunk))

    def pick(lst, k=limit):
        lst = list(lst)
        rng.shuffle(lst)
        return lst[:k]

    for a in pick(st.allocs, 6):
        pa = sched.path_of(a)
        variants = [(n, m, sz, kd) for n in (1, 2) for m in ("row", "col") for sz in (None, 8) for kd in (False, True)]
        rng.shuffle(variants)
        must = [(1, "col", None, True), (1, "row", None, True), (2, "col", 8, True)]
        for (n, m, sz, kd) in must + variants[:3]:
            add("autolift_alloc", "%s n_lifts=%d mode=%s size=%s keep_dims=%s" % (pa, n, m, sz, kd),
                lambda a=a, n=n, m=m, sz=sz, kd=kd: S.autolift_alloc(p, a, n_lifts=n, mode=m, size=sz, keep_dims=kd))
        for n in (2, 3):
            add("lift_alloc", "%s n_lifts=%d" % (pa, n), lambda a=a, n=n: S.lift_alloc(p, a, n_lifts=n))
        loops = enclosing_loops(a)
        for l in loops[:2]:
            hi = l.hi()._impl._node
            ext = hi.val if isinstance(hi, LoopIR.Const) else str(hi)
            add("expand_dim", "%s ext=%s ix=%s" % (pa, ext, l.name()),
                lambda a=a, ext=ext, l=l: S.expand_dim(p, a, ext, l.name()))
        if a.is_tensor():
            nd = len(a._impl._node.type.shape())
            for d in range(nd):
                for sz in (1, 2, 3):
                    add("resize_dim_fold", "%s d=%d size=%d fold=True" % (pa, d, sz),
                        lambda a=a, d=d, sz=sz: S.resize_dim(p, a, d, sz, 0, fold=True))
    for g in pick(st.gaps, 4):
        for n in (1, 2):
            add("autofission", "%s n_lifts=%d" % (sched.path_of(g), n), lambda g=g, n=n: S.autofission(p, g, n_lifts=n))
        add("fission", "%s n_lifts=3" % sched.path_of(g), lambda g=g: S.fission(p, g, n_lifts=3))
        add("fission", "%s n_lifts=1 unsafe_disable_checks=True" % sched.path_of(g),
            lambda g=g: S.fission(p, g, n_lifts=1, unsafe_disable_checks=True))
    for l in pick(st.loops, 4):
        pl = sched.path_of(l)
        for tail in ("guard", "cut", "cut_and_guard"):
            q = rng.choice([2, 3, 4])
            add("divide_loop", "%s by=%d tail=%s" % (pl, q, tail),
                lambda l=l, q=q, tail=tail: S.divide_loop(p, l, q, [nm("o"), nm("i")], tail=tail))
        q = rng.choice([2, 4])
        add("divide_loop", "%s by=%d perfect=True" % (pl, q), lambda l=l, q=q: S.divide_loop(p, l, q, [nm("o"), nm("i")], perfect=True))
        add("remove_loop", "%s unsafe_disable_check=True" % pl, lambda l=l: S.remove_loop(p, l, unsafe_disable_check=True))
        nxt = l.next()
        if isinstance(nxt, PC.ForCursor):
            add("fuse", "%s unsafe_disable_check=True" % pl, lambda l=l, nxt=nxt: S.fuse(p, l, nxt, unsafe_disable_check=True))
    for c in pick(st.ifs, 3):
        for n in (1, 2):
            add("lift_if", "%s n_lifts=%d" % (sched.path_of(c), n), lambda c=c, n=n: S.lift_if(p, c, n_lifts=n))
    for b in pick(st.blocks, 3):
        pb = sched.path_of(b)
        add("add_loop", "%s hi=2 guard=True unsafe_disable_check=True" % pb,
            lambda b=b: S.add_loop(p, b, nm("al"), 2, guard=True, unsafe_disable_check=True))
        add("extract_subproc", "%s include_asserts=False" % pb,
            lambda b=b: S.extract_subproc(p, b, nm("subx"), include_asserts=False)[0])
        for sp in list(subs)[:1]:
            add("replace", "%s quiet=True" % pb, lambda b=b, sp=sp: S.replace(p, b, sp, quiet=True))
    # staging with accumulation, on arguments and on allocations
    bufs = []
    for a in p.args():
        t = a._impl._node.type
        if isinstance(t, T.Tensor):
            bufs.append((a.name(), t.hi))
    for a in st.allocs:
        t = a._impl._node.type
        if isinstance(t, T.Tensor):
            bufs.append((a.name(), t.hi))
    for b in pick(st.blocks, 3):
        if not bufs:
            break
        bn, hi = rng.choice(bufs)
        acc = []
        for d in hi:
            if isinstance(d, LoopIR.Const):
                lo_ = rng.randrange(d.val)
                acc.append("%d:%d" % (lo_, rng.randint(lo_ + 1, d.val)) if rng.random() < 0.7 else str(lo_))
            else:
                acc.append("0:%s" % d)
        w = "%s[%s]" % (bn, ", ".join(acc))
        for accum in (True, False):
            add("stage_mem", "%s win=%s accum=%s" % (sched.path_of(b), w, accum),
                lambda b=b, w=w, accum=accum: S.stage_mem(p, b, w, nm("stg"), accum=accum))
    for a in p.args():
        t = a._impl._node.type
        if isinstance(t, T.Tensor):
            add("set_window", "%s is_window=False" % a.name(), lambda a=a: S.set_window(p, a, False))
            add("set_memory_arg", "%s DRAM_STATIC" % a.name(), lambda a=a: S.set_memory(p, a, rng.choice([DRAM_STACK, DRAM_STATIC])))
        if t.is_numeric():
            add("set_precision_arg", "%s f64" % a.name(), lambda a=a: S.set_precision(p, a, rng.choice(["f64", "i8", "f16"])))
    return out
