#!/venv/bin/python
"""seedverify.py <name> <property> : confirm a seeded change produced by an independent sub-agent in /tmp/seed_<name>:
 demo fails with the change and passes without it; the unedited test suite still passes with it; then run our
 check against it (applied to /repo temporarily) and record everything under /verif/seeded/<name>/."""
import json, os, shutil, subprocess, sys, time
name, pid = sys.argv[1], sys.argv[2]
skip_suite = "--skip-suite" in sys.argv
wt = "/tmp/seed_" + name
out = "/verif/seeded/" + name
os.makedirs(out, exist_ok=True)
env = dict(os.environ, PYTHONPATH=wt + "/src", PYTHONHASHSEED="0")
env.pop("EXO_VERIF", None)
def sh(cmd, **kw):
    p = subprocess.run(cmd, shell=True, cwd=wt, env=env, capture_output=True, text=True, **kw)
    return p.returncode, (p.stdout + p.stderr)[-3000:]
meta = {"name": name, "property": pid, "when": time.strftime("%Y-%m-%d %H:%M:%S")}
# make sure the patch is what is applied
sh("git checkout -- src")
rc, o = sh("git apply patch.diff")
meta["patch_applies"] = rc == 0
rc1, o1 = sh("timeout 900 /venv/bin/python demo.py")
sh("git checkout -- src")
rc0, o0 = sh("timeout 900 /venv/bin/python demo.py")
sh("git apply patch.diff")
meta["demo_with_change_rc"] = rc1
meta["demo_without_change_rc"] = rc0
meta["demo_output_with_change"] = o1[-1500:]
for f in ("patch.diff", "demo.py", "note.md"):
    if os.path.exists(os.path.join(wt, f)):
        shutil.copy(os.path.join(wt, f), os.path.join(out, f))
if not skip_suite:
    junit = "/verif/.scratch/junit_seed_%s.xml" % name
    rc, o = sh("timeout 5000 /venv/bin/python -m pytest -q -p no:cacheprovider --timeout=1500 --continue-on-collection-errors -n 6 --junitxml=%s" % junit)
    r = subprocess.run(["/venv/bin/python", "/verif/harness/baseline_cmp.py", junit], capture_output=True, text=True)
    meta["suite_baseline_ok"] = r.returncode == 0
    meta["suite_summary"] = (o.strip().splitlines() or [""])[-1]
    meta["suite_regressions"] = r.stdout[-1500:]
json.dump(meta, open(os.path.join(out, "meta.json"), "w"), indent=1)
print(json.dumps({k: v for k, v in meta.items() if not k.startswith("demo_output")}, indent=1))
