"""C16 generators (no exo import): Exo procedure source text and pattern strings.

Every random choice comes from the ``random.Random`` handed in by the caller (derived from ck.seed).
The procedures are kept bounds-safe by construction (all tensors have extent ``n``/``m`` in every
dimension that is indexed by a loop variable ranging over ``seq(lo, n)``), so that almost all of
them pass exo's front end; the rest is counted as rejected.
"""
from __future__ import annotations

PRELUDE = '''from __future__ import annotations
from exo import proc, config, DRAM
from exo.libs.externs import sin, relu, select


@config
class Cfg:
    a: index
    b: f32


@config
class Cfh:
    a: index


@proc
def callee(n: size, x: [f32][n] @ DRAM):
    for q in seq(0, n):
        x[q] = 0.0


@proc
def callee_s(n: size, x: [f32][n] @ DRAM, s: stride):
    for q in seq(0, n):
        x[q] = 1.0


@proc
def scal(y: f32 @ DRAM):
    y = 2.0


@proc
def two(n: size, y: f32 @ DRAM, k: index):
    y = 3.0
'''

HEADER = '''from __future__ import annotations
from exo import proc, DRAM
from exo.libs.externs import sin, relu, select
from c16_prelude import Cfg, Cfh, callee, callee_s, scal, two


'''


class Env:
    def __init__(self):
        self.idx = []  # loop variables in scope (all range inside [0, n))
        self.scal = []  # f32 scalars
        self.vec = ["B", "C"]  # f32[n]
        self.mat = ["A"]  # f32[n, n]
        self.win = []  # windows of extent n
        self.in_loop = False

    def copy(self):
        e = Env()
        e.idx, e.scal, e.vec, e.mat, e.win = list(self.idx), list(self.scal), list(self.vec), list(self.mat), list(self.win)
        e.in_loop = self.in_loop
        return e


class ProcGen:
    """Grammar-directed generator of one procedure."""

    LOOPV = ["i", "j", "k", "i", "j"]
    SCAL = ["t", "s", "t"]
    VEC = ["u", "v", "u"]
    WIN = ["w", "z"]

    def __init__(self, rng, max_depth=3, max_len=4):
        self.r = rng
        self.max_depth = max_depth
        self.max_len = max_len
        self.nstmts = 0

    # ---- expressions ----
    def index(self, env, allow_arith=True):
        r = self.r
        if env.idx and r.random() < 0.8:
            v = r.choice(env.idx)
            return v
        return "0"

    def index_cond(self, env):
        r = self.r
        ops = ["<", ">", "<=", ">=", "=="]
        if env.idx:
            a = r.choice(env.idx)
            c = "%s %s %d" % (a, r.choice(ops), r.randrange(0, 4))
            k = r.random()
            if k < 0.2 and len(env.idx) > 1:
                b = r.choice(env.idx)
                c = "%s and %s %s %d" % (c, b, r.choice(ops), r.randrange(0, 3))
            elif k < 0.3:
                c = "%s or n > %d" % (c, r.randrange(1, 5))
            elif k < 0.4:
                c = "%s + 1 < n" % a
            elif k < 0.5:
                c = "Cfg.a == %d" % r.randrange(0, 3)
            return c
        k = r.random()
        if k < 0.3:
            return "Cfg.a == %d" % r.randrange(0, 3)
        return "n %s %d" % (r.choice(ops), r.randrange(1, 5))

    def data_atom(self, env):
        r = self.r
        k = r.random()
        if k < 0.18:
            return r.choice(["0.0", "1.0", "2.0", "3.0", "0.5", "-3.0", "-1.0"])
        if k < 0.32 and env.scal:
            return r.choice(env.scal)
        if k < 0.6:
            return "%s[%s]" % (r.choice(env.vec + env.win), self.index(env))
        if k < 0.8:
            return "%s[%s, %s]" % (r.choice(env.mat), self.index(env), self.index(env))
        if k < 0.86:
            return "Cfg.b"
        return "%s[%s]" % (r.choice(env.vec), self.index(env))

    def data(self, env, depth=0):
        r = self.r
        k = r.random()
        if depth >= 2 or k < 0.45:
            return self.data_atom(env)
        if k < 0.75:
            return "%s %s %s" % (self.data(env, depth + 1), r.choice(["+", "*", "-", "*", "/"]), self.data_atom(env))
        if k < 0.83:
            return "-%s" % self.data_atom(env)
        if k < 0.91:
            return "sin(%s)" % self.data(env, depth + 1)
        if k < 0.96:
            return "relu(%s)" % self.data(env, depth + 1)
        return "select(%s, %s, %s, %s)" % (self.data_atom(env), self.data_atom(env), self.data_atom(env), self.data_atom(env))

    def lvalue(self, env):
        r = self.r
        k = r.random()
        if k < 0.3 and env.scal:
            return r.choice(env.scal)
        if k < 0.75:
            return "%s[%s]" % (r.choice(env.vec + env.win), self.index(env))
        return "%s[%s, %s]" % (r.choice(env.mat), self.index(env), self.index(env))

    # ---- statements ----
    def block(self, env, depth, ind):
        r = self.r
        n = r.randrange(1, self.max_len + 1)
        out = []
        env = env.copy()
        for _ in range(n):
            out.extend(self.stmt(env, depth, ind))
        return out

    def stmt(self, env, depth, ind):
        r = self.r
        self.nstmts += 1
        pad = "    " * ind
        k = r.random()
        deep = depth >= self.max_depth or self.nstmts > 28
        if k < 0.17 and not deep:
            v = r.choice(self.LOOPV)
            lo = r.choice(["0", "0", "0", "1", "1"])
            e2 = env.copy()
            e2.in_loop = True
            if v not in e2.idx:
                e2.idx.append(v)
            hi = r.choice(["n", "n", "n", "n - 1"]) if lo == "0" else "n"
            return ["%sfor %s in seq(%s, %s):" % (pad, v, lo, hi)] + self.block(e2, depth + 1, ind + 1)
        if k < 0.32 and not deep:
            c = self.index_cond(env)
            lines = ["%sif %s:" % (pad, c)] + self.block(env, depth + 1, ind + 1)
            if r.random() < 0.55:
                lines += ["%selse:" % pad] + self.block(env, depth + 1, ind + 1)
            return lines
        if k < 0.40:
            nm = r.choice(self.SCAL)
            if nm not in env.scal:
                env.scal.append(nm)
            for lst in (env.vec, env.win, env.mat):
                if nm in lst:
                    lst.remove(nm)
            return ["%s%s: f32" % (pad, nm), "%s%s = %s" % (pad, nm, self.data_atom(env))]
        if k < 0.46:
            nm = r.choice(self.VEC)
            if nm in env.scal:
                env.scal.remove(nm)
            if nm in env.win:
                env.win.remove(nm)
            two_d = r.random() < 0.3
            if two_d:
                if nm in env.vec:
                    env.vec.remove(nm)
                if nm not in env.mat:
                    env.mat.append(nm)
                return ["%s%s: f32[n, n]" % (pad, nm)]
            if nm in env.mat:
                env.mat.remove(nm)
            if nm not in env.vec:
                env.vec.append(nm)
            return ["%s%s: f32[n]" % (pad, nm)]
        if k < 0.52:
            nm = r.choice(self.WIN)
            if nm in env.win or nm in env.scal or nm in env.vec or nm in env.mat:
                return ["%spass" % pad]
            if r.random() < 0.5:
                src = "%s[0:n]" % r.choice([v for v in env.vec if v != nm] or ["B"])
            else:
                src = "%s[%s, 0:n]" % (r.choice([m for m in env.mat if m != nm] or ["A"]), self.index(env))
            if nm not in env.win:
                env.win.append(nm)
            return ["%s%s = %s" % (pad, nm, src)]
        if k < 0.62:
            j = r.random()
            if j < 0.3:
                return ["%scallee(n, %s[0:n])" % (pad, r.choice(env.vec))]
            if j < 0.5:
                return ["%scallee(n, %s[%s, 0:n])" % (pad, r.choice(env.mat), self.index(env))]
            if j < 0.65 and env.win:
                return ["%scallee(n, %s)" % (pad, r.choice(env.win))]
            if j < 0.8:
                return ["%scallee_s(n, %s[0:n], stride(A, %d))" % (pad, r.choice(env.vec), r.randrange(0, 2))]
            if j < 0.9 and env.scal:
                return ["%sscal(%s)" % (pad, r.choice(env.scal))]
            if env.scal:
                return ["%stwo(n, %s, %s)" % (pad, r.choice(env.scal), self.index(env))]
            return ["%scallee(n, B[0:n])" % pad]
        if k < 0.70 and env.in_loop:
            return ["%s%s = %s" % (pad, self.lvalue(env), self.data(env))]
        if k < 0.66:
            return ["%sCfg.a = %s" % (pad, r.choice(["n", "n + 1", "0", "1", "2"]))]
        if k < 0.68:
            return ["%sCfh.a = %s" % (pad, r.choice(["n", "0", "1"]))]
        if k < 0.70:
            return ["%sCfg.b = %s" % (pad, r.choice(["0.0", "1.0", "0.5"]))]
        if k < 0.74:
            return ["%spass" % pad]
        if k < 0.87:
            return ["%s%s += %s" % (pad, self.lvalue(env), self.data(env))]
        return ["%s%s = %s" % (pad, self.lvalue(env), self.data(env))]

    def proc(self, name):
        self.nstmts = 0
        env = Env()
        body = self.block(env, 0, 1)
        # make sure most procs have some structure
        if self.r.random() < 0.7:
            e2 = env.copy()
            e2.idx.append("i")
            e2.in_loop = True
            body = body + ["    for i in seq(0, n):"] + self.block(e2, 1, 2)
        src = "@proc\ndef %s(n: size, A: f32[n, n] @ DRAM, B: f32[n] @ DRAM, C: f32[n] @ DRAM):\n" % name
        src += "    assert stride(A, 1) == 1\n"
        src += "\n".join(body) + "\n"
        return src


# ---------------------------------------------------------------------------------------------------
# pattern strings

NAMES = ["i", "j", "k", "t", "s", "u", "v", "w", "z", "A", "B", "C", "n", "x", "_"]
TEMPLATES = [
    "for {v} in _: _",
    "for {v} in seq(0, _): _",
    "for {v} in seq(_, n): _",
    "for _ in _: _",
    "{x} = _",
    "{x} += _",
    "_ = _",
    "_ += _",
    "{x}[_] = _",
    "{x}[_] += _",
    "{x}[_, _] = _",
    "_[_] = _",
    "{x}[{v}] = _",
    "{x} = {c}",
    "if _: _",
    "if _:\n    _\nelse:\n    _",
    "if {v} < _: _",
    "if _ and _: _",
    "if _:\n    {x} = _",
    "if _:\n    _\n    {x} = _",
    "pass",
    "{x} : _",
    "{x} : f32[_]",
    "{x} : f32[_, _]",
    "{x} : f32[n]",
    "_ : _",
    "callee(_)",
    "callee(_, _)",
    "callee(n, _)",
    "callee(1, 2, 3)",
    "callee_s(_, _, _)",
    "callee_s(_, _, stride(A, 0))",
    "scal(_)",
    "two(_, _, {v})",
    "_(_)",
    "Cfg.a = _",
    "Cfg.b = _",
    "Cfh.a = _",
    "_.a = _",
    "Cfg._ = _",
    # sequences
    "{x} = _ ; _",
    "_ ; {x} = _",
    "{x} : _ ; {x} = _",
    "{x} : _ ; _",
    "_ ; {x} += _ ; _",
    "{x} = _ ; {y} = _",
    "{x} = _\n{y} += _",
    "_ ; pass",
    "for {v} in _: _\n_",
    "_\nfor {v} in _: _",
    "_\nif _: _",
    "{x} = _ ; _ ; {y} = _",
    "{x} += _ ; {y} += _",
    "for {v} in _:\n    _\n    {x} += _",
    "for {v} in _:\n    {x} = _\n    _",
    "for {v} in _:\n    for {w} in _: _",
    "for {v} in _:\n    if _: _",
    # expression patterns
    "{x}[_]",
    "{x}[_, _]",
    "{x}[{v}]",
    "{x}[{v}, _]",
    "{x}[0]",
    "_[0]",
    "_[{v}]",
    "{x}[{v}, 0]",
    "{x}[0, _]",
    "_[_]",
    "{x}",
    "{v}",
    "{c}",
    "-{c}",
    "-_",
    "_ + _",
    "_ * _",
    "_ - _",
    "_ / _",
    "_ < _",
    "_ == _",
    "_ and _",
    "{v} + 1",
    "{x}[_] * _",
    "_ * {c}",
    "sin(_)",
    "relu(_)",
    "select(_, _, _, _)",
    "select(_, _)",
    "stride(A, 0)",
    "stride(A, 1)",
    "stride(A, _)",
    "stride(_, _)",
    "Cfg.a",
    "Cfg.b",
    "Cfh.a",
    "n",
    "n - 1",
    "n + 1",
    "True",
    "0.0",
]
CONSTS = ["0", "1", "2", "3", "0.0", "1.0", "2.0", "3.0", "0.5", "3", "1", "-3.0"]
SUFFIXES = ["", "", "", "", "", " #0", " #1", "#1", " #1", " #2", "#0 ", " #01", " # 1", " #7", " #3"]
MALFORMED = [
    "_",
    "",
    "_ ; _",
    "_ ; _ ; {x} = _",
    "{x} = _ ; _ ; _",
    "for {v} in _:\n    _\n    _\n    {x} = _",
    "{x} = _ #a",
    "{x} = _ #1 #2",
    "#1",
    "{x} = _ #-1",
    "{x} = ",
    "for {v} in _",
    "{x}[0:2]",
    "{x} = _ # note",
    "if _: _ #1x",
    "{x} ++",
    "while _: _",
    "{x} = 'abc'",
]


def fill(r, tpl, loops=None, bufs=None):
    loops = (loops or []) * 3 + ["i", "j", "k", "_", "q"]
    bufs = (bufs or []) * 3 + ["t", "s", "u", "w", "A", "B", "C", "_"]
    return tpl.format(
        v=r.choice(loops),
        w=r.choice(loops),
        x=r.choice(bufs),
        y=r.choice(bufs),
        c=r.choice(CONSTS),
    )


def template_pattern(r, loops=None, bufs=None):
    return fill(r, r.choice(TEMPLATES), loops, bufs) + r.choice(SUFFIXES)


def malformed_pattern(r, loops=None, bufs=None):
    return fill(r, r.choice(MALFORMED), loops, bufs)


LOOP_SHORTHANDS = ["{v}", "{v} #0", "{v} #1", "{v}#1", "{v} # 1", "{v} #2", "{v}\n", "{v} #1\n", "{v} #0 ", " {v}", "{v} #", "for {v} in _: _", "for {v} in _: _ #1", "{v} {v}", "1{v}"]
ALLOC_SHORTHANDS = ["{x}", "{x} #0", "{x} #1", "{x}#1", "{x} # 1", "{x}: _", "{x} : _ #1", "{x}\n", "{x} #1 ", "n", "A", "B #1"]


def loop_shorthand(r, loops=None):
    return r.choice(LOOP_SHORTHANDS).format(v=r.choice((loops or []) * 3 + ["i", "j", "k", "q"]))


def alloc_shorthand(r, bufs=None):
    return r.choice(ALLOC_SHORTHANDS).format(x=r.choice((bufs or []) * 2 + ["t", "u", "w", "A", "B", "n", "q"]))
