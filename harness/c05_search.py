"""C05: execution search on the real `replace` (instances from c05_gen, the x86 library, the repo's tests).

For every replace the real implementation ACCEPTS:
  * p_before vs p_after are run in the extracted reference semantics on generated inputs, both directions;
  * the round trip inline(replace(p, block, f), call) is compared with p the same way;
  * the exported (block, call) pair is handed to the extracted validator (coq/Unify) -> certified or not.
A semantic difference is a violation with key  replace:<callee kind>:<perturbation>:<difference>."""
from __future__ import annotations

import traceback

import common
import progen
import semcheck
import export
import c05_gen as G

from exo.API import Procedure
from exo.core.LoopIR import LoopIR, T
from exo.rewrite.new_eff import SchedulingError
from exo.rewrite.LoopIR_unification import UnificationError
from exo.core.internal_cursors import InvalidCursorError
import exo.stdlib.scheduling as S
import exo.API_cursors as PC

REFUSALS = (SchedulingError, UnificationError, InvalidCursorError, TypeError, ValueError, KeyError,
            NotImplementedError, AssertionError, IndexError, AttributeError)


class Instance:
    """a block [lo,hi) in list `attr` of the node at parent_path of procedure p, to be replaced by callee"""

    def __init__(self, p, parent_path, attr, lo, hi, callee, ckind, pkind, src=""):
        self.p, self.parent_path, self.attr, self.lo, self.hi = p, list(parent_path), attr, lo, hi
        self.callee, self.ckind, self.pkind, self.src = callee, ckind, pkind, src

    def block(self):
        return G.block_cursor(self.p, self.parent_path, self.attr, self.lo, self.hi)

    def nodes(self):
        return G.block_nodes(self.p, self.parent_path, self.attr, self.lo, self.hi)

    def describe(self):
        return {"callee_kind": self.ckind, "perturbation": self.pkind, "proc": str(self.p), "callee": str(self.callee),
                "block": [self.parent_path, self.attr, self.lo, self.hi], "module_source": self.src}


def build_true_instance(rng, stats):
    """-> (Instance, caller Procedure with the call, call path) or None"""
    if rng.random() < 0.25:
        c = G.callee_from_progen(rng)
        csrc = c["src"]
    else:
        c = rng.choice(G.TEMPLATES)(rng)
        csrc = G.callee_src(c, "callee")
    src = G.HEADER + "\n" + csrc + "\n" + G.make_caller(rng, c)
    mod, err = progen.load_module(src, "c05")
    if mod is None:
        stats["caller-rejected-by-front-end"] = stats.get("caller-rejected-by-front-end", 0) + 1
        stats.setdefault("caller-reject-samples", [])
        if len(stats["caller-reject-samples"]) < 3:
            stats["caller-reject-samples"].append({"err": err, "src": src})
        return None
    caller, callee = mod.caller, getattr(mod, c["name"])
    calls = [s for s in _all_stmts(caller) if isinstance(s[1], LoopIR.Call)]
    if not calls:
        return None
    path, call = calls[0]
    return c, src, caller, callee, path


def _all_stmts(p: Procedure):
    out = []

    def walk(lst, path, attr):
        for k, s in enumerate(lst):
            pth = path + [(attr, k)]
            out.append((pth, s))
            if isinstance(s, LoopIR.For):
                walk(s.body, pth, "body")
            elif isinstance(s, LoopIR.If):
                walk(s.body, pth, "body")
                walk(s.orelse, pth, "orelse")

    walk(p._loopir_proc.body, [], "body")
    return out


def call_cursor(p: Procedure, path):
    import exo.core.internal_cursors as ic
    return PC.lift_cursor(ic.Node(p._loopir_proc, list(path)), p)


def inline_instance(rng, c, src, caller, callee, path, stats):
    """inline the call with the REAL inline; returns the Instance whose block is the inlined body"""
    call = G.node_at(caller._loopir_proc, path)
    nwin = sum(1 for a in call.args if isinstance(a, LoopIR.WindowExpr))
    nbody = len(call.f.body)
    p1 = S.inline(caller, call_cursor(caller, path))
    parent_path, (attr, idx) = path[:-1], path[-1]
    mode = rng.choice(["keep-windows", "inline-windows", "inline-windows", "inline-windows+simplify"])
    lo = idx + nwin
    if nwin and mode != "keep-windows":
        for _ in range(nwin):
            wc = call_cursor(p1, parent_path + [(attr, idx)])
            assert isinstance(wc, PC.WindowStmtCursor), wc
            p1 = S.inline_window(p1, wc)
        lo = idx
        if mode.endswith("simplify"):
            p1 = S.simplify(p1)
            # simplify may delete statements; require the block shape to be intact
            par = G.node_at(p1._loopir_proc, parent_path)
            if len(getattr(par, attr)) < lo + nbody:
                return None
    stats["mode:" + mode] = stats.get("mode:" + mode, 0) + 1
    return Instance(p1, parent_path, attr, lo, lo + nbody, callee, c["kind"], "none", src)


def try_replace(inst: Instance):
    """-> (p_after | None, refusal text)"""
    try:
        return S.replace(inst.p, inst.block(), inst.callee, quiet=True), ""
    except REFUSALS as e:
        return None, "%s: %s" % (type(e).__name__, str(e)[:160])


def new_call_node(p_after: Procedure, inst: Instance):
    par = G.node_at(p_after._loopir_proc, inst.parent_path)
    n = getattr(par, inst.attr)[inst.lo]
    assert isinstance(n, LoopIR.Call), type(n)
    return n


def sem_check(sc: semcheck.SemChecker, inst: Instance, p_after: Procedure, n_inputs=5):
    """-> list of (difference kind, detail dict) — empty when the replace preserved the meaning"""
    out = []
    sc.reset()
    r = sc.compare(inst.p, p_after, n_inputs=n_inputs)
    if r and r["kind"] != "unsupported":
        out.append((classify(sc, inst, p_after, r["kind"], r), dict(r, direction="before->after")))
    r2 = sc.compare(p_after, inst.p, n_inputs=n_inputs)
    if r2 and r2["kind"] != "unsupported":
        out.append(("rev-" + r2["kind"], dict(r2, direction="after->before")))
    if r and r["kind"] == "unsupported":
        out.append(("unsupported", r))
    return out


def callsite_probe(p_after: Procedure, inst: Instance):
    """p_after with the body of the new call's callee replaced by `pass`: running it evaluates exactly the
    call-site obligations (actuals, window bounds, positive sizes, shapes, callee assertions)"""
    path = inst.parent_path + [(inst.attr, inst.lo)]
    call = G.node_at(p_after._loopir_proc, path)
    empty = call.f.update(body=[LoopIR.Pass(call.srcinfo)])
    ir = G.rebuild(p_after._loopir_proc, path, lambda n: n.update(f=empty))
    return Procedure(ir)


def classify(sc, inst: Instance, p_after: Procedure, kind: str, detail: dict):
    """refine 'derived-fails:X' into 'callsite-fails:X' when the call-site obligations alone already fail
    on the reported input (AssertFail keeps the key format of the recorded finding)"""
    m = kind.startswith("derived-fails:")
    if not m or "input" not in detail:
        return kind
    err = kind.split(":", 1)[1]
    try:
        probe = callsite_probe(p_after, inst)
        name = sc.ref(probe)
        o = export.parse_outcome(sc.interp.run(name, detail["input"]))
    except Exception:
        return kind
    if o[0] == "fails":
        return "derived-fails:AssertFail" if o[1] == "AssertFail" else "callsite-fails:" + o[1]
    return "body-fails:" + err if err != "AssertFail" else kind


def _callsite_fails(sc, inst, p_after, detail):
    try:
        probe = callsite_probe(p_after, inst)
        o = export.parse_outcome(sc.interp.run(sc.ref(probe), detail["input"]))
        return o[0] == "fails"
    except Exception:
        return False


def round_trip(sc, inst: Instance, p_after: Procedure, n_inputs=4):
    """inline the new call again and compare with the original; -> (p3|None, list of differences)"""
    path = inst.parent_path + [(inst.attr, inst.lo)]
    try:
        p3 = S.inline(p_after, call_cursor(p_after, path))
    except REFUSALS as e:
        return None, [("inline-refused", {"detail": "%s: %s" % (type(e).__name__, e)})]
    out = []
    sc.reset()
    r = sc.compare(inst.p, p3, n_inputs=n_inputs)
    if r and r["kind"] != "unsupported":
        # the inlined call fails where the original ran: is it the call site of p_after that is illegal
        # on this input (window outside its buffer / size / assertion)?  then it is that class of finding
        k = classify(sc, inst, p_after, r["kind"], r)
        if k.startswith("callsite-fails") or (k.endswith("AssertFail") and _callsite_fails(sc, inst, p_after, r)):
            out.append((k, dict(r, direction="before->inline(after)", note="the call site of replace's result is illegal on this input")))
        else:
            out.append(("roundtrip-" + r["kind"], dict(r, direction="before->inline(after)")))
    r2 = sc.compare(p3, inst.p, n_inputs=n_inputs)
    if r2 and r2["kind"] != "unsupported":
        out.append(("roundtrip-rev-" + r2["kind"], dict(r2, direction="inline(after)->before")))
    return p3, out
