"""Driver of the REAL implementation for property C09 (imported from EXO_REPO/src by check.py):
compiles generated procedures while observing, by monkey-patching inside this process, every invocation of
exo.backend.parallel_analysis.Check_ParallelizeLoop and every ParallelAnalysis.run; plus the client of the
extracted instrumented interpreter coq/Par/_build/parfp."""
from __future__ import annotations

import subprocess

import common
import export
import progen

import exo.backend.parallel_analysis as PA
from exo.core.LoopIR import LoopIR

PARFP = str(common.COQ / "Par" / "_build" / "parfp")
PARTRAV = str(common.COQ / "Par" / "_build" / "partrav")


class Observer:
    """records  runs: [(proc LoopIR, 'returned'|'raised:<Type>')],  calls: [(proc LoopIR, loop stmt, passed?)]"""

    def __init__(self):
        self.calls = []
        self.runs = []
        self._orig_check = None
        self._orig_run = None

    def __enter__(self):
        self._orig_check = PA.Check_ParallelizeLoop
        self._orig_run = PA.ParallelAnalysis.run
        obs = self
        orig_check, orig_run = self._orig_check, self._orig_run

        def check(proc, s):
            try:
                orig_check(proc, s)
            except BaseException:
                obs.calls.append((proc, s, False))
                raise
            obs.calls.append((proc, s, True))

        def run(self_, proc):
            try:
                r = orig_run(self_, proc)
            except BaseException as e:
                obs.runs.append((proc, "raised:" + type(e).__name__))
                raise
            obs.runs.append((proc, "returned"))
            return r

        PA.Check_ParallelizeLoop = check
        PA.ParallelAnalysis.run = run
        return self

    def __exit__(self, *a):
        PA.Check_ParallelizeLoop = self._orig_check
        PA.ParallelAnalysis.run = self._orig_run
        return False


def call_tree(ir):
    """every procedure reachable through Call statements (own walk, independent of the compiler's), main first"""
    seen, order = set(), []

    def stmts(ss):
        for s in ss:
            if isinstance(s, LoopIR.Call):
                walk(s.f)
            elif isinstance(s, LoopIR.If):
                stmts(s.body)
                stmts(s.orelse)
            elif isinstance(s, LoopIR.For):
                stmts(s.body)

    def walk(p):
        if id(p) in seen:
            return
        seen.add(id(p))
        order.append(p)
        stmts(p.body)

    walk(ir)
    return order


def par_loops(ir):
    """(loop stmt, depth, position tags) of every Par loop of ONE procedure body, pre-order"""
    out = []

    def stmts(ss, depth, ctx):
        for s in ss:
            if isinstance(s, LoopIR.If):
                stmts(s.body, depth, ctx + ["if"])
                stmts(s.orelse, depth, ctx + ["else"])
            elif isinstance(s, LoopIR.For):
                par = isinstance(s.loop_mode, LoopIR.Par)
                if par:
                    out.append((s, depth, list(ctx)))
                stmts(s.body, depth + 1, ctx + ["par" if par else "seq"])

    stmts(ir.body, 0, [])
    return out


def alloc_free(stmts):
    """no Alloc in the statements, callees included (the hypothesis of theorem C09_perm_core)"""
    for s in stmts:
        if isinstance(s, LoopIR.Alloc):
            return False
        if isinstance(s, LoopIR.If) and not (alloc_free(s.body) and alloc_free(s.orelse)):
            return False
        if isinstance(s, LoopIR.For) and not alloc_free(s.body):
            return False
        if isinstance(s, LoopIR.Call) and not alloc_free(s.f.body):
            return False
    return True


def compile_observed(procedure):
    """-> dict(outcome = 'accept' | 'reject-par' | 'error:<Type>', msg, c, calls, runs)"""
    with Observer() as obs:
        try:
            c = procedure.c_code_str()
            outcome, msg = "accept", ""
        except TypeError as e:
            msg = str(e)
            c = None
            if "parallel loop's body is not parallelizable" in msg:
                outcome = "reject-par"
            else:
                outcome = "error:TypeError"
        except BaseException as e:  # any other failure of the compiler is a failure to compile (safe)
            if isinstance(e, (KeyboardInterrupt, SystemExit)):
                raise
            c, msg, outcome = None, str(e), "error:" + type(e).__name__
    return {"outcome": outcome, "msg": msg[:400], "c": c, "calls": obs.calls, "runs": obs.runs}


def load(src, main, tag="c09"):
    """-> (Procedure | None, error)"""
    mod, err = progen.load_module(src, tag)
    if mod is None:
        return None, err
    p = getattr(mod, main, None)
    if p is None:
        return None, "no procedure %s in module" % main
    return p, None


class Driver:
    """client of one extracted driver of coq/Par (one job per line)"""
    BIN = None

    def __init__(self):
        self.p = subprocess.Popen([self.BIN], stdin=subprocess.PIPE, stdout=subprocess.PIPE, text=True, bufsize=1)
        self.sent = 0
        self.defs_sent = []
        if not hasattr(self, "timeouts"):
            self.timeouts = 0

    TIMEOUT = 10.0   # seconds per job; a job that exceeds it is abandoned (the driver is restarted)

    def ask(self, line: str) -> str:
        import select
        self.p.stdin.write(line + "\n")
        self.p.stdin.flush()
        ready, _, _ = select.select([self.p.stdout], [], [], self.TIMEOUT)
        if not ready:
            self.timeouts += 1
            d = common.SCRATCH / "c09"
            d.mkdir(parents=True, exist_ok=True)
            (d / ("timeout_job_%d.txt" % self.timeouts)).write_text("\n".join(self.defs_sent + [line]) + "\n")
            self.p.kill()
            self.p.wait()
            self.__init__()
            raise TimeoutError("driver job exceeded %.0fs" % self.TIMEOUT)
        out = self.p.stdout.readline()
        if not out:
            raise RuntimeError("%s died on: %s" % (self.BIN, line[:300]))
        return out.strip()

    def define(self, ex: export.Exporter):
        for d in ex.defs[self.sent:]:
            r = self.ask(d)
            assert r == "ok", r
            self.defs_sent.append(d)
        self.sent = len(ex.defs)

    def reset(self):
        self.sent = 0
        self.defs_sent = []

    def close(self):
        try:
            self.p.stdin.close()
            self.p.wait(timeout=5)
        except Exception:
            self.p.kill()


class ParFp(Driver):
    """instrumented interpreter + race checker (Footprint.v)"""
    BIN = PARFP

    def fp(self, name, inp, order="seq"):
        """-> ('invalid'|'fails'|'error', what) | ('done', bufs, cfg, race, npar, nontrivial)"""
        s = self.ask("(fp %s %s %s)" % (name, inp, order))
        if not s.startswith("done "):
            k, _, e = s.partition(" ")
            return (k, e)
        sx = common.parse_sexp("(" + s[5:] + ")")
        bufs = [list(b) for b in sx[0]]
        cfg = {int(k): v for k, v in sx[1]}
        race = sx[2]
        npar = int(sx[3].split("=")[1])
        nontriv = int(sx[4].split("=")[1])
        return ("done", bufs, cfg, None if race == ["norace"] else race, npar, nontriv)


class ParTrav(Driver):
    """the TRANSLATED traversal of ParallelAnalysis (Gen_ParTraverse.v)"""
    BIN = PARTRAV

    def visited(self, name):
        s = self.ask("(visited %s)" % name)
        sx = common.parse_sexp("(" + s + ")")
        assert sx[0] == "visited" and sx[2] == "parloops", s
        return [int(x) for x in sx[1]], [int(x) for x in sx[3]]

    def parun(self, name, failing):
        s = self.ask("(parun %s (%s))" % (name, " ".join(str(x) for x in failing)))
        sx = common.parse_sexp("(" + s + ")")
        assert sx[0] in ("accept", "reject"), s
        return sx[0] == "accept", [int(x) for x in sx[1]]
