"""C05: fixed replace cases — deterministic witnesses of the recorded finding, the regression case of the
repaired unifier defect, the repo's own unify tests (tests/test_schedules.py test_unify1..12, replace_all)
and hand-written kernels against the x86 instruction library (load/store/fmadd/broadcast/prefix/mask).

Every case is Exo source of a module that defines `target` (the procedure), the callee is either defined in
the module under the name given in `callee` or imported from exo.platforms.x86; `block` is the pattern
handed to `find` (first match); `n` the number of statements of the block."""
from __future__ import annotations

HEADER = (
    "from __future__ import annotations\n"
    "from exo import proc, instr, config, DRAM\n"
    "from exo.libs.memories import AVX2, AVX512\n"
    "from exo.libs.externs import relu, select\n"
    "from exo.platforms.x86 import *\n"
    "from exo.stdlib.scheduling import *\n"
)


def case(name, kind, src, callee, block, pkind="none", expect=None):
    return dict(name=name, kind=kind, src=HEADER + src, callee=callee, block=block, pkind=pkind, expect=expect)


# ---------------------------------------------------------------- witnesses of the recorded finding
WITNESSES = [
    case("witness-assert-size", "witness", """
@proc
def foo(n: size, x: [R][n]):
    assert n >= 4
    for i in seq(0, n):
        x[i] = 0.0

@proc
def target(y: R[8]):
    for i in seq(0, 2):
        y[i] = 0.0
""", "foo", "for i in _:_", expect="derived-fails:AssertFail"),
    case("witness-assert-stride", "witness", """
@proc
def foo2(n: size, x: [R][n]):
    assert stride(x, 0) == 1
    for i in seq(0, n):
        x[i] = 0.0

@proc
def target(y: R[8, 8]):
    for i in seq(0, 8):
        y[i, 0] = 0.0
""", "foo2", "for i in _:_", expect="derived-fails:AssertFail"),
    case("witness-size-zero", "witness", """
@proc
def sub(n: size, dst: [R][n], src: [R][n]):
    dst[0] += src[0]

@proc
def target(x: R[4], y: R[4]):
    x[0] += y[0]
""", "sub", "x[_] += _", expect="callsite-fails:BadSize"),
    case("witness-window-oob", "witness", """
@proc
def shl(n: size, dst: [R][n], src: [R][n]):
    assert n >= 1
    for i in seq(1, n):
        dst[i] += src[i - 1]

@proc
def target(N: size, x: R[N], y: R[N]):
    for i in seq(1, N):
        x[i] += y[i]
""", "shl", "for i in _:_", expect="callsite-fails:OOB"),
]

# ---------------------------------------------------------------- regression: repaired defect
REGRESS = [
    case("regress-other-buffer", "regress", """
@proc
def add2(n: size, dst: [R][n], src: [R][n]):
    for i in seq(0, n):
        dst[i] = src[i] + src[i]

@proc
def target(x: R[4], y: R[4], z: R[4]):
    for i in seq(0, 4):
        x[i] = y[i] + z[i]
""", "add2", "for i in _:_", pkind="other-buffer", expect="rejected"),
    case("regress-other-buffer-2stmts", "regress", """
@proc
def two(n: size, dst: [R][n], src: [R][n]):
    for i in seq(0, n):
        dst[i] = src[i] * src[i]
    for j in seq(0, n):
        dst[j] += src[j]

@proc
def target(x: R[8], y: R[3]):
    for i in seq(0, 3):
        x[i + 5] = y[i] * y[i]
    for j in seq(0, 3):
        x[j + 5] += x[j]
""", "two", "for i in _:_", pkind="other-buffer", expect="rejected"),
]

# comparison operators in corresponding guard positions: callee guard `i OPc k`, block guard `i OPb m`
_LANE = """
@proc
def copy_lane(n: size, dst: [R][n], src: [R][n], k: index):
    for i in seq(0, n):
        if i %s k:
            dst[i] = src[i]

@proc
def target(m: index, x: R[8], y: R[8]):
    for i in seq(0, 8):
        if i %s m:
            y[i] = x[i]
"""
_CMP = ["==", "<", "<=", ">", ">="]
for _a in _CMP:
    for _b in _CMP:
        if _a != _b and (_a == "==" or _b == "=="):
            REGRESS.append(case("regress-cmp:%s-vs-%s" % (_a, _b), "regress", _LANE % (_a, _b), "copy_lane", "for i in _:_",
                                pkind="cmp:%s->%s" % (_a, _b), expect="rejected"))
_BAND = """
@proc
def band(dst: [R][8], src: [R][8], lo: index, hi: index):
    for i in seq(0, 8):
        if i >= lo %s i < hi:
            dst[i] += src[i]

@proc
def target(a: index, b: index, x: R[8], y: R[8]):
    for i in seq(0, 8):
        if i >= a %s i < b:
            y[i] += x[i]
"""
REGRESS.append(case("regress-bool:and-vs-or", "regress", _BAND % ("and", "or"), "band", "for i in _:_", pkind="bool:and->or", expect="rejected"))
REGRESS.append(case("regress-bool:or-vs-and", "regress", _BAND % ("or", "and"), "band", "for i in _:_", pkind="bool:or->and", expect="rejected"))
_BAND2 = """
@proc
def band(dst: [R][8], src: [R][8], lo: index, hi: index):
    for i in seq(0, 8):
        if i %s lo and i < hi:
            dst[i] += src[i]

@proc
def target(a: index, b: index, x: R[8], y: R[8]):
    for i in seq(0, 8):
        if i %s a and i < b:
            y[i] += x[i]
"""
REGRESS.append(case("regress-cmp-in-and:==-vs->=", "regress", _BAND2 % ("==", ">="), "band", "for i in _:_", pkind="cmp:==->>=", expect="rejected"))
REGRESS.append(case("regress-cmp-in-and:>=-vs-==", "regress", _BAND2 % (">=", "=="), "band", "for i in _:_", pkind="cmp:>=->==", expect="rejected"))

# DoReplace must substitute the call for the unified statements only: a block cursor longer than the callee
# body keeps its trailing statements (`extra` = statements of the cursor beyond the callee body)
REGRESS.append(dict(case("regress-longer-block", "regress", """
@proc
def zero4(dst: [R][4]):
    for i in seq(0, 4):
        dst[i] = 0.0

@proc
def target(x: R[8], y: R[4]):
    for i in seq(0, 4):
        x[i + 2] = 0.0
    for j in seq(0, 4):
        y[j] = x[j] + 1.0
    x[0] = 5.0
""", "zero4", "for i in _:_", pkind="longer-block", expect="accepted-equal"), extra=2))

# ---------------------------------------------------------------- the repo's own tests
_UNIFY = {
    1: ("""
@proc
def bar(n: size, src: R[n, n], dst: R[n, n]):
    for i in seq(0, n):
        for j in seq(0, n):
            dst[i, j] = src[i, j]

@proc
def target(x: R[5, 5], y: R[5, 5]):
    for i in seq(0, 5):
        for j in seq(0, 5):
            x[i, j] = y[i, j]
""", "for i in _:_"),
    2: ("""
@proc
def bar(n: size, src: [R][n, n], dst: [R][n, n]):
    for i in seq(0, n):
        for j in seq(0, n):
            dst[i, j] = src[i, j]

@proc
def target(x: R[12, 12], y: R[12, 12]):
    for i in seq(0, 5):
        for j in seq(0, 5):
            x[i + 3, j + 1] = y[i + 5, j + 2]
""", "for i in _:_"),
    3: ("""
@proc
def bar(dst: [R][4], a: [R][4], b: [R][4]):
    for i in seq(0, 4):
        dst[i] = a[i] + b[i]

@proc
def target(n: size, z: R[n], x: R[n], y: R[n]):
    assert n % 4 == 0
    for i in seq(0, n / 4):
        for j in seq(0, 4):
            z[4 * i + j] = x[4 * i + j] + y[4 * i + j]
""", "for j in _:_"),
    4: ("""
@proc
def bar(n: size, src: [R][n], dst: [R][n]):
    for i in seq(0, n):
        if i < n - 2:
            dst[i] = src[i] + src[i + 1]

@proc
def target(x: R[50, 2], y: R[50, 2]):
    for j in seq(0, 50):
        if j < 48:
            y[j, 1] = x[j, 0] + x[j + 1, 0]
""", "for j in _:_"),
    5: ("""
@proc
def bar(n: size, src: R[n, n], dst: R[n, n]):
    for i in seq(0, n):
        for j in seq(0, n):
            tmp: f32
            tmp = src[i, j]
            dst[i, j] = tmp

@proc
def target(x: R[5, 5], y: R[5, 5]):
    for i in seq(0, 5):
        for j in seq(0, 5):
            c: f32
            c = y[i, j]
            x[i, j] = c
""", "for i in _:_"),
    6: ("""
@proc
def bar(n: size, m: size, src: [i8][n, m], dst: [i8][n, 16]):
    assert n <= 16
    assert m <= 16
    for i in seq(0, n):
        for j in seq(0, m):
            dst[i, j] = src[i, j]

@proc
def target(K: size, A: [i8][16, K] @ DRAM):
    for k in seq(0, K / 16):
        a: i8[16, 16] @ DRAM
        for i in seq(0, 16):
            for k_in in seq(0, 16):
                a[i, k_in] = A[i, 16 * k + k_in]
""", "for i in _:_"),
    7: ("""
@proc
def bar(unused_b: bool, n: size, src: R[n, n], dst: R[n, n], unused_m: index):
    for i in seq(0, n):
        for j in seq(0, n):
            dst[i, j] = src[i, j]

@proc
def target(x: R[5, 5], y: R[5, 5]):
    for i in seq(0, 5):
        for j in seq(0, 5):
            x[i, j] = y[i, j]
""", "for i in _:_"),
    8: ("""
@proc
def bar(n: size, m: size, src: R[n, n], dst: R[n, n]):
    assert m < n
    for i in seq(m, n):
        for j in seq(m, n):
            dst[i, j] = src[i, j]

@proc
def target(x: R[5, 5], y: R[5, 5]):
    for i in seq(3, 5):
        for j in seq(3, 5):
            x[i, j] = y[i, j]
""", "for i in _:_"),
}
_PREFIX = """
@proc
def bar(dst: [f32][8], src: [f32][8], bound: size):
    for i in seq(0, 8):
        if i < bound:
            dst[i] = src[i]

@proc
def target(n: size, m: size, x: f32[n]):
    assert n - m >= 1
    assert n - m <= 8
    y: f32[8]
    for i in seq(0, 8):
        if %s:
            y[i] = x[i]
"""
for _k, _c in ((9, "i + m < n"), (10, "i + m <= n"), (11, "m > n + i"), (12, "m >= n + i")):
    _UNIFY[_k] = (_PREFIX % _c, "for i in _:_")

REPO_TESTS = [case("test_unify%d" % k, "repo:test_unify%d" % k, s, "bar", b) for k, (s, b) in sorted(_UNIFY.items())]
REPO_TESTS += [
    case("test_replace_once:load", "repo:replace_once", """
@proc
def target(src: f32[8] @ DRAM):
    dst: f32[8] @ AVX2
    for i in seq(0, 8):
        dst[i] = src[i]
    for i in seq(0, 8):
        src[i] = dst[i]
""", "x86:mm256_loadu_ps", "for i in _:_ #0"),
    case("test_replace_once:store", "repo:replace_once", """
@proc
def target(src: f32[8] @ DRAM):
    dst: f32[8] @ AVX2
    for i in seq(0, 8):
        dst[i] = src[i]
    for i in seq(0, 8):
        src[i] = dst[i]
""", "x86:mm256_storeu_ps", "for i in _:_ #1"),
]

# ---------------------------------------------------------------- x86 library against small kernels
_K = {}
_K["saxpy-tile"] = """
@proc
def target(x: f32[4, 8] @ DRAM, y: f32[4, 8] @ DRAM, a: f32[1] @ DRAM):
    for io in seq(0, 4):
        av: f32[8] @ AVX2
        for i in seq(0, 8):
            av[i] = a[0]
        xv: f32[8] @ AVX2
        for i in seq(0, 8):
            xv[i] = x[io, i]
        yv: f32[8] @ AVX2
        for i in seq(0, 8):
            yv[i] = y[io, i]
        for i in seq(0, 8):
            yv[i] += av[i] * xv[i]
        for i in seq(0, 8):
            y[io, i] = yv[i]
"""
_K["column"] = """
@proc
def target(x: f32[8, 8] @ DRAM, y: f32[16] @ DRAM):
    for jo in seq(0, 8):
        v: f32[8] @ AVX2
        for i in seq(0, 8):
            v[i] = x[i, jo]
        for i in seq(0, 8):
            y[i + 8] = v[i]
"""
_K["offset"] = """
@proc
def target(n: size, x: f32[n] @ DRAM, y: f32[n] @ DRAM):
    assert n >= 16
    v: f32[8] @ AVX2
    for i in seq(0, 8):
        v[i] = x[i + 3]
    w: f32[8] @ AVX2
    for i in seq(0, 8):
        w[i] = 0.0
    for i in seq(0, 8):
        w[i] += v[i] * v[i]
    for i in seq(0, 8):
        y[8 + i] = w[i]
"""
_K["prefix"] = """
@proc
def target(n: size, x: f32[n] @ DRAM, y: f32[n] @ DRAM):
    assert n >= 1
    assert n <= 8
    v: f32[8] @ AVX2
    for i in seq(0, 8):
        if i < n:
            v[i] = x[i]
    for i in seq(0, 8):
        if i < n:
            y[i] = v[i]
"""
_K["arith"] = """
@proc
def target(x: f32[8] @ DRAM, y: f32[8] @ DRAM, z: f32[8] @ DRAM):
    a: f32[8] @ AVX2
    b: f32[8] @ AVX2
    c: f32[8] @ AVX2
    for i in seq(0, 8):
        a[i] = x[i]
    for i in seq(0, 8):
        b[i] = y[i]
    for i in seq(0, 8):
        c[i] = a[i] * b[i]
    for i in seq(0, 8):
        c[i] = a[i] + b[i]
    for i in seq(0, 8):
        c[i] = a[i] - b[i]
    for i in seq(0, 8):
        c[i] = b[i] - a[i]
    for i in seq(0, 8):
        c[i] = relu(a[i])
    for i in seq(0, 8):
        z[i] = c[i]
"""
_K["mask512"] = """
@proc
def target(N: size, x: f32[N] @ DRAM, y: f32[N] @ DRAM):
    assert N >= 1
    assert N <= 16
    v: f32[16] @ AVX512
    for i in seq(0, 16):
        if i < N:
            v[i] = x[i]
    for i in seq(0, 16):
        if i < N:
            y[i] = v[i]
"""

X86_INSTRS = {
    "saxpy-tile": ["mm256_broadcast_ss", "mm256_loadu_ps", "mm256_fmadd_ps", "mm256_storeu_ps", "mm256_mul_ps", "avx2_reg_copy_ps"],
    "column": ["mm256_loadu_ps", "mm256_storeu_ps", "avx2_reg_copy_ps"],
    "offset": ["mm256_loadu_ps", "mm256_setzero_ps", "avx2_set0_ps", "mm256_fmadd_ps", "mm256_storeu_ps", "mm256_mul_ps"],
    "prefix": ["mm256_prefix_load_ps", "mm256_prefix_store_ps", "mm256_loadu_ps", "avx2_mask_storeu_ps"],
    "arith": ["mm256_loadu_ps", "mm256_mul_ps", "mm256_add_ps", "mm256_sub_ps", "mm256_storeu_ps", "mm256_fmadd_ps", "avx2_sign_ps"],
    "mask512": ["mm512_maskz_loadu_ps", "mm512_mask_storeu_ps", "mm512_loadu_ps", "mm512_storeu_ps"],
}


def x86_kernels():
    """(kernel name, module source, instruction names): every top-level / nested loop of the kernel is
    tried against every listed instruction"""
    return [(k, HEADER + _K[k], X86_INSTRS[k]) for k in sorted(_K)]


# ---------------------------------------------------------------- inline probes (semantics of the real inline)
INLINE_PROBES = [
    case("config-actual", "inline-probe", """
@config
class CfgP:
    a: index

@proc
def callee(k: index, x: [R][4]):
    assert k >= 0
    assert k < 2
    CfgP.a = k + 1
    x[k] = 1.0

@proc
def target(x: R[4]):
    assert CfgP.a >= 0
    assert CfgP.a < 2
    callee(CfgP.a, x[0:4])
""", "callee", "callee(_)"),
    case("same-callee-twice", "inline-probe", """
@proc
def callee(n: size, dst: [R][n], src: [R][n]):
    for i in seq(0, n):
        t: R
        t = src[i]
        dst[i] += t

@proc
def target(x: R[8], y: R[8]):
    callee(4, x[0:4], y[4:8])
    callee(4, y[0:4], x[4:8])
""", "callee", "callee(_)"),
]
