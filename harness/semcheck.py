"""Differential semantic comparison of two real exo Procedures in the extracted Coq reference
interpreter (coq/Core/Sem.v `run`).  Used by C01, C04, C10, C12, C19 (and by C03/C05/C17 for execution).

old --op--> new : for every generated input valid for `old` on which `old` runs safely, `new` must run
safely, leave every defined cell of every argument buffer equal, and every configuration field equal
except those the system itself reports as possibly changed (proc_eqv.get_strictest_eqv_proc)."""
from __future__ import annotations

import copy

import export
from exo.core.LoopIR import LoopIR, T
from exo.core.proc_eqv import get_strictest_eqv_proc


class SemChecker:
    def __init__(self, rng, n_inputs=6):
        self.rng = rng
        self.n_inputs = n_inputs
        self.interp = export.Interp()
        self.ex = export.Exporter()
        self.gen = export.InputGen(rng)
        self.runs = 0
        self.nontrivial = 0  # comparisons where the original ran to completion

    def reset(self):
        # fresh tables (keeps def lines small); the interpreter process is reused
        self.ex = export.Exporter()
        self.interp.sent = 0
        self.uid = getattr(self, "uid", 0) + 1

    def close(self):
        self.interp.close()

    def ref(self, proc) -> str:
        """interpreter name of a Procedure (defines it, and its callees, on first use)"""
        ir = proc._loopir_proc
        n_before = len(self.ex.defs)
        name = self.ex.proc_ref(ir)
        # names are per Exporter; make them unique across resets
        for i in range(n_before, len(self.ex.defs)):
            pass
        self.interp.define(self.ex)
        return name

    def mod_fields(self, old, new):
        """configuration fields the system reports as possibly changed between old and new"""
        try:
            ok, keys = get_strictest_eqv_proc(old._loopir_proc, new._loopir_proc)
        except Exception:
            return None, set()
        ids = set()
        for k in keys or ():
            if k in self.ex.cfg_syms:
                ids.add(self.ex.cfg_syms[k])
            # a reported field that neither procedure mentions cannot be observed by the comparison
        return ok, ids

    def run_on(self, proc, desc):
        name = self.ref(proc)
        self.runs += 1
        return export.parse_outcome(self.interp.run(name, export.render_input(desc)))

    # ------------------------------------------------------------------ input relations
    @staticmethod
    def arg_index(proc, name):
        for k, a in enumerate(proc._loopir_proc.args):
            if str(a.name) == name:
                return k
        return None

    def compare(self, old, new, op="", descr="", n_inputs=None, relation=None):
        """returns None, or dict(kind=..., detail=..., input=...) for the first failing input.
        relation: None | ("partial_eval", argname, value) | ("transpose", argname) | ("narrow",)"""
        n_inputs = n_inputs or self.n_inputs
        try:
            self.ref(old)
            self.ref(new)
        except export.Unsupported as e:
            return {"kind": "unsupported", "detail": str(e)}
        ok, ignore = self.mod_fields(old, new)
        cfg_types = dict(self.ex.cfg_types)
        tries = 0
        done = 0
        while done < n_inputs and tries < n_inputs * 6:
            tries += 1
            d_old = self.gen.gen(old._loopir_proc, cfg_types)
            if d_old is None:
                continue
            d_new = d_old
            post = None
            if relation and relation[0] == "partial_eval":
                k = self.arg_index(old, relation[1])
                v = relation[2]
                d_old = copy.deepcopy(d_old)
                d_old["args"][k]["v"] = ("b", v) if isinstance(v, bool) else ("i", v)
                # buffers whose shape depends on the fixed argument must be regenerated: simplest is rejection
                d_chk = self.regen_shapes(old, d_old)
                if d_chk is None:
                    continue
                d_old = d_chk
                d_new = copy.deepcopy(d_old)
                del d_new["args"][k]
            elif relation and relation[0] == "transpose":
                k = self.arg_index(old, relation[1])
                d_new = copy.deepcopy(d_old)
                a = d_new["args"][k]
                a["shape"] = list(reversed(a["shape"]))
                a["strides"] = list(reversed(a["strides"]))  # same cells, transposed view
            o_old = self.run_on(old, d_old)
            if o_old[0] != "done":
                continue
            done += 1
            self.nontrivial += 1
            o_new = self.run_on(new, d_new)
            if o_new[0] == "error":  # interpreter time-out / stack overflow: no information about this input
                self.no_info = getattr(self, "no_info", 0) + 1
                continue
            if relation and relation[0] == "narrow" and o_new[0] == "invalid":
                continue
            if relation and relation[0] == "partial_eval" and o_new[0] == "done":
                # drop the fixed argument's (non-)buffer: control args have no buffer, nothing to do
                pass
            why = export.refines(o_old, o_new, ignore_cfg=ignore)
            if why:
                kind = "derived-" + o_new[0] + (":" + o_new[1] if o_new[0] != "done" else "")
                if o_new[0] == "done":
                    kind = ("config-mismatch" if why.startswith("config")
                            else "uninit-result" if why.endswith("vs none") else "value-mismatch")
                return {"kind": kind, "detail": why, "input": export.render_input(d_old),
                        "input_new": export.render_input(d_new), "old_outcome": repr(o_old)[:400],
                        "new_outcome": repr(o_new)[:400], "reported_mod_fields": sorted(ignore)}
        return None

    def regen_shapes(self, proc, desc):
        """recompute buffer extents after control arguments were overridden (dense layout)"""
        env = {}
        out = copy.deepcopy(desc)
        for a, d in zip(proc._loopir_proc.args, out["args"]):
            t = a.type
            if d["kind"] == "val":
                if d["v"][0] == "i":
                    env[a.name] = d["v"][1]
                    if isinstance(t, T.Size) and d["v"][1] < 1:
                        return None
            elif isinstance(t, T.Tensor):
                shape = [export.eval_index(x, env) for x in t.hi]
                if any(s is None or s < 1 for s in shape):
                    return None
                if shape != d["shape"]:
                    strides, acc = [], 1
                    for n in reversed(shape):
                        strides.insert(0, acc)
                        acc *= n
                    d.update(off=0, shape=shape, strides=strides, cells=list(range(2, 2 + acc)))
        return out
