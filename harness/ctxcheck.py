"""Soundness test of the *context* that exo's SMT-backed checks assume (ContextExtraction: control predicate and
pre-environment, new_eff.py), through the public entry point of the real checks (Check_ExprBound).

For a statement s below a guard `if e1 op e2` the context must entail the guard in the then-branch and its
negation in the else-branch; below `for i in seq(lo, hi)` it must entail lo <= i < hi.  A context that lets the
analysis PROVE the opposite (while not proving an absurdity, i.e. while the position is not simply dead code for
the analysis) is unsound: every rewrite checked at s is then justified under a condition that is false there.
No false alarms by construction: a sound context cannot entail the opposite of an enclosing guard unless it is
inconsistent, and inconsistency is tested first."""
from __future__ import annotations

from exo.core.LoopIR import LoopIR, T, GetReadConfigs
from exo.core.prelude import Sym
from exo.rewrite.new_eff import Check_ExprBound

NEG = {"<": ">=", ">": "<=", "<=": ">", ">=": "<"}


def _has_cfg(e):
    g = GetReadConfigs()
    g.do_e(e)
    return bool(g.readconfigs)


def _diff(e1, e2):
    return LoopIR.BinOp("-", e1, e2, T.index, e1.srcinfo)


def _proves(ir, s, expr, op, val=0):
    try:
        return bool(Check_ExprBound(ir, [s], expr, op, val, exception=False))
    except Exception:
        return None


def guards_of(ir):
    """yield (stmt, list of (kind, payload)) for every statement; kind in then/else/for"""
    out = []

    def walk(stmts, ctx):
        for s in stmts:
            out.append((s, list(ctx)))
            if isinstance(s, LoopIR.If):
                walk(s.body, ctx + [("then", s.cond)])
                walk(s.orelse, ctx + [("else", s.cond)])
            elif isinstance(s, LoopIR.For):
                walk(s.body, ctx + [("for", s)])

    walk(ir.body, [])
    return out


def check_proc(p, budget=24):
    """returns (n_queries, list of violations: dict(kind, guard, stmt))"""
    ir = p._loopir_proc
    nq, bad = 0, []
    items = [(s, ctx) for s, ctx in guards_of(ir) if ctx]
    items.sort(key=lambda t: -len(t[1]))
    for s, ctx in items:
        if nq >= budget:
            break
        zero = LoopIR.Const(0, T.int, s.srcinfo)
        absurd = None
        for kind, g in ctx[-3:]:
            queries = []  # (expr, op) that must NOT be provable
            if kind in ("then", "else"):
                c = g
                if not (isinstance(c, LoopIR.BinOp) and c.op in NEG and c.lhs.type.is_indexable()) or _has_cfg(c):
                    continue
                d = _diff(c.lhs, c.rhs)
                queries.append((d, NEG[c.op] if kind == "then" else c.op))
            else:
                if _has_cfg(g.lo) or _has_cfg(g.hi):
                    continue
                i = LoopIR.Read(g.iter, [], T.index, g.srcinfo)
                queries.append((_diff(i, g.lo), "<"))
                queries.append((_diff(g.hi, i), "<="))
            for expr, op in queries:
                nq += 1
                r = _proves(ir, s, expr, op)
                if r:
                    if absurd is None:
                        nq += 1
                        absurd = _proves(ir, s, zero, ">")
                    if absurd is False:
                        bad.append({"kind": kind, "guard": str(g.cond if kind == "for" and hasattr(g, "cond") else (g if kind != "for" else "for %s in seq(%s, %s)" % (g.iter, g.lo, g.hi))),
                                    "stmt": str(s).strip()[:120], "proved": "%s %s 0" % (expr, op)})
    return nq, bad
