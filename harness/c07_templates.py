"""Buffer-heavy Exo source templates for the C07 sweep stream.

The grammar-directed generator (progen.py) rarely produces multi-dimensional allocations that the
dimension/buffer primitives accept (mult_dim, divide_dim, resize_dim, fold, unroll_buffer, expand_dim,
rearrange_dim, stage_mem, inline_window, lift_alloc ...).  Those primitives are exactly the ones that
rebuild index lists, i.e. where a missing `.copy()` corrupts the source procedure, so the monitor also
sweeps every applicable candidate of them over instances of these templates (sizes drawn at random)."""
from __future__ import annotations

HEADER = (
    "from __future__ import annotations\n"
    "from exo import proc, instr, config, DRAM\n"
    "from exo.libs.externs import relu, select\n"
    "from exo.stdlib.scheduling import *\n"
)

BUFFER_OPS = {
    "mult_dim", "divide_dim", "resize_dim", "resize_dim_fold", "unroll_buffer", "expand_dim", "rearrange_dim",
    "stage_mem", "inline_window", "lift_alloc", "sink_alloc", "delete_buffer", "reuse_buffer", "bind_expr",
    "set_memory", "set_precision", "inline", "extract_subproc", "transpose", "set_window", "set_precision_arg",
    "unroll_loop", "divide_loop", "fission", "lift_scope", "specialize", "add_loop", "inline_assign",
    "merge_writes", "split_write", "fold_into_reduce", "cut_loop", "shift_loop", "mult_loops", "fuse", "join_loops",
    "simplify", "partial_eval", "call_eqv", "add_assertion", "reorder_loops", "reorder_stmts", "remove_loop",
    "divide_with_recompute", "commute_expr", "left_reassociate_expr", "lift_reduce_constant", "insert_pass",
    "delete_pass", "eliminate_dead_code", "parallelize_loop", "rename", "bind_config", "write_config", "delete_config",
}

# primitives that rebuild index / shape / statement lists of existing nodes
INDEX_OPS = {
    "mult_dim", "divide_dim", "resize_dim", "resize_dim_fold", "unroll_buffer", "expand_dim", "rearrange_dim",
    "stage_mem", "inline_window", "lift_alloc", "bind_expr", "inline", "transpose", "unroll_loop", "reuse_buffer",
    "delete_buffer", "sink_alloc", "divide_loop", "fission", "inline_assign", "extract_subproc", "simplify",
    "autolift_alloc", "autofission", "resize_dim_fold",
}

TEMPLATES = [
    # (6, placed first so that every worker layout reaches it) allocations nested in two loops whose accesses
    # depend on both iterators: autolift_alloc in row / col mode with keep_dims, n_lifts = 1, 2
    """
@proc
def foo(x: R[{A}, {B}], y: R[{A}, {B}]):
    for i in seq(0, {A}):
        for j in seq(0, {B}):
            t: R[2]
            t[0] = x[i, j]
            t[1] = t[0] + 1.0
            s: R
            s = t[0] * t[1]
            y[i, j] = s + t[1]
""",
    # 0: 2-D scratch buffer, loop indices, read back
    """
@proc
def foo(n: size, x: R[n, {A}], y: R[{A}]):
    assert n >= 1
    a: R[{A}, {B}]
    for i in seq(0, {A}):
        for j in seq(0, {B}):
            a[i, j] = x[0, i] * 2.0
    for i in seq(0, {A}):
        y[i] = a[i, 0] + a[i, {B1}]
""",
    # 1: constant first index (unroll_buffer), reduction, 3-D
    """
@proc
def foo(x: R[{A}, {B}], y: R[{B}]):
    t: R[2, {B}]
    for j in seq(0, {B}):
        t[0, j] = x[0, j]
        t[1, j] = x[1, j] + 1.0
    for j in seq(0, {B}):
        y[j] = t[0, j] + t[1, j]
    u: R[2, {A}, {B}]
    for i in seq(0, {A}):
        for j in seq(0, {B}):
            u[0, i, j] = x[i, j]
            u[1, i, j] = 0.0
    for i in seq(0, {A}):
        for j in seq(0, {B}):
            y[j] += u[0, i, j] + u[1, i, j]
""",
    # 2: windows of an allocation, window statement, call with a window argument
    """
@proc
def sub(dst: [R][{B}], src: [R][{B}]):
    for k in seq(0, {B}):
        dst[k] = src[k] + 1.0

@proc
def foo(x: R[{A}, {B}], y: R[{A}, {B}]):
    a: R[{A}, {B}]
    for i in seq(0, {A}):
        for j in seq(0, {B}):
            a[i, j] = x[i, j]
    w = a[0, 0:{B}]
    w[0] = 2.0
    for i in seq(0, {A}):
        sub(y[i, 0:{B}], a[i, 0:{B}])
    w2 = a[0:{A}, 1]
    y[0, 0] += w2[0] + w[1]
""",
    # 3: sliding accesses (resize/fold), symbolic size, nested allocation (lift_alloc / sink_alloc)
    """
@proc
def foo(n: size, x: R[n + 2], y: R[n]):
    assert n >= 2
    for i in seq(0, n):
        b: R[3]
        for k in seq(0, 3):
            b[k] = x[i + k]
        y[i] = b[0] + b[1] + b[2]
    c: R[{A}, {B}]
    for i in seq(0, {A}):
        for j in seq(0, {B}):
            c[i, j] = 1.0
    for i in seq(0, {A}):
        if i < {A1}:
            d: R[{B}]
            for j in seq(0, {B}):
                d[j] = c[i, j]
            y[0] += d[0]
""",
    # 4: repeated sub-expressions (bind_expr), staging of an argument, 2-D argument (transpose)
    """
@proc
def foo(x: R[{A}, {B}], y: R[{A}, {B}], z: R[{B}]):
    for i in seq(0, {A}):
        for j in seq(0, {B}):
            y[i, j] = x[i, j] * z[j] + x[i, j] * z[j]
    e: R[{B}, {A}]
    for i in seq(0, {A}):
        for j in seq(0, {B}):
            e[j, i] = y[i, j]
    for j in seq(0, {B}):
        z[j] = e[j, 0]
    f: R[{A}, {B}]
    for i in seq(0, {A}):
        for j in seq(0, {B}):
            f[i, j] = e[j, i] + 1.0
    z[0] += f[0, 0]
""",
    # 5: scalars, assign/reduce pairs, if/else, config-free guards
    """
@proc
def foo(n: size, x: R[n], y: R[n], s: R):
    assert n >= 1
    acc: R
    acc = 0.0
    for i in seq(0, n):
        acc += x[i] * y[i]
    s = acc
    tmp: R[{A}]
    for i in seq(0, {A}):
        tmp[i] = 0.0
    for i in seq(0, {A}):
        if i < {A1}:
            tmp[i] = 1.0
        else:
            tmp[i] += 2.0
    for i in seq(0, {A}):
        if n > {A}:
            y[i] = tmp[i]
""",
]


def instance(rng, k: int) -> str:
    A = rng.choice([2, 3, 4])
    B = rng.choice([2, 3, 4, 6])
    t = TEMPLATES[k % len(TEMPLATES)]
    return HEADER + t.format(A=A, B=B, A1=A - 1, B1=B - 1)
