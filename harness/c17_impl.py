"""C17 implementation driver: runs the REAL printer / parser of exo on generated and scheduled procedures.

Run as a subprocess of props/C17.py (environment common.exo_env()):
    c17_impl.py <seed> <n_programs> <n_exprs> <n_parse> <do_search:0|1> <out.jsonl> [time_budget_s]

Records written (one JSON object per line):
  proc    : one printed procedure -- s-expression of the LoopIR (`proc sym` of coq/Print/ModelSyntax.v), the
            PrintEnv calls the real printer made (observed by wrapping PrintEnv.push / PrintEnv.get_name), the
            names it got back, the lines _print_proc returned
  expr    : a generated expression -- s-expression (`expr string`), text of the real _print_expr, tree the real
            front end (CPython ast + pyparser.Parser) builds from that text
  parse   : a generated token string (random parenthesisation) -- tokens, tree of the real front end
  finding : a failing input of the search (name collision / unstable name / round trip)
  stat    : counters
"""
from __future__ import annotations

import ast as pyast
import importlib.util
import json
import os
import random
import re
import signal
import sys
import threading
import time
import traceback

import common
import progen
import sched

import exo.core.LoopIR_pprint as PP
from exo.API import Procedure
from exo.core.LoopIR import LoopIR, T, UAST
from exo.core.prelude import Sym, SrcInfo
from exo.core.configs import Config
from exo.core.extern import Extern
from exo.core.memory import Memory
from exo.frontend import pyparser
import exo.stdlib.scheduling as S

NULL = SrcInfo("c17", 0)


class Timeout(Exception):
    pass


def _alarm(sig, frm):
    raise Timeout()


signal.signal(signal.SIGALRM, _alarm)


def with_timeout(secs, fn):
    """run fn() under a wall-clock limit (the reference interpreter computes with exact rationals; programs that
    multiply a cell by itself in a loop nest make it practically diverge)"""
    signal.setitimer(signal.ITIMER_REAL, secs)
    try:
        return fn()
    finally:
        signal.setitimer(signal.ITIMER_REAL, 0)


class Unsupported(Exception):
    pass


# ====================================================================================== export (s-expressions)
# The syntax read by coq/Print/driver.ml (conversion to the extracted datatypes of ModelSyntax.v / ModelExpr.v).
def q(s: str) -> str:
    if any(ord(c) > 126 or ord(c) < 32 for c in s):
        raise Unsupported("non-printable character in %r" % s)
    return '"' + s.replace("\\", "\\\\").replace('"', '\\"') + '"'


_symno: dict = {}


def gsym(s: Sym) -> str:
    """symbols are numbered by first occurrence within one exported procedure (identity is all that matters;
    small numbers keep the unary nat of the model cheap); reset_syms() starts a new numbering"""
    if s not in _symno:
        _symno[s] = len(_symno) + 1
    return "(sym %s %d)" % (q(str(s)), _symno[s])


def reset_syms():
    _symno.clear()


BINOPS = {"or": "OpOr", "and": "OpAnd", "<": "OpLt", ">": "OpGt", "<=": "OpLe", ">=": "OpGe", "==": "OpEq",
          "+": "OpAdd", "-": "OpSub", "*": "OpMul", "/": "OpDiv", "%": "OpMod"}

BASETY = [(T.Num, "TyNum"), (T.F16, "TyF16"), (T.F32, "TyF32"), (T.F64, "TyF64"), (T.INT8, "TyI8"),
          (T.UINT8, "TyUI8"), (T.UINT16, "TyUI16"), (T.INT32, "TyI32"), (T.Bool, "TyBool"), (T.Int, "TyInt"),
          (T.Index, "TyIndex"), (T.Size, "TySize"), (T.Stride, "TyStride"), (T.Error, "TyErr")]


def glist(xs) -> str:
    return "(" + " ".join(xs) + ")"


def gconst(val) -> str:
    s = str(val)
    if s.startswith("-"):
        return "(const 1 %s)" % q(s[1:])
    return "(const 0 %s)" % q(s)


def gexpr(e, var=gsym) -> str:
    if isinstance(e, LoopIR.Read):
        return "(read %s %s)" % (var(e.name), glist(gexpr(i, var) for i in e.idx))
    if isinstance(e, LoopIR.Const):
        return gconst(e.val)
    if isinstance(e, LoopIR.USub):
        return "(neg %s)" % gexpr(e.arg, var)
    if isinstance(e, LoopIR.BinOp):
        if e.op not in BINOPS:
            raise Unsupported("operator %r" % e.op)
        return "(bin %s %s %s)" % (BINOPS[e.op], gexpr(e.lhs, var), gexpr(e.rhs, var))
    if isinstance(e, LoopIR.WindowExpr):
        acc = []
        for w in e.idx:
            if isinstance(w, LoopIR.Interval):
                acc.append("(iv %s %s)" % (gexpr(w.lo, var), gexpr(w.hi, var)))
            elif isinstance(w, LoopIR.Point):
                acc.append("(pt %s)" % gexpr(w.pt, var))
            else:
                raise Unsupported("w_access %s" % type(w).__name__)
        return "(win %s %s)" % (var(e.name), glist(acc))
    if isinstance(e, LoopIR.StrideExpr):
        return "(stride %s %s)" % (var(e.name), q(str(e.dim)))
    if isinstance(e, LoopIR.Extern):
        return "(ext %s %s)" % (q(e.f.name() or "_anon_"), glist(gexpr(a, var) for a in e.args))
    if isinstance(e, LoopIR.ReadConfig):
        return "(cfg %s %s)" % (q(e.config.name()), q(e.field))
    raise Unsupported("expr %s" % type(e).__name__)


def gbase(t) -> str:
    for cls, nm in BASETY:
        if isinstance(t, cls):
            return nm
    raise Unsupported("type %s" % type(t).__name__)


def gtype(t) -> str:
    if isinstance(t, T.Tensor):
        return "(tensor %s %s %s)" % (gbase(t.basetype()), "1" if t.is_window else "0",
                                      glist(gexpr(r) for r in t.shape()))
    return "(base %s)" % gbase(t)


def gmem(m) -> str:
    return "(some %s)" % q(m.name()) if m else "(none)"


def gstmt(s) -> str:
    if isinstance(s, LoopIR.Pass):
        return "(pass)"
    if isinstance(s, (LoopIR.Assign, LoopIR.Reduce)):
        c = "assign" if isinstance(s, LoopIR.Assign) else "reduce"
        return "(%s %s %s %s)" % (c, gsym(s.name), glist(gexpr(i) for i in s.idx), gexpr(s.rhs))
    if isinstance(s, LoopIR.WriteConfig):
        return "(wcfg %s %s %s)" % (q(s.config.name()), q(s.field), gexpr(s.rhs))
    if isinstance(s, LoopIR.WindowStmt):
        return "(wstmt %s %s)" % (gsym(s.name), gexpr(s.rhs))
    if isinstance(s, LoopIR.Alloc):
        return "(alloc %s %s %s)" % (gsym(s.name), gtype(s.type), gmem(s.mem))
    if isinstance(s, LoopIR.Free):
        return "(free %s)" % gsym(s.name)
    if isinstance(s, LoopIR.Call):
        return "(call %s %s)" % (q(str(s.f.name)), glist(gexpr(a) for a in s.args))
    if isinstance(s, LoopIR.If):
        return "(if %s %s %s)" % (gexpr(s.cond), glist(gstmt(b) for b in s.body), glist(gstmt(b) for b in s.orelse))
    if isinstance(s, LoopIR.For):
        par = "1" if isinstance(s.loop_mode, LoopIR.Par) else "0"
        return "(for %s %s %s %s %s)" % (gsym(s.iter), gexpr(s.lo), gexpr(s.hi), par, glist(gstmt(b) for b in s.body))
    raise Unsupported("stmt %s" % type(s).__name__)


def gproc(p) -> str:
    args = glist("(arg %s %s %s)" % (gsym(a.name), gtype(a.type), gmem(a.mem)) for a in p.args)
    instr = "(some %s)" % glist(q(l) for l in p.instr.c_instr.split("\n")) if p.instr else "(none)"
    return "(proc %s %s %s %s %s)" % (q(str(p.name)), args, instr, glist(gexpr(e) for e in p.preds),
                                      glist(gstmt(s) for s in p.body))


# ====================================================================================== observing PrintEnv
class EnvLog:
    """wraps PrintEnv.push / get_name of the imported exo module for the duration of one print"""

    def __init__(self):
        self.events = []
        self.keep = []

    def __enter__(self):
        self.o_push, self.o_get = PP.PrintEnv.push, PP.PrintEnv.get_name
        log = self

        def push(env):
            child = log.o_push(env)
            log.keep.append(child)
            log.events.append(("push", id(env), id(child)))
            return child

        def get_name(env, nm):
            r = log.o_get(env, nm)
            log.events.append(("get", id(env), nm, r))
            return r

        PP.PrintEnv.push, PP.PrintEnv.get_name = push, get_name
        return self

    def __exit__(self, *a):
        PP.PrintEnv.push, PP.PrintEnv.get_name = self.o_push, self.o_get


def observe_print(ir):
    """-> (lines, ops, names, problems)   ops: list of 'push' | 'pop' | ('get', Sym);
    problems: violations of the scope rule seen in the REAL printer's answers"""
    with EnvLog() as log:
        root = PP.PrintEnv()
        log.keep.append(root)
        lines = PP._print_proc(ir, root, "")
    stack = [id(root)]
    scopes = [{}]  # per open scope: Sym -> printed name   (the reader's view of the text)
    ops, names, problems = [], [], []

    def unwind(to):
        if to not in stack:
            raise Unsupported("PrintEnv used outside stack discipline")
        while stack[-1] != to:
            stack.pop()
            scopes.pop()
            ops.append("pop")

    for ev in log.events:
        if ev[0] == "push":
            unwind(ev[1])
            stack.append(ev[2])
            scopes.append({})
            ops.append("push")
        else:
            _, eid, sym, res = ev
            unwind(eid)
            ops.append(("get", sym))
            names.append(res)
            seen = None
            for sc in scopes:
                for s2, n2 in sc.items():
                    if s2 is sym:
                        seen = n2
            if seen is not None:
                if seen != res:
                    problems.append(("unstable", str(sym), "%s then %s" % (seen, res)))
            else:
                for sc in scopes:
                    for s2, n2 in sc.items():
                        if n2 == res:
                            problems.append(("collision", res, "%r and %r both shown as %s" % (s2, sym, res)))
                scopes[-1][sym] = res
    unwind(id(root))
    return lines, ops, names, problems


def gops(ops) -> str:
    return glist("(push)" if o == "push" else "(pop)" if o == "pop" else "(get %s)" % gsym(o[1]) for o in ops)


# ====================================================================================== expressions
OPS_BY_LEVEL = [["or"], ["and"], ["<", ">", "<=", ">=", "=="], ["+", "-"], ["*", "/", "%"]]
ALLOPS = [o for l in OPS_BY_LEVEL for o in l]
VARS = ["a", "b", "c", "i", "j", "n", "x", "y"]


def rand_tree(rng, depth, wf_only=False):
    """tuple tree over the modelled operator language"""
    r = rng.random()
    if depth == 0 or r < 0.25:
        k = rng.random()
        if k < 0.55:
            return ("var", rng.choice(VARS))
        if k < 0.8:
            v = rng.choice([0, 1, 2, 3, 7, 10, 2.0, 0.5])
            if not wf_only and rng.random() < 0.2:
                v = -v if v else -1
            return ("const", v)
        if depth == 0:
            return ("var", rng.choice(VARS))
        return ("idx", rng.choice(VARS), [rand_tree(rng, depth - 1, wf_only) for _ in range(rng.randint(1, 3))])
    if r < 0.35:
        return ("neg", rand_tree(rng, depth - 1, wf_only))
    op = rng.choice(ALLOPS)
    l, rr = rand_tree(rng, depth - 1, wf_only), rand_tree(rng, depth - 1, wf_only)
    return ("bin", op, l, rr)


SYMS = {v: Sym(v) for v in VARS}


def tree_to_loopir(t):
    k = t[0]
    if k == "var":
        return LoopIR.Read(SYMS[t[1]], [], T.index, NULL)
    if k == "idx":
        return LoopIR.Read(SYMS[t[1]], [tree_to_loopir(i) for i in t[2]], T.R, NULL)
    if k == "const":
        return LoopIR.Const(t[1], T.R if isinstance(t[1], float) else T.int, NULL)
    if k == "neg":
        return LoopIR.USub(tree_to_loopir(t[1]), T.index, NULL)
    return LoopIR.BinOp(t[1], tree_to_loopir(t[2]), tree_to_loopir(t[3]), T.index, NULL)


def tree_to_sexp(t):
    k = t[0]
    if k == "var":
        return "(read %s ())" % q(t[1])
    if k == "idx":
        return "(read %s %s)" % (q(t[1]), glist(tree_to_sexp(i) for i in t[2]))
    if k == "const":
        return gconst(t[1])
    if k == "neg":
        return "(neg %s)" % tree_to_sexp(t[1])
    return "(bin %s %s %s)" % (BINOPS[t[1]], tree_to_sexp(t[2]), tree_to_sexp(t[3]))


def uast_to_sexp(e):
    """the tree the REAL front end built (UAST, before type checking) in the model's syntax"""
    if isinstance(e, UAST.Read):
        return "(read %s %s)" % (q(str(e.name)), glist(uast_to_sexp(i) for i in e.idx))
    if isinstance(e, UAST.Const):
        return gconst(e.val)
    if isinstance(e, UAST.USub):
        return "(neg %s)" % uast_to_sexp(e.arg)
    if isinstance(e, UAST.BinOp):
        if e.op not in BINOPS:
            raise Unsupported("operator %r" % e.op)
        return "(bin %s %s %s)" % (BINOPS[e.op], uast_to_sexp(e.lhs), uast_to_sexp(e.rhs))
    raise Unsupported("UAST %s" % type(e).__name__)


def real_parse(text: str):
    """expression text -> UAST through CPython's parser and exo's pyparser.Parser (no type checking)"""
    src = "def foo(out_: R[1], %s):\n    out_[0] = %s\n" % (", ".join("%s: R[4]" % v for v in VARS), text)
    try:
        fdef = pyast.parse(src).body[0]
        info = pyparser.SourceInfo(src_file="c17", src_line_offset=0, src_col_offset=0)
        pr = pyparser.Parser(fdef, info, parent_scope=pyparser.DummyScope({}, {}), as_func=True)
        u = pr.result()
        return uast_to_sexp(u.body[0].rhs), None
    except Unsupported:
        raise
    except Exception as e:  # SyntaxError, ParseError, or whatever evaluating a non-expression raises
        return None, "%s: %s" % (type(e).__name__, str(e)[:120])


TOK = {"or": "(op OpOr)", "and": "(op OpAnd)", "<": "(op OpLt)", ">": "(op OpGt)", "<=": "(op OpLe)", ">=": "(op OpGe)",
       "==": "(op OpEq)", "+": "(op OpAdd)", "-": "(op OpSub)", "*": "(op OpMul)", "/": "(op OpDiv)", "%": "(op OpMod)",
       "(": "lp", ")": "rp", "[": "lb", "]": "rb", ",": "comma"}


def rand_tokens(rng, depth):
    """random token string of the surface grammar with arbitrary (also missing / redundant) parentheses"""
    r = rng.random()
    if depth == 0 or r < 0.3:
        k = rng.random()
        if k < 0.6:
            return [rng.choice(VARS)]
        if k < 0.85:
            return [str(rng.choice([0, 1, 2, 3, 10]))]
        if depth == 0:
            return [rng.choice(VARS)]
        out = [rng.choice(VARS), "["]
        for n in range(rng.randint(1, 2)):
            if n:
                out.append(",")
            out += rand_tokens(rng, depth - 1)
        return out + ["]"]
    if r < 0.4:
        return ["-"] + rand_tokens(rng, depth - 1)
    if r < 0.55:
        return ["("] + rand_tokens(rng, depth - 1) + [")"]
    return rand_tokens(rng, depth - 1) + [rng.choice(ALLOPS)] + rand_tokens(rng, depth - 1)


def toks_to_sexp(toks):
    out = []
    for t in toks:
        if t in TOK:
            out.append(TOK[t])
        elif re.match(r"^[0-9.]+$", t):
            out.append("(lit %s)" % q(t))
        else:
            out.append("(id %s)" % q(t))
    return glist(out)


# ====================================================================================== programs
NAME_POOL = ["x", "x_1", "x_1_1", "x_2", "t", "t_1", "i", "i_1", "j", "j_1"]


class StressGen:
    """Exo source text aimed at the printer: buffers / iterators whose names look like generated names
    (x_1, i_1 ...), re-used and shadowed iterator names, deep expressions with every operator and random
    parenthesisation.  Everything goes through the real front end; what it rejects is counted."""

    def __init__(self, rng, uid):
        self.rng, self.uid = rng, uid
        self.cfg = None

    def idx(self, env, depth):
        rng = self.rng
        r = rng.random()
        if depth == 0 or r < 0.3 or not env:
            if env and rng.random() < 0.7:
                return rng.choice(env)
            return str(rng.randint(0, 3))
        if r < 0.4:
            return "-%s" % self.idx(env, depth - 1)
        if r < 0.5:
            return "(%s)" % self.idx(env, depth - 1)
        k = rng.random()
        a, b = self.idx(env, depth - 1), self.idx(env, depth - 1)
        par = lambda s: "(%s)" % s if rng.random() < 0.6 else s
        if k < 0.3:
            return "%s + %s" % (par(a), par(b))
        if k < 0.6:
            return "%s - %s" % (par(a), par(b))
        if k < 0.75:
            return "%d * %s" % (rng.randint(1, 3), par(a)) if rng.random() < 0.5 else "%s * %d" % (par(a), rng.randint(1, 3))
        if k < 0.88:
            return "%s / %d" % (par(a), rng.randint(1, 4))
        return "%s %% %d" % (par(a), rng.randint(1, 4))

    def cond(self, env, bools, depth):
        rng = self.rng
        r = rng.random()
        if depth == 0 or r < 0.4:
            if bools and rng.random() < 0.25:
                return rng.choice(bools)
            return "%s %s %s" % (self.idx(env, 2), rng.choice(["<", ">", "<=", ">=", "=="]), self.idx(env, 2))
        a, b = self.cond(env, bools, depth - 1), self.cond(env, bools, depth - 1)
        par = lambda s: "(%s)" % s if rng.random() < 0.6 else s
        if r < 0.65:
            return "%s and %s" % (par(a), par(b))
        if r < 0.92:
            return "%s or %s" % (par(a), par(b))
        return "(%s) == (%s)" % (a, b)

    def data(self, bufs, env, depth):
        rng = self.rng
        r = rng.random()
        if depth == 0 or r < 0.3:
            if rng.random() < 0.25:
                return "%d.0" % rng.randint(0, 4)
            b, ext = rng.choice(bufs)
            if ext is None:
                return b
            ivs = [v for v in env if v in self.small]
            return "%s[%s]" % (b, rng.choice(ivs) if ivs and rng.random() < 0.7 else str(rng.randrange(ext)))
        if r < 0.42:
            return "-%s" % self.data(bufs, env, depth - 1)
        if r < 0.5:
            return "(%s)" % self.data(bufs, env, depth - 1)
        if r < 0.56:
            return "relu(%s)" % self.data(bufs, env, depth - 1)
        a, b = self.data(bufs, env, depth - 1), self.data(bufs, env, depth - 1)
        par = lambda s: "(%s)" % s if rng.random() < 0.6 else s
        return "%s %s %s" % (par(a), rng.choice(["+", "-", "*", "-"]), par(b))

    def block(self, depth, env, bufs, bools, ind, budget):
        rng = self.rng
        out = []
        bufs = list(bufs)
        for _ in range(rng.randint(1, 3)):
            if budget[0] <= 0:
                break
            budget[0] -= 1
            k = rng.choice(["assign"] * 4 + ["reduce"] * 2 + (["for"] * 4 + ["if"] * 3 + ["alloc"] * 3 if depth else []))
            if k in ("assign", "reduce"):
                b, ext = rng.choice(bufs)
                ivs = [v for v in env if v in self.small]
                lhs = b if ext is None else "%s[%s]" % (b, rng.choice(ivs) if ivs and rng.random() < 0.7 else str(rng.randrange(ext)))
                out.append("%s%s %s %s" % (ind, lhs, "=" if k == "assign" else "+=", self.data(bufs, env, 3)))
            elif k == "for":
                nm = rng.choice(self.iter_names)
                ext = rng.choice([2, 3, 4])
                self.small.add(nm) if ext <= 2 else None
                out.append("%sfor %s in %s(0, %d):" % (ind, nm, "seq", ext))
                env2 = [v for v in env if v != nm] + [nm]
                small_save = set(self.small)
                if ext > 2:
                    self.small.discard(nm)
                out += self.block(depth - 1, env2, bufs, bools, ind + "    ", budget) or [ind + "    pass"]
                self.small = small_save
            elif k == "if":
                out.append("%sif %s:" % (ind, self.cond(env, bools, 2)))
                out += self.block(depth - 1, env, bufs, bools, ind + "    ", budget) or [ind + "    pass"]
                if rng.random() < 0.4:
                    out.append(ind + "else:")
                    out += self.block(depth - 1, env, bufs, bools, ind + "    ", budget) or [ind + "    pass"]
            else:
                nm = rng.choice(self.alloc_names)
                if rng.random() < 0.5:
                    out.append("%s%s: R" % (ind, nm))
                    out.append("%s%s = %s" % (ind, nm, self.data(bufs, env, 1)))
                    bufs = [b for b in bufs if b[0] != nm] + [(nm, None)]
                else:
                    out.append("%s%s: R[2]" % (ind, nm))
                    out.append("%s%s[0] = 0.0" % (ind, nm))
                    out.append("%s%s[1] = 1.0" % (ind, nm))
                    bufs = [b for b in bufs if b[0] != nm] + [(nm, 2)]
        return out

    def module(self, name="foo"):
        rng = self.rng
        self.small = set()
        if rng.random() < 0.45:
            # "ladder": many symbols of ONE name family in one scope, so that generated names (b_1, b_1_1, b_2)
            # meet symbols that are literally called so
            b = rng.choice(["x", "t", "u"])
            self.alloc_names = [b, b, b, b + "_1", b + "_1", b + "_2", b + "_1_1"]
            self.iter_names = ["i", "i", "i_1", "i_1", "i_2", "i_1_1"]
        else:
            self.alloc_names = NAME_POOL[:6]
            self.iter_names = ["i", "j", "i_1", "i", "j_1", "ii"]
        parts = [progen.HEADER]
        bools = []
        if rng.random() < 0.35:
            self.cfg = "Cfg" + self.uid
            parts.append("@config\nclass %s:\n    a: index\n    flag: bool\n" % self.cfg)
            bools.append("%s.flag" % self.cfg)
        sig = ["n: size"]
        if rng.random() < 0.3:
            sig.append("bb: bool")
            bools.append("bb")
        names = rng.sample(["x", "y", "x_1", "t_1", "u"], rng.randint(2, 3))
        bufs = []
        for nm in names:
            sig.append("%s: R[2]" % nm)
            bufs.append((nm, 2))
        body = self.block(3, ["n"] if rng.random() < 0.5 else [], bufs, bools, "    ", [rng.randint(4, 9)])
        parts.append("@proc\ndef %s(%s):\n%s\n" % (name, ", ".join(sig), "\n".join(body or ["    pass"])))
        return "\n".join(parts)


def ladder_module(rng, name="foo"):
    """many declarations of ONE name family (b, b, b_1, b_2, b_1_1 ...) in nested / sibling scopes, each one used:
    the shape on which a printer that forgets a name it generated shows two symbols under one name"""
    b = rng.choice(["x", "t", "i", "acc"])
    fam = [b, b, b, b + "_1", b + "_1", b + "_2", b + "_1_1", b + "_1_2"]
    args = ["n: size", "y: R[8]"]
    scalars, idxs = [], []
    if rng.random() < 0.4:
        a = rng.choice(fam)
        args.append("%s: R" % a)
        scalars.append(a)
    lines, ind = [], "    "
    k = 0
    stack = []
    for _ in range(rng.randint(3, 8)):
        nm = rng.choice(fam)
        r = rng.random()
        k += 1
        if r < 0.55:
            lines.append("%s%s: R" % (ind, nm))
            lines.append("%s%s = %d.0" % (ind, nm, k))
            idxs = [v for v in idxs if v != nm]
            scalars = [v for v in scalars if v != nm] + [nm]
        elif r < 0.8:
            lines.append("%sfor %s in seq(0, 2):" % (ind, nm))
            ind += "    "
            stack.append((list(scalars), list(idxs)))
            scalars = [v for v in scalars if v != nm]
            idxs = [v for v in idxs if v != nm] + [nm]
        elif r < 0.9 and len(ind) > 4:
            lines.append("%sy[%d] += %s" % (ind, k % 8, " + ".join(scalars[-2:]) if scalars else "1.0"))
            ind = ind[:-4]
            scalars, idxs = stack.pop()
        else:
            lines.append("%sif n > %d:" % (ind, k))
            ind += "    "
            stack.append((list(scalars), list(idxs)))
        use = []
        if scalars:
            use.append(rng.choice(scalars))
        if len(scalars) > 1:
            use.append(scalars[-1])
        ix = rng.choice(idxs) if idxs else str(k % 8)
        lines.append("%sy[%s] += %s" % (ind, ix, " * ".join(use) if use else "1.0"))
    return progen.HEADER + "\n@proc\ndef %s(%s):\n%s\n" % (name, ", ".join(args), "\n".join(lines))


FAVOURED = {"unroll_loop": 8, "cut_loop": 5, "divide_loop": 5, "inline": 8, "stage_mem": 5, "bind_expr": 5,
            "specialize": 4, "fission": 2, "add_loop": 2, "lift_alloc": 3, "sink_alloc": 2, "reorder_stmts": 1,
            "divide_with_recompute": 3, "mult_loops": 2, "expand_dim": 2, "extract_subproc": 2, "join_loops": 2,
            "unroll_buffer": 3, "inline_window": 2, "shift_loop": 1, "remove_loop": 1, "lift_scope": 2, "fuse": 2,
            "partial_eval": 1, "rename": 1, "set_memory": 1, "set_precision": 1, "simplify": 1}


def colliding_name_ops(p, rng):
    """scheduling operations that introduce NEW symbols whose names collide with (or look like disambiguations
    of) names already in the procedure"""
    import exo.API_cursors as PC
    st = sched.Sites(p)
    have = set()
    for a in p._loopir_proc.args:
        have.add(str(a.name))
    for c in st.allocs:
        have.add(c.name())
    for l in st.loops:
        have.add(l.name())
    pool = sorted({n for h in have for n in (h, h + "_1", h + "_1_1", h + "_2")})
    out = []
    if not pool:
        return out
    pick = lambda: rng.choice(pool)
    for l in st.loops[:3]:
        a, b = pick(), pick()
        out.append(("divide_loop", "%s names=%s,%s" % (sched.path_of(l), a, b),
                    lambda l=l, a=a, b=b: S.divide_loop(p, l, 2, [a, b], tail=rng.choice(["cut", "guard", "cut_and_guard"]))))
        c = pick()
        out.append(("mult_loops", "%s name=%s" % (sched.path_of(l), c), lambda l=l, c=c: S.mult_loops(p, l, c)))
    exprs = [e for e in st.exprs if not isinstance(e, PC.LiteralCursor)]
    rng.shuffle(exprs)
    for e in exprs[:3]:
        c = pick()
        out.append(("bind_expr", "%s name=%s" % (sched.path_of(e), c), lambda e=e, c=c: S.bind_expr(p, [e], c)))
    for b in st.blocks[:2]:
        c = pick()
        out.append(("add_loop", "%s name=%s" % (sched.path_of(b), c), lambda b=b, c=c: S.add_loop(p, b, c, 2, guard=True)))
    bufs = [(a.name(), a._impl._node.type.hi) for a in p.args() if isinstance(a._impl._node.type, T.Tensor)]
    for b in st.blocks[:2]:
        if bufs:
            bn, hi = rng.choice(bufs)
            if all(isinstance(d, LoopIR.Const) for d in hi):
                w = "%s[%s]" % (bn, ", ".join("0:%d" % d.val for d in hi))
                c = pick()
                out.append(("stage_mem", "%s win=%s name=%s" % (sched.path_of(b), w, c),
                            lambda b=b, w=w, c=c: S.stage_mem(p, b, w, c)))
    return out


def schedule(p, rng, cfgs, nops):
    """apply up to nops accepted operations; returns (procedure, [descriptions])"""
    applied = []
    for _ in range(nops):
        try:
            # delete_buffer is left out: it removes the allocation of a buffer that is written and then read
            # (Check_IsDeadAfter only asks whether the OLD value is dead), which leaves an ill-formed procedure --
            # a scheduling defect reported separately, not a matter of printing
            # inline_assign likewise (open known finding of C01: it substitutes by name, also into loop indices and
            # call arguments)
            cands = [c for c in sched.candidates(p, rng, cfgs) if c[0] not in ("delete_buffer", "inline_assign")]
            cands += colliding_name_ops(p, rng)
        except Exception as e:  # enumeration itself failed: keep what we have
            break
        weights = [FAVOURED.get(c[0], 0.3) for c in cands]
        done = False
        for _try in range(12):
            op, descr, thunk = rng.choices(cands, weights)[0]
            try:
                p2 = thunk()
            except sched.REFUSALS:
                continue
            except Exception:
                continue
            if isinstance(p2, Procedure):
                p = p2
                applied.append("%s %s" % (op, descr))
                done = True
                break
        if not done:
            break
    return p, applied


# ====================================================================================== round trip
def callees_of(ir, acc, seen):
    def walk(ss):
        for s in ss:
            if isinstance(s, LoopIR.Call):
                if id(s.f) not in seen:
                    seen.add(id(s.f))
                    callees_of(s.f, acc, seen)
                    acc.append(s.f)
            elif isinstance(s, LoopIR.If):
                walk(s.body)
                walk(s.orelse)
            elif isinstance(s, LoopIR.For):
                walk(s.body)
    walk(ir.body)


def scope_objects(ir, scope, clash):
    """memories, configs, externs mentioned in ir, by the name the printer shows them under"""
    def put(name, obj):
        if name in scope and scope[name] is not obj:
            clash.append(name)
        scope[name] = obj

    def ex(e):
        if isinstance(e, LoopIR.ReadConfig):
            put(e.config.name(), e.config)
        elif isinstance(e, LoopIR.Extern):
            put(e.f.name(), e.f)
            for a in e.args:
                ex(a)
        elif isinstance(e, LoopIR.BinOp):
            ex(e.lhs)
            ex(e.rhs)
        elif isinstance(e, LoopIR.USub):
            ex(e.arg)
        elif isinstance(e, LoopIR.Read):
            for i in e.idx:
                ex(i)
        elif isinstance(e, LoopIR.WindowExpr):
            for w in e.idx:
                if isinstance(w, LoopIR.Interval):
                    ex(w.lo)
                    ex(w.hi)
                else:
                    ex(w.pt)

    def ty(t):
        if isinstance(t, T.Tensor):
            for r in t.hi:
                ex(r)

    def walk(ss):
        for s in ss:
            if isinstance(s, (LoopIR.Assign, LoopIR.Reduce)):
                for i in s.idx:
                    ex(i)
                ex(s.rhs)
            elif isinstance(s, LoopIR.WriteConfig):
                put(s.config.name(), s.config)
                ex(s.rhs)
            elif isinstance(s, LoopIR.WindowStmt):
                ex(s.rhs)
            elif isinstance(s, LoopIR.Alloc):
                ty(s.type)
                if s.mem:
                    put(s.mem.name(), s.mem)
            elif isinstance(s, LoopIR.Call):
                for a in s.args:
                    ex(a)
            elif isinstance(s, LoopIR.If):
                ex(s.cond)
                walk(s.body)
                walk(s.orelse)
            elif isinstance(s, LoopIR.For):
                ex(s.lo)
                ex(s.hi)
                walk(s.body)

    for a in ir.args:
        ty(a.type)
        if a.mem:
            put(a.mem.name(), a.mem)
    for e in ir.preds:
        ex(e)
    walk(ir.body)


def unbound_uses(ir):
    """symbols used where no argument / allocation / window statement / loop binds them (an ill-formed procedure:
    nothing the printer could do about it)"""
    bad = []

    def ex(e, env):
        if isinstance(e, (LoopIR.Read, LoopIR.WindowExpr, LoopIR.StrideExpr)):
            if e.name not in env:
                bad.append(str(e.name))
        if isinstance(e, LoopIR.Read):
            for i in e.idx:
                ex(i, env)
        elif isinstance(e, LoopIR.BinOp):
            ex(e.lhs, env)
            ex(e.rhs, env)
        elif isinstance(e, LoopIR.USub):
            ex(e.arg, env)
        elif isinstance(e, LoopIR.Extern):
            for a in e.args:
                ex(a, env)
        elif isinstance(e, LoopIR.WindowExpr):
            for w in e.idx:
                if isinstance(w, LoopIR.Interval):
                    ex(w.lo, env)
                    ex(w.hi, env)
                else:
                    ex(w.pt, env)

    def walk(ss, env):
        env = set(env)
        for st in ss:
            if isinstance(st, (LoopIR.Assign, LoopIR.Reduce)):
                if st.name not in env:
                    bad.append(str(st.name))
                for i in st.idx:
                    ex(i, env)
                ex(st.rhs, env)
            elif isinstance(st, LoopIR.WriteConfig):
                ex(st.rhs, env)
            elif isinstance(st, LoopIR.WindowStmt):
                ex(st.rhs, env)
                env.add(st.name)
            elif isinstance(st, LoopIR.Alloc):
                if isinstance(st.type, T.Tensor):
                    for r in st.type.hi:
                        ex(r, env)
                env.add(st.name)
            elif isinstance(st, LoopIR.Call):
                for a in st.args:
                    ex(a, env)
            elif isinstance(st, LoopIR.If):
                ex(st.cond, env)
                walk(st.body, env)
                walk(st.orelse, env)
            elif isinstance(st, LoopIR.For):
                ex(st.lo, env)
                ex(st.hi, env)
                walk(st.body, env | {st.iter})

    env = set()
    for a in ir.args:
        if isinstance(a.type, T.Tensor):
            for r in a.type.hi:
                ex(r, env)
        env.add(a.name)
    for e in ir.preds:
        ex(e, env)
    walk(ir.body, env)
    return bad


def has_empty_block(ir):
    """a procedure / loop / branch body without any statement (e.g. what unroll_loop leaves of a zero-trip loop)"""
    def walk(ss):
        if not ss:
            return True
        for st in ss:
            if isinstance(st, LoopIR.For) and walk(st.body):
                return True
            if isinstance(st, LoopIR.If) and (walk(st.body) or (st.orelse and walk(st.orelse))):
                return True
        return False
    return walk(ir.body)


CMP = ("<", ">", "<=", ">=", "==")


def has_chain(ir, seen=None):
    """does the procedure (or a callee) contain a comparison whose LEFT operand is a comparison?  (outside wf_expr of
    coq/Print/ModelExpr.v: C17_expr_roundtrip_refuted says the printed text is then read as a chain)"""
    seen = set() if seen is None else seen
    if id(ir) in seen:
        return False
    seen.add(id(ir))
    found = [False]

    def ex(e):
        if isinstance(e, LoopIR.BinOp):
            if e.op in CMP and isinstance(e.lhs, LoopIR.BinOp) and e.lhs.op in CMP:
                found[0] = True
            ex(e.lhs)
            ex(e.rhs)
        elif isinstance(e, LoopIR.USub):
            ex(e.arg)
        elif isinstance(e, (LoopIR.Read,)):
            for i in e.idx:
                ex(i)
        elif isinstance(e, LoopIR.Extern):
            for a in e.args:
                ex(a)
        elif isinstance(e, LoopIR.WindowExpr):
            for w in e.idx:
                if isinstance(w, LoopIR.Interval):
                    ex(w.lo)
                    ex(w.hi)
                else:
                    ex(w.pt)

    def walk(ss):
        for st in ss:
            if isinstance(st, (LoopIR.Assign, LoopIR.Reduce)):
                for i in st.idx:
                    ex(i)
                ex(st.rhs)
            elif isinstance(st, (LoopIR.WriteConfig, LoopIR.WindowStmt)):
                ex(st.rhs)
            elif isinstance(st, LoopIR.Call):
                for a in st.args:
                    ex(a)
                if has_chain(st.f, seen):
                    found[0] = True
            elif isinstance(st, LoopIR.If):
                ex(st.cond)
                walk(st.body)
                walk(st.orelse)
            elif isinstance(st, LoopIR.For):
                ex(st.lo)
                ex(st.hi)
                walk(st.body)

    for e in ir.preds:
        ex(e)
    walk(ir.body)
    return found[0]


_modn = [0]


def load_with_scope(src: str, inject: dict):
    """like progen.load_module, with objects of the original module placed in the new module's globals first"""
    d = common.SCRATCH / "mods"
    d.mkdir(parents=True, exist_ok=True)
    _modn[0] += 1
    path = d / ("c17rt_%d_%d.py" % (os.getpid(), _modn[0]))
    path.write_text(src)
    spec = importlib.util.spec_from_file_location(path.stem, path)
    mod = importlib.util.module_from_spec(spec)
    mod.__dict__.update(inject)
    sys.modules[path.stem] = mod
    try:
        spec.loader.exec_module(mod)
        return mod, None, None
    except Exception as e:
        return None, type(e).__name__, str(e)
    finally:
        sys.modules.pop(path.stem, None)
        try:
            path.unlink()
        except OSError:
            pass


RT_HEADER = "from __future__ import annotations\nfrom exo import proc, instr\n"


def deco(ir):
    if ir.instr:
        return "@instr(%r, %r)\n" % (ir.instr.c_instr, ir.instr.c_global)
    return "@proc\n"


def norm_msg(cls, msg):
    """a stable identifier of a rejection: the first located error message, without positions, names, numbers and
    without the expression it talks about (first six words)"""
    m = None
    for line in msg.split("\n"):
        mm = re.match(r"^\S*:\d+(:\d+)?: (.*)$", line.strip())
        if mm:
            m = mm.group(2)
            break
    if m is None:
        m = msg.strip().split("\n")[0]
    for pat, key in (("always unsatisfiable", "assertion_always_unsatisfiable"),
                     ("Could not verify assertion", "could_not_verify_callee_assertion"),
                     ("expected writes to configuration", "config_write_depends_on_loop_iteration"),
                     ("out-of-bounds", "access_out_of_bounds"),
                     ("to always be non-negative", "extent_may_be_negative")):
        if pat in msg:
            return key
    m = re.sub(r"'[^']*'", "_", m)
    words = re.findall(r"[A-Za-z]+", m)
    return "_".join(words[:6])[:70]


BOOL_MEM = re.compile(r"(\b[A-Za-z_]\w*: bool) @ \w+")


def round_trip(p: Procedure, text: str, repair_bool=False):
    """-> dict(status=ok|skip|reject|text, ...); repair_bool: drop the `@ MEM` the printer puts after bool arguments
    (finding print:bool-argument-memory) so that the rest of the text can still be checked"""
    ir = p._loopir_proc
    callees, seen = [], set()
    callees_of(ir, callees, seen)
    scope, clash = {}, []
    for c in callees + [ir]:
        scope_objects(c, scope, clash)
    if clash:
        return {"status": "skip", "why": "two different objects print as %s" % clash[0]}
    names = [str(c.name) for c in callees] + [str(ir.name)]
    inject = dict(scope)
    parts = [RT_HEADER]
    injected_callees = 0
    if len(set(names)) != len(names):
        # two different procedures are shown under one name (e.g. two extract_subproc results called sub_x_1): the
        # text cannot say which is which, and they cannot both be put in scope under that name
        dup = sorted(n for n in set(names) if names.count(n) > 1)
        return {"status": "skip", "why": "two different procedures are both called %s" % dup[0][:12].rstrip("0123456789")}
    fix = (lambda t: BOOL_MEM.sub(r"\1", t)) if repair_bool else (lambda t: t)
    for c in callees:
        parts.append(deco(c) + fix(str(Procedure(c))) + "\n")
    parts.append(deco(ir) + fix(text) + "\n")
    src = "\n".join(parts)
    mod, cls, msg = load_with_scope(src, inject)
    if mod is None:
        return {"status": "reject", "cls": cls, "msg": msg, "src": src, "inject": sorted(inject)}
    p2 = getattr(mod, str(ir.name), None)
    if not isinstance(p2, Procedure):
        return {"status": "reject", "cls": "NoProcedure", "msg": "module defines no procedure %s" % ir.name, "src": src}
    return {"status": "ok", "p2": p2, "src": src, "injected_callees": injected_callees}


# ====================================================================================== deterministic witnesses
W_HEADER = progen.HEADER


def witnesses():
    """(kind, module source, [(procedure, [operations])], forced key | None): one small fixed case per class of finding
    that is listed in known_findings.json, plus regression cases that must PASS; they run before the random programs"""
    def load(src):
        mod, err = progen.load_module(src, "c17w")
        if mod is None:
            raise RuntimeError("witness module rejected: %s" % err)
        return mod

    # a bool argument is printed with a memory annotation
    src = W_HEADER + "\n@proc\ndef foo(b: bool, x: R[1]):\n    if b:\n        x[0] = 1.0\n"
    yield "witness:bool-argument", src, [(load(src).foo, [])], None
    # unrolling a zero-trip loop leaves an empty body (alone: cannot be printed; after an assert: cannot be parsed)
    src = W_HEADER + "\n@proc\ndef foo(x: R[4]):\n    for i in seq(0, 0):\n        x[i] = 1.0\n"
    p = load(src).foo
    yield "witness:empty-body", src, [(S.unroll_loop(p, "i"), ["unroll_loop i"])], None
    src = W_HEADER + "\n@proc\ndef foo(n: size, x: R[4]):\n    assert n >= 1\n    for i in seq(3, 3):\n        x[i] = 1.0\n"
    p = load(src).foo
    yield "witness:empty-body", src, [(S.unroll_loop(p, "i"), ["unroll_loop i"])], None
    # -0 after unrolling
    src = W_HEADER + "\n@proc\ndef foo(n: size, x: R[4]):\n    for i in seq(0, 1):\n        if -i + n > 0:\n            x[i] = 1.0\n"
    p = load(src).foo
    yield "witness:minus-zero", src, [(S.unroll_loop(p, "i"), ["unroll_loop i"])], None
    # --literal after unrolling (the front end folds it)
    src = W_HEADER + "\n@proc\ndef foo(n: size, x: R[4]):\n    for i in seq(1, 2):\n        if --i + n > 0:\n            x[i] = 1.0\n"
    p = load(src).foo
    yield "witness:double-minus-literal", src, [(S.unroll_loop(p, "i"), ["unroll_loop i"])], None
    # a loop with a lower bound extracted into a sub-procedure that does not get the assertion making the trip count
    # non-negative
    src = (W_HEADER + "\n@proc\ndef foo(m: size, x: R[m]):\n    assert m >= 2\n    for j in seq(2, m):\n"
           "        x[j] = 1.0\n")
    p = load(src).foo
    yield "witness:extent-may-be-negative", src, [(S.extract_subproc(p, p.body(), "sub_a")[0], ["extract_subproc body sub_a"])], None
    # partial evaluation against the precondition: the assertion becomes unsatisfiable
    src = W_HEADER + "\n@proc\ndef foo(n: size, x: R[n]):\n    assert n >= 3\n    x[2] = 1.0\n"
    p = load(src).foo
    yield "witness:unsatisfiable-assertion", src, [(p.partial_eval(n=1), ["partial_eval n=1"])], None
    # extracting a sub-procedure twice: the outer one does not carry the precondition the inner one asserts
    src = (W_HEADER + "\n@proc\ndef foo(n: size, y: R[2], u: [R][4]):\n    assert n >= 3\n    for ii in seq(0, n):\n"
           "        u[3] = y[1]\n")
    p = load(src).foo
    q1 = S.extract_subproc(p, p.body(), "sub_a")[0]
    q2 = S.extract_subproc(q1, q1.body(), "sub_b")[0]
    yield "witness:callee-assertion", src, [(q2, ["extract_subproc body sub_a", "extract_subproc body sub_b"])], None
    # a configuration write under a guard on a loop variable
    src = (W_HEADER + "\n@config\nclass CfgW:\n    a: index\n    flag: bool\n\n@proc\ndef foo(n: size, x: R[2]):\n"
           "    CfgW.a = 2\n")
    p = load(src).foo
    q1 = S.add_loop(p, p.body(), "k", 2, guard=True)
    q2 = S.specialize(q1, q1.find_loop("k").body(), ["k < 0"])
    yield "witness:config-write-in-loop", src, [(q2, ["add_loop body k 2 guard", "specialize loop body k < 0"])], None
    # REGRESSION (must pass): a comparison as the left operand of a comparison keeps its parentheses
    src = (W_HEADER + "\n@config\nclass CfgR:\n    a: index\n    flag: bool\n\n@proc\ndef foo(n: size, x: R[4]):\n"
           "    for i in seq(0, 4):\n        for j in seq(0, 4):\n            if (CfgR.flag == (i < 2)) == (j < 3):\n"
           "                x[i] = 1.0\n            if ((i < 2) == (j < 3)) == CfgR.flag:\n                x[j] += 2.0\n")
    yield "regress:comparison-chain", src, [(load(src).foo, [])], "print:regress:comparison-chain"
    src = (W_HEADER + "\n@proc\ndef foo(n: size, x: R[n]):\n    assert n >= 3\n    if n == 5:\n        x[0] = 1.0\n"
           "    else:\n        x[n - 1] = 2.0\n")
    p = load(src).foo
    q, sub = S.extract_subproc(p, p.find("x[n - 1] = _"), "sub")
    yield "regress:comparison-chain", src, [(q, ["extract_subproc else-branch"]), (sub, ["extract_subproc else-branch (callee)"])], \
        "print:regress:comparison-chain"


# ====================================================================================== main
def main():
    seed, n_prog, n_expr, n_parse, do_search = (int(x) for x in sys.argv[1:6])
    out = open(sys.argv[6], "w", buffering=1)  # line buffered: what was produced survives a kill
    budget = float(sys.argv[7]) if len(sys.argv) > 7 else 1e9
    t0 = time.time()
    deadline = t0 + budget               # stop GENERATING new cases here (the current case is finished)
    hard_deadline = t0 + 1.5 * budget + 30  # last resort inside the process: flush the counters and leave
    rng = random.Random(seed)
    stats = {}
    lock = threading.Lock()

    def bump(k, n=1):
        stats[k] = stats.get(k, 0) + n

    force = [None]

    def emit(rec):
        if rec.get("t") == "finding":
            if force[0]:
                rec["key"] = force[0]
            bump("findings_in:" + current[0])
        line = json.dumps(rec, default=str) + "\n"
        with lock:
            out.write(line)

    current = ["-"]

    def watchdog():
        # runs when a single case outlives every per-case time limit (e.g. inside a solver call that does not return
        # to the interpreter loop): keep what has been written, say so, exit normally
        with lock:
            st = dict(stats)
            st["cut_short"] = "hard deadline (%.0fs) reached inside one case" % (hard_deadline - t0)
            st["wall_s"] = round(time.time() - t0, 1)
            out.write(json.dumps({"t": "stat", "stats": st}, default=str) + "\n")
            out.flush()
            os._exit(0)

    # self-test of the time limits (never set in normal runs): VERIF_C17_TEST_HANG=watchdog:<marker> makes the first
    # process that sees no <marker> file stall in one case (the in-process hard deadline must end it with exit 0);
    # VERIF_C17_TEST_HANG=outer:<marker> additionally switches the hard deadline off (the caller's last-resort timeout
    # and its single retry must take over)
    hang = os.environ.get("VERIF_C17_TEST_HANG", "")
    hang_mode, _, marker = hang.partition(":")
    stall = bool(marker) and not os.path.exists(marker)
    if stall:
        open(marker, "w").write("stalled once\n")
    if budget < 1e8 and not (stall and hang_mode == "outer"):
        wd = threading.Timer(hard_deadline - t0, watchdog)
        wd.daemon = True
        wd.start()

    # ---------------------------------------------------------------- expressions (printer + parser models)
    for k in range(n_expr):
        if k >= 50 and time.time() > t0 + 0.15 * budget:
            bump("cut_short:expressions_generated", k)
            break
        wf_only = rng.random() < 0.6
        t = rand_tree(rng, rng.randint(1, 4), wf_only)
        try:
            real = PP._print_expr(tree_to_loopir(t), PP.PrintEnv())
            tree, err = real_parse(real)
            emit({"t": "expr", "id": k, "coq": tree_to_sexp(t), "text": real, "parsed": tree, "err": err,
                  "wf_only": wf_only})
        except Unsupported as e:
            emit({"t": "export_error", "where": "expr", "detail": str(e)})
    for k in range(n_parse):
        if k >= 50 and time.time() > t0 + 0.3 * budget:
            bump("cut_short:token_strings_generated", k)
            break
        toks = rand_tokens(rng, rng.randint(1, 4))
        malformed = rng.random() < 0.25
        if malformed:
            # one random edit: mostly no expression any more; the model must say None exactly when the real front
            # end refuses.  Two accepted-by-Python forms the printer never writes are outside the model: a trailing
            # comma in an index list and indexing a parenthesised name
            toks = list(toks)
            j = rng.randrange(len(toks) + 1)
            r = rng.random()
            alphabet = VARS[:3] + ["1", "(", ")", "[", "]", ",", "-", "+", "*", "<", "and", "or", "=="]
            if r < 0.4 and toks:
                del toks[min(j, len(toks) - 1)]
            elif r < 0.8:
                toks.insert(j, rng.choice(alphabet))
            elif toks:
                toks[min(j, len(toks) - 1)] = rng.choice(alphabet)
            joined = " ".join(toks)
            if not toks or ", ]" in joined or ") [" in joined:
                continue
        text = " ".join(toks)
        try:
            tree, err = real_parse(text)
            emit({"t": "parse", "id": k, "toks": toks_to_sexp(toks), "text": text, "parsed": tree, "err": err,
                  "malformed": malformed})
        except Unsupported as e:
            emit({"t": "export_error", "where": "parse", "detail": str(e)})

    if stall:
        bump("self_test_stall")
        time.sleep(10 ** 6)

    # ---------------------------------------------------------------- names that are reserved words
    if do_search:
        base_src = progen.HEADER + "\n@proc\ndef foo(n: size, x: R[8]):\n    for i in seq(0, 8):\n        x[i] = 1.0\n"
        mod, err = progen.load_module(base_src, "c17kw")
        if mod is not None:
            for nm in ["if", "in", "def", "lambda", "seq", "par", "R", "size", "stride", "x_1", "i"]:
                bump("reserved_name_cases")
                try:
                    pk = S.divide_loop(mod.foo, "i", 2, [nm, "ii"], perfect=True)
                except Exception:
                    bump("reserved_name_refused")
                    continue
                try:
                    tk = str(pk)
                except Exception as e:
                    emit({"t": "finding", "key": "print:unprintable-name:%s" % type(e).__name__,
                          "what": "a scheduling operation accepts a Python keyword as the name of a new variable; the "
                                  "resulting procedure cannot be printed",
                          "replay": {"module_src": base_src, "ops_applied": ["divide_loop i 2 [%r, 'ii'] perfect" % nm],
                                     "error": "%s: %s" % (type(e).__name__, str(e)[:200])}})
                    continue
                rt = round_trip(pk, tk)
                if rt["status"] == "reject":
                    emit({"t": "finding", "key": "print:roundtrip-reject-name:%s" % nm,
                          "what": "a variable named like a keyword of the surface language is printed verbatim and rejected",
                          "replay": {"module_src": base_src, "ops_applied": ["divide_loop i 2 [%r, 'ii'] perfect" % nm],
                                     "printed": tk, "error": (rt["msg"] or "")[-300:]}})
                elif rt["status"] == "ok" and str(rt["p2"]) != tk:
                    emit({"t": "finding", "key": "print:roundtrip-text-name:%s" % nm, "what": "text differs after re-parsing",
                          "replay": {"module_src": base_src, "printed": tk, "reprinted": str(rt["p2"])}})

    # ---------------------------------------------------------------- procedures
    sc = None
    if do_search:
        import semcheck
        sc = semcheck.SemChecker(random.Random(seed ^ 0x5EED), n_inputs=4)
        sc.mod_fields = lambda old, new: (True, set())  # unrelated procedures: every configuration field must agree
    def programs():
        for k in range(n_prog):
            if k >= 5 and time.time() > deadline:
                bump("stopped_on_time_budget")
                bump("cut_short:programs_generated", k)
                return
            uid = "q%d" % k
            r_kind = rng.random()
            if r_kind < 0.2:
                gen_kind = "ladder"
                src = ladder_module(rng)
                cfg_name = None
            elif r_kind < 0.55:
                gen_kind = "stress"
                g = StressGen(rng, uid)
                src = g.module()
                cfg_name = g.cfg
            else:
                gen_kind = "progen"
                g = progen.ProgGen(rng, uid)
                src = g.module()
                cfg_name = g.cfg_name
            mod, err = progen.load_module(src, "c17")
            if mod is None:
                bump("rejected_by_front_end:" + gen_kind)
                emit({"t": "reject", "gen": gen_kind, "err": err})
                continue
            bump("accepted:" + gen_kind)
            p0 = mod.foo
            cfgs = [getattr(mod, cfg_name)] if cfg_name and hasattr(mod, cfg_name) else []
            variants = [(p0, [])]
            for _ in range(2):
                try:
                    nops = rng.randint(1, 3)
                    p1, applied = with_timeout(30, lambda: schedule(p0, rng, cfgs, nops))
                except Exception as e:
                    bump("schedule_crash")
                    continue
                if applied:
                    variants.append((p1, applied))
            yield gen_kind, src, variants, None

    def fixed():
        if not do_search:
            return
        try:
            for w in witnesses():
                bump("witness_cases")
                yield w
        except Exception as e:
            emit({"t": "driver_error", "detail": "witness construction: %s: %s" % (type(e).__name__, e),
                  "tb": traceback.format_exc()[-800:]})

    import itertools
    pid = 0
    for gen_kind, src, variants, forced in itertools.chain(fixed(), programs()):
        force[0] = forced
        current[0] = gen_kind
        if gen_kind.startswith("regress:"):
            bump("regress_cases_run", len(variants))
        for p, applied in variants:
            if not gen_kind.startswith(("witness", "regress")) and pid > 20 and time.time() > deadline + 0.1 * budget:
                bump("cut_short:variants_dropped")
                continue
            pid += 1
            ir = p._loopir_proc
            try:
                reset_syms()
                lines, ops, names, problems = observe_print(ir)
                text = str(p)
                rec = {"t": "proc", "id": pid, "gen": gen_kind, "applied": applied, "coq": gproc(ir), "ops": gops(ops),
                       "names": names, "lines": lines, "nsyms": len({id(o[1]) for o in ops if o != "push" and o != "pop"}),
                       "dup_names": len(names) and len({str(o[1]) for o in ops if isinstance(o, tuple)})
                       < len({id(o[1]) for o in ops if isinstance(o, tuple)}),
                       "renamed": sum(1 for o, n in zip([o for o in ops if isinstance(o, tuple)], names) if str(o[1]) != n),
                       "text": text if pid <= 40 else None}
                emit(rec)
            except Unsupported as e:
                emit({"t": "export_error", "where": "proc", "detail": str(e), "src": src, "applied": applied})
                continue
            except Exception as e:
                if "Yapf" in type(e).__name__ or isinstance(e, AssertionError):
                    emit({"t": "finding", "key": ("print:empty-body:unprintable" if has_empty_block(ir) else
                                                  "print:unprintable:%s" % type(e).__name__),
                          "what": "str(procedure) raises", "replay": {"module_src": src, "ops_applied": applied,
                                                                       "error": str(e)[:300]}})
                    continue
                emit({"t": "driver_error", "detail": "%s: %s" % (type(e).__name__, e), "tb": traceback.format_exc()[-800:],
                      "src": src, "applied": applied})
                continue
            replay = {"module_src": src, "ops_applied": applied, "printed": text}
            # (i) the scope rule on the real printer's answers
            for kind, nm, detail in problems:
                key = "print:name-%s:%s" % (kind, nm)
                emit({"t": "finding", "key": key, "what": "two distinct symbols visible together print identically"
                      if kind == "collision" else "a symbol changes its printed name inside its scope",
                      "replay": dict(replay, detail=detail)})
            if not do_search:
                continue
            ub = unbound_uses(ir)
            if ub:
                bump("illformed_procedures_skipped")
                emit({"t": "illformed", "why": "uses unbound symbol(s) %s" % sorted(set(ub)), "module_src": src,
                      "ops_applied": applied, "printed": text})
                continue
            # (ii) round trip through the real front end + reference interpreter
            bump("roundtrip_tried")
            try:
                rt = with_timeout(30, lambda: round_trip(p, text))
                repaired = None
                if rt["status"] == "reject" and "size types should not be annotated" in (rt["msg"] or "") and BOOL_MEM.search(rt["src"]):
                    emit({"t": "finding", "key": "print:bool-argument-memory:reject",
                          "what": "a bool argument is printed as `b: bool @ DRAM`, which the parser rejects",
                          "replay": dict(replay, error=rt["msg"][-300:], roundtrip_src=rt["src"])})
                    repaired = True
                    rt = with_timeout(30, lambda: round_trip(p, text, repair_bool=True))
                    bump("roundtrip_retried_without_bool_mem")
                if rt["status"] == "skip":
                    bump("roundtrip_skipped")
                    emit({"t": "skip", "why": rt["why"]})
                    continue
                chain = has_chain(ir)
                if chain:
                    bump("procedures_with_comparison_chain")
                if rt["status"] == "reject":
                    bump("roundtrip_rejected")
                    msg = rt["msg"] or ""
                    phase = ("parse" if rt["cls"] in ("ParseError", "SyntaxError") else
                             "typecheck" if "during typechecking" in msg else
                             "static-check" if rt["cls"] == "TypeError" else rt["cls"])
                    key = "print:roundtrip-reject:%s:%s" % (phase, norm_msg(rt["cls"], msg))
                    if has_empty_block(ir):
                        key = "print:empty-body:reject"
                    emit({"t": "finding", "key": key, "what": "the real front end rejects the printed procedure",
                          "replay": dict(replay, error=(rt["msg"] or "")[-500:], roundtrip_src=rt["src"])})
                    continue
                p2 = rt["p2"]
                bump("roundtrip_parsed")
                t2 = str(p2)
                if t2 != text:
                    bump("roundtrip_text_differs")
                    key = "print:roundtrip-text:%s" % first_diff(text, t2)
                    ws = lambda t: re.sub(r"\s+", " ", t)  # the formatter may break the shorter line elsewhere
                    if ws(re.sub(r"-0\b(?!\.)", "0", text)) == ws(t2):
                        key = "print:roundtrip-text:minus-zero"
                    elif ws(re.sub(r"-0\b(?!\.)", "0", re.sub(r"--(\d)", r"\1", text))) == ws(t2):
                        # the type checker folds a unary minus applied to a literal: --4 comes back as 4
                        key = "print:roundtrip-text:double-minus-literal"
                    emit({"t": "finding", "key": key,
                          "what": "printing the re-parsed procedure gives a different text",
                          "replay": dict(replay, reprinted=t2)})
                for a, b, direction in ((p, p2, "orig->reparsed"), (p2, p, "reparsed->orig")):
                    sc.reset()
                    try:
                        res = with_timeout(3, lambda: sc.compare(a, b, op="print-roundtrip", n_inputs=4))
                    except Timeout:
                        bump("roundtrip_interp_timeout")
                        sc.interp.p.kill()
                        import export
                        sc.interp = export.Interp()
                        sc.reset()
                        break
                    if res is None:
                        bump("roundtrip_behaviour_equal")
                    elif res["kind"] == "unsupported":
                        bump("roundtrip_interp_unsupported")
                        break
                    else:
                        bump("roundtrip_behaviour_differs")
                        key = "print:roundtrip-behaviour:%s" % res["kind"]
                        emit({"t": "finding", "key": key,
                              "what": "the re-parsed procedure behaves differently in the reference interpreter (%s)" % direction,
                              "replay": dict(replay, reprinted=t2, direction=direction, input=res.get("input"),
                                             detail=res.get("detail"), old_outcome=res.get("old_outcome"),
                                             new_outcome=res.get("new_outcome"))})
                        break
            except Exception as e:
                bump("roundtrip_driver_error")
                emit({"t": "driver_error", "detail": "round trip: %s: %s" % (type(e).__name__, e),
                      "tb": traceback.format_exc()[-800:], "src": src, "applied": applied})
    if sc is not None:
        stats["interp_runs"] = sc.runs
        stats["interp_nontrivial"] = sc.nontrivial
        sc.close()
    stats["wall_s"] = round(time.time() - t0, 1)
    emit({"t": "stat", "stats": stats})
    out.close()


def first_diff(a, b):
    """kind of the first line that differs (keeps the key of a finding independent of the program)"""
    la, lb = a.split("\n"), b.split("\n")
    for x, y in zip(la, lb):
        if x != y:
            t = x.strip()
            for kw in ("def", "if", "for", "assert", "else"):
                if t.startswith(kw + " ") or t.startswith(kw + ":"):
                    return kw
            if re.match(r"^\w+: ", t):
                return "alloc"
            if re.match(r"^\w+\(", t):
                return "call"
            if "+=" in t:
                return "reduce"
            if "=" in t:
                return "assign"
            return "line"
    return "length"


if __name__ == "__main__":
    main()
