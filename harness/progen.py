"""Grammar-directed generator of Exo source text (DESIGN.md 2.2a).

Everything produced here goes through the real front end (@proc via exec of a scratch module), so only
procedures exo itself accepts reach later stages; the rejected remainder is the malformed stream.
The generator is weighted towards the shapes the property texts single out: loops with zero / constant /
symbolic / non-zero lower bounds and possibly zero trip counts, guards on index expressions and config
fields, orelse branches, re-used and shadowed names, reductions, scalar and tensor allocations, window
statements and window-of-window, calls with size/index/window/scalar arguments and assertions, config
reads and writes, `/` and `%` by positive literals on possibly negative expressions, par loops."""
from __future__ import annotations

import importlib.util
import os
import random
import sys
import textwrap

import common

HEADER = (
    "from __future__ import annotations\n"
    "from exo import proc, instr, config, DRAM\n"
    "from exo.libs.externs import relu, select\n"
    "from exo.stdlib.scheduling import *\n"
)

CONST_EXTENTS = [2, 3, 4, 6, 8]


class Var:
    """index variable with range [lo, hi) where hi is an int or a size-argument name"""

    def __init__(self, name, lo, hi):
        self.name, self.lo, self.hi = name, lo, hi

    @property
    def const(self):
        return isinstance(self.hi, int)


class Buf:
    def __init__(self, name, dims, writable=True, window=False, is_alias=False, root=None, amap=None):
        self.name, self.dims, self.writable, self.window, self.is_alias = name, dims, writable, window, is_alias
        # for aliases made of constant windows: the root buffer and, per root dimension, ("pt", c) or
        # ("iv", offset, index of the alias dimension) -- lets the generator hit one cell through two names
        self.root = root or name
        self.amap = amap if (amap is not None or is_alias) else [("iv", 0, k) for k in range(len(dims))]


class ProgGen:
    def __init__(self, rng: random.Random, uid: str = "", features=None):
        self.rng = rng
        self.uid = uid
        self.f = {
            "config": 0.25, "calls": 0.35, "windows": 0.35, "par": 0.1, "divmod": 0.5, "shadow": 0.15,
            "index_arg": 0.3, "bool_arg": 0.2, "scalar_arg": 0.25, "extern": 0.1, "nonzero_lo": 0.35,
        }
        if features:
            self.f.update(features)
        self.fresh = 0
        self.subprocs: list[dict] = []
        self.cfg_name = None

    # ------------------------------------------------------------------ helpers
    def p(self, key):
        return self.rng.random() < self.f[key]

    def name(self, base):
        self.fresh += 1
        return "%s%d" % (base, self.fresh)

    # ------------------------------------------------------------------ index expressions
    def affine(self, env, allow_sym=True):
        vs = [v for v in env if allow_sym or v.const]
        terms = []
        for v in self.rng.sample(vs, min(len(vs), self.rng.randint(1, 2))) if vs else []:
            c = self.rng.choice([1, 1, 2, 3])
            terms.append(v.name if c == 1 else "%d * %s" % (c, v.name))
        s = " + ".join(terms) if terms else "0"
        k = self.rng.choice([0, 0, 1, 2, 3, -1, -2, -3, -5])
        if k > 0:
            s = "%s + %d" % (s, k)
        elif k < 0:
            s = "%s - %d" % (s, -k)
        return s

    def index(self, extent, env):
        rng = self.rng
        if isinstance(extent, int):
            E = extent
            opts = []
            fits = [v for v in env if v.const and 0 <= v.lo and v.hi <= E]
            if fits:
                opts += ["var"] * 4
            shift = [v for v in env if v.const and v.hi - v.lo <= E]
            if shift:
                opts += ["shift"] * 2
            if env and self.p("divmod"):
                opts += ["mod"] * 2 + ["divmod"]
            halves = [v for v in env if v.const and 0 <= v.lo and (v.hi - 1) // 2 < E]
            if halves and self.p("divmod"):
                opts += ["div"]
            opts += ["const"]
            k = rng.choice(opts)
            if k == "var":
                return rng.choice(fits).name
            if k == "shift":
                v = rng.choice(shift)
                return v.name if v.lo == 0 else "%s - %d" % (v.name, v.lo)
            if k == "mod":
                return "(%s) %% %d" % (self.affine(env), E)
            if k == "divmod":
                return "((%s) / %d) %% %d" % (self.affine(env), rng.choice([2, 3, 4]), E)
            if k == "div":
                return "%s / 2" % rng.choice(halves).name
            return str(rng.randrange(E))
        # symbolic extent n
        n = extent
        same = [v for v in env if v.hi == n]
        opts = ["zero"]
        if same:
            opts += ["var"] * 5 + ["rev"]
        k = rng.choice(opts)
        if k == "var":
            v = rng.choice(same)
            return v.name if v.lo == 0 or rng.random() < 0.5 else "%s - %d" % (v.name, v.lo)
        if k == "rev":
            v = rng.choice(same)
            return "%s - 1 - %s + %d" % (n, v.name, v.lo) if v.lo else "%s - 1 - %s" % (n, v.name)
        return "0"

    def access(self, b: Buf, env):
        if not b.dims:
            return b.name
        return "%s[%s]" % (b.name, ", ".join(self.index(d, env) for d in b.dims))

    # ------------------------------------------------------------------ data expressions
    def rhs(self, bufs, env, depth=2):
        rng = self.rng
        r = rng.random()
        if depth == 0 or r < 0.35:
            if rng.random() < 0.3 or not bufs:
                return "%d.0" % rng.randint(0, 5)
            return self.access(rng.choice(bufs), env)
        if r < 0.9:
            op = rng.choice(["+", "+", "*", "-"])
            return "%s %s %s" % (self.rhs(bufs, env, depth - 1), op, self.rhs(bufs, env, depth - 1))
        if self.p("extern"):
            if rng.random() < 0.5:
                return "relu(%s)" % self.rhs(bufs, env, depth - 1)
            return "select(%s, %s, %s, %s)" % tuple(self.rhs(bufs, env, 0) for _ in range(4))
        return "(%s)" % self.rhs(bufs, env, depth - 1)

    def cond(self, env, ctx):
        rng = self.rng
        opts = []
        if env:
            opts += ["cmp"] * 4
        if ctx["sizes"]:
            opts += ["size"]
        if ctx["bools"]:
            opts += ["bool"] * 2
        if ctx["idxargs"]:
            opts += ["idxarg"] * 2
        if self.cfg_name and self.p("config"):
            opts += ["cfg"] * 3
        if not opts:
            return "%s > 0" % ctx["sizes"][0] if ctx["sizes"] else "0 == 0"
        k = rng.choice(opts)
        if k == "cmp":
            v = rng.choice(env)
            op = rng.choice(["<", "==", ">", "<=", ">="])
            return "%s %s %d" % (v.name, op, rng.randint(0, 3))
        if k == "size":
            return "%s %s %d" % (rng.choice(ctx["sizes"]), rng.choice([">", "<", "=="]), rng.randint(1, 3))
        if k == "bool":
            return rng.choice(ctx["bools"])
        if k == "idxarg":
            return "%s %s %d" % (rng.choice(ctx["idxargs"]), rng.choice(["<", "==", ">="]), rng.randint(0, 2))
        if rng.random() < 0.3:
            return "%s.flag" % self.cfg_name
        return "%s.a %s %d" % (self.cfg_name, rng.choice(["==", "<", ">"]), rng.randint(0, 2))

    # ------------------------------------------------------------------ statements
    def block(self, depth, env, bufs, ctx, ind, budget):
        rng = self.rng
        lines = []
        bufs = list(bufs)
        n = rng.randint(1, 3 if depth > 0 else 2)
        for _ in range(n):
            if budget[0] <= 0:
                break
            budget[0] -= 1
            kinds = ["assign"] * 5 + ["reduce"] * 3
            if depth > 0:
                kinds += ["for"] * 4 + ["if"] * 2 + ["alloc"] * 2
                if self.p("windows"):
                    kinds += ["window"] * 2
                if self.subprocs and self.p("calls"):
                    kinds += ["call"] * 3
            if self.cfg_name and self.p("config"):
                kinds += ["wcfg"] * 2
            kinds += ["pass"] if rng.random() < 0.05 else []
            k = rng.choice(kinds)
            wr = [b for b in bufs if b.writable]
            if k in ("assign", "reduce"):
                if not wr:
                    continue
                b = rng.choice(wr)
                op = "=" if k == "assign" else "+="
                lines.append("%s%s %s %s" % (ind, self.access(b, env), op, self.rhs(bufs, env)))
            elif k == "pass":
                lines.append(ind + "pass")
            elif k == "wcfg":
                if rng.random() < 0.6:
                    src = rng.choice([str(rng.randint(0, 2))] + [v.name for v in env if v.const and v.lo >= 0][:1])
                    lines.append("%s%s.a = %s" % (ind, self.cfg_name, src))
                else:
                    lines.append("%s%s.flag = %s" % (ind, self.cfg_name, rng.choice(["True", "False"])))
            elif k == "for":
                used = {v.name for v in env}
                pool = ["i", "j", "k", "ii"]
                cand = [x for x in pool if x not in used] or pool
                if self.p("shadow") and used:
                    cand = sorted(used & set(pool)) or cand
                if self.p("shadow") and (ctx["idxargs"] or ctx["sizes"]) and rng.random() < 0.5:
                    # a loop variable that shares its NAME with a control argument (a distinct Sym)
                    cand = list(ctx["idxargs"]) + list(ctx["sizes"])
                nm = rng.choice(cand)
                lo = rng.choice([1, 2, 3]) if self.p("nonzero_lo") else 0
                if ctx["sizes"] and rng.random() < 0.5:
                    hi = rng.choice(ctx["sizes"])
                    if lo > ctx["minsize"].get(hi, 1):
                        lo = ctx["minsize"].get(hi, 1) if rng.random() < 0.7 else 0
                else:
                    hi = lo + rng.choice([0, 1, 2, 3, 4]) if rng.random() < 0.3 else rng.choice([2, 3, 4, 6])
                    if isinstance(hi, int) and hi < lo:
                        hi = lo
                mode = "par" if self.p("par") else "seq"
                lines.append("%sfor %s in %s(%s, %s):" % (ind, nm, mode, lo, hi))
                env2 = [v for v in env if v.name != nm] + [Var(nm, lo, hi)]
                body = self.block(depth - 1, env2, bufs, ctx, ind + "    ", budget)
                lines += body or [ind + "    pass"]
            elif k == "if":
                lines.append("%sif %s:" % (ind, self.cond(env, ctx)))
                body = self.block(depth - 1, env, bufs, ctx, ind + "    ", budget)
                lines += body or [ind + "    pass"]
                if rng.random() < 0.45:
                    lines.append(ind + "else:")
                    budget[0] += 1  # the else branch should not starve: context-dependent rewrites live there
                    body = self.block(depth - 1, env, bufs, ctx, ind + "    ", budget)
                    lines += body or [ind + "    pass"]
            elif k == "alloc":
                nm = self.name(rng.choice(["t", "acc", "tmp"]))
                nd = rng.choice([0, 0, 1, 1, 2])
                dims = [rng.choice(CONST_EXTENTS + ctx["sizes"]) for _ in range(nd)]
                if ctx["sizes"] and nd and rng.random() < 0.3:
                    # padded / scaled symbolic extents (what tiling leaves behind)
                    sz = rng.choice(ctx["sizes"])
                    dims[rng.randrange(nd)] = rng.choice(["%s + %d" % (sz, rng.choice([1, 2, 4, 8])),
                                                          "%d * %s" % (rng.choice([2, 4]), sz),
                                                          "%s + %s" % (sz, sz)])
                b = Buf(nm, dims)
                if dims:
                    lines.append("%s%s: R[%s]" % (ind, nm, ", ".join(map(str, dims))))
                    # initialise completely so that later reads are defined
                    ivs, ind2, env2 = [], ind, list(env)
                    for q, d in enumerate(dims):
                        iv = "z%d" % q
                        lines.append("%sfor %s in seq(0, %s):" % (ind2, iv, d))
                        ind2 += "    "
                        ivs.append(iv)
                    lines.append("%s%s[%s] = %s" % (ind2, nm, ", ".join(ivs), rng.choice(["0.0", "1.0"])))
                else:
                    lines.append("%s%s: R" % (ind, nm))
                    lines.append("%s%s = %s" % (ind, nm, self.rhs(bufs, env, 1)))
                bufs.append(b)
            elif k == "window":
                src = [b for b in bufs if b.dims and not b.is_alias or (b.dims and rng.random() < 0.6)]
                if not src:
                    continue
                b = rng.choice(src)
                acc, dims, sub = [], [], []   # sub: per source dim ("pt", c) | ("iv", lo) | None (not constant)
                for d in b.dims:
                    if rng.random() < 0.4 and len(b.dims) > 1:
                        if isinstance(d, int) and rng.random() < 0.6:
                            c = rng.randrange(d)
                            acc.append(str(c))
                            sub.append(("pt", c))
                        else:
                            acc.append(self.index(d, env))
                            sub.append(None)
                    elif isinstance(d, int):
                        lo = rng.randrange(d) if rng.random() < 0.8 else 0
                        hi = rng.randint(lo + 1, d)
                        acc.append("%d:%d" % (lo, hi))
                        dims.append(hi - lo)
                        sub.append(("iv", lo))
                    else:
                        acc.append("0:%s" % d)
                        dims.append(d)
                        sub.append(("iv", 0))
                if not dims:
                    continue
                amap = None
                if b.amap is not None and all(x is not None for x in sub):
                    amap, newdim = [], {}
                    k2 = 0
                    for k, x in enumerate(sub):
                        if x[0] == "iv":
                            newdim[k] = k2
                            k2 += 1
                    for r in b.amap:
                        if r[0] == "pt":
                            amap.append(r)
                        else:
                            _, off, k = r
                            x = sub[k]
                            amap.append(("pt", off + x[1]) if x[0] == "pt" else ("iv", off + x[1], newdim[k]))
                nm = self.name("w")
                lines.append("%s%s = %s[%s]" % (ind, nm, b.name, ", ".join(acc)))
                wb = Buf(nm, dims, writable=b.writable, window=True, is_alias=True, root=b.root, amap=amap)
                bufs.append(wb)
                root = next((q for q in bufs if q.name == b.root), None)
                if b.writable and amap is not None and root is not None and all(isinstance(d, int) for d in dims) \
                        and rng.random() < 0.7:
                    # the SAME cell written through the alias and through the root buffer, next to each other:
                    # any rewrite that reorders/duplicates them must see that they conflict
                    j = [rng.randrange(d) for d in dims]
                    ridx = [str(r[1]) if r[0] == "pt" else str(r[1] + j[r[2]]) for r in amap]
                    pair = ["%s%s[%s] = %d.0" % (ind, nm, ", ".join(map(str, j)), rng.randint(1, 4)),
                            "%s%s[%s] %s %d.0" % (ind, root.name, ", ".join(ridx), rng.choice(["=", "+="]), rng.randint(5, 9))]
                    rng.shuffle(pair)
                    lines += pair
                elif b.writable and rng.random() < 0.5:
                    pair = ["%s%s = %s" % (ind, self.access(wb, env), self.rhs(bufs, env, 1)),
                            "%s%s %s %s" % (ind, self.access(b, env), rng.choice(["=", "+="]), self.rhs(bufs, env, 1))]
                    rng.shuffle(pair)
                    lines += pair
            elif k == "call":
                sp = rng.choice(self.subprocs)
                args, ok, used_bufs = [], True, set()
                szmap = {}
                for (an, kind, dims) in sp["args"]:
                    if kind == "size":
                        v = rng.choice(ctx["sizes"] + CONST_EXTENTS[:3])
                        szmap[an] = v
                        args.append(str(v))
                    elif kind == "index":
                        args.append(self.index(4, env))
                    elif kind == "scalar":
                        cands = [b for b in wr if b.name not in used_bufs and not b.is_alias]
                        if not cands:
                            ok = False
                            break
                        b = rng.choice(cands)
                        used_bufs.add(b.name)
                        args.append(self.access(b, env))
                    else:
                        want = [szmap.get(d, d) for d in dims]
                        cands = [b for b in wr if b.name not in used_bufs and not b.is_alias and len(b.dims) >= len(want)]
                        rng.shuffle(cands)
                        found = None
                        for b in cands:
                            acc = self.fit_window(b, want, env)
                            if acc is not None:
                                found = (b, acc)
                                break
                        if not found:
                            ok = False
                            break
                        used_bufs.add(found[0].name)
                        args.append(found[1])
                if ok:
                    lines.append("%s%s(%s)" % (ind, sp["name"], ", ".join(args)))
        return lines

    def fit_window(self, b: Buf, want, env):
        """window expression of buffer b with the wanted extents (ints or size names), or None"""
        rng = self.rng
        if len(b.dims) == len(want) and all(str(x) == str(y) for x, y in zip(b.dims, want)) and rng.random() < 0.5:
            return b.name
        acc, wi = [], 0
        extra = len(b.dims) - len(want)
        for d in b.dims:
            if extra > 0 and (wi >= len(want) or rng.random() < 0.5):
                acc.append(self.index(d, env))
                extra -= 1
                continue
            if wi >= len(want):
                return None
            w = want[wi]
            wi += 1
            if isinstance(w, int) and isinstance(d, int) and w <= d:
                lo = rng.randint(0, d - w)
                acc.append("%d:%d" % (lo, lo + w))
            elif str(w) == str(d):
                acc.append("0:%s" % d)
            else:
                return None
        if wi != len(want) or extra != 0:
            return None
        return "%s[%s]" % (b.name, ", ".join(acc))

    # ------------------------------------------------------------------ procedures
    def subproc(self):
        rng = self.rng
        nm = self.name("sub" + self.uid)
        shape = rng.choice(["vec", "vec", "const", "scalar", "mat"])
        args, sig, env, bufs, ctx = [], [], [], [], {"sizes": [], "bools": [], "idxargs": [], "minsize": {}}
        preds = []
        if shape == "vec":
            sig += ["n: size", "dst: [R][n]", "src: [R][n]"]
            args += [("n", "size", None), ("dst", "tensor", ["n"]), ("src", "tensor", ["n"])]
            bufs += [Buf("dst", ["n"], True, True), Buf("src", ["n"], False, True)]
            ctx["sizes"] = ["n"]
            if rng.random() < 0.3:
                preds.append("assert n >= 2")
                ctx["minsize"]["n"] = 2
        elif shape == "const":
            c = rng.choice([2, 4])
            sig += ["dst: [R][%d]" % c, "src: [R][%d]" % c]
            args += [("dst", "tensor", [c]), ("src", "tensor", [c])]
            bufs += [Buf("dst", [c], True, True), Buf("src", [c], False, True)]
        elif shape == "scalar":
            sig += ["s: R", "k: index", "src: [R][4]"]
            preds += ["assert k >= 0", "assert k < 4"]
            args += [("s", "scalar", None), ("k", "index", None), ("src", "tensor", [4])]
            bufs += [Buf("s", [], True), Buf("src", [4], False, True)]
            ctx["idxargs"] = ["k"]
        else:
            sig += ["n: size", "dst: [R][n, 2]", "src: [R][2, n]"]
            args += [("n", "size", None), ("dst", "tensor", ["n", 2]), ("src", "tensor", [2, "n"])]
            bufs += [Buf("dst", ["n", 2], True, True), Buf("src", [2, "n"], False, True)]
            ctx["sizes"] = ["n"]
        budget = [4]
        save, self.f = self.f, dict(self.f, calls=0.0, windows=0.0)
        body = self.block(2, env, bufs, ctx, "    ", budget)
        self.f = save
        if not body:
            body = ["    pass"]
        src = "@proc\ndef %s(%s):\n%s%s\n" % (nm, ", ".join(sig), "".join("    %s\n" % p for p in preds), "\n".join(body))
        self.subprocs.append({"name": nm, "args": args, "src": src})
        return src

    def main(self, name="foo"):
        rng = self.rng
        sig, preds, bufs = [], [], []
        ctx = {"sizes": [], "bools": [], "idxargs": [], "minsize": {}}
        for s in ["n", "m"][: rng.choice([1, 1, 2])]:
            sig.append("%s: size" % s)
            ctx["sizes"].append(s)
            r = rng.random()
            if r < 0.4:
                c = rng.choice([1, 2, 3])
                preds.append("assert %s >= %d" % (s, c))
                ctx["minsize"][s] = c
        if self.p("index_arg"):
            sig.append("kk: index")
            ctx["idxargs"].append("kk")
            if rng.random() < 0.7:
                preds += ["assert kk >= 0"]
        if self.p("bool_arg"):
            sig.append("bb: bool")
            ctx["bools"].append("bb")
        nb = rng.randint(2, 4)
        for q in range(nb):
            nm = ["x", "y", "u", "v"][q]
            nd = rng.choice([1, 1, 2])
            dims = [rng.choice(CONST_EXTENTS + ctx["sizes"] * 2) for _ in range(nd)]
            win = rng.random() < 0.3
            ty = "[R][%s]" % ", ".join(map(str, dims)) if win else "R[%s]" % ", ".join(map(str, dims))
            sig.append("%s: %s" % (nm, ty))
            bufs.append(Buf(nm, dims, True, win))
        if self.p("scalar_arg"):
            sig.append("sc: R")
            bufs.append(Buf("sc", [], True))
        budget = [rng.randint(4, 9)]
        body = self.block(3, [], bufs, ctx, "    ", budget)
        if not body:
            body = ["    pass"]
        return "@proc\ndef %s(%s):\n%s%s\n" % (name, ", ".join(sig), "".join("    %s\n" % p for p in preds), "\n".join(body))

    def module(self, name="foo") -> str:
        parts = [HEADER]
        if self.p("config"):
            self.cfg_name = "Cfg" + self.uid
            parts.append("@config\nclass %s:\n    a: index\n    flag: bool\n" % self.cfg_name)
        for _ in range(self.rng.choice([0, 1, 1, 2]) if self.p("calls") or self.rng.random() < 0.3 else 0):
            parts.append(self.subproc())
        parts.append(self.main(name))
        return "\n".join(parts)


_modcount = [0]


def load_module(src: str, tag: str = "gen"):
    """exec `src` as a real module file (exo needs inspect.getsource); returns (module | None, error)"""
    d = common.SCRATCH / "mods"
    d.mkdir(parents=True, exist_ok=True)
    _modcount[0] += 1
    path = d / ("%s_%d_%d.py" % (tag, os.getpid(), _modcount[0]))
    path.write_text(src)
    spec = importlib.util.spec_from_file_location(path.stem, path)
    mod = importlib.util.module_from_spec(spec)
    sys.modules[path.stem] = mod  # inspect.getsource on @config classes needs it
    try:
        spec.loader.exec_module(mod)
        return mod, None
    except Exception as e:  # front-end rejection (or a generator slip): the malformed stream
        return None, "%s: %s" % (type(e).__name__, str(e)[:300])
    finally:
        sys.modules.pop(path.stem, None)
        try:
            path.unlink()
        except OSError:
            pass
