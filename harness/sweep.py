#!/venv/bin/python
"""sweep.py <ID> <seed_lo> <seed_hi> [--thorough]: run a check under several seeds, list distinct violation keys"""
import json, subprocess, sys, glob, os, collections
pid, lo, hi = sys.argv[1], int(sys.argv[2]), int(sys.argv[3])
tier = "--thorough" if "--thorough" in sys.argv else "--quick"
keys = collections.OrderedDict()
for seed in range(lo, hi):
    r = subprocess.run(["/venv/bin/python", "/verif/harness/check.py", pid, tier, "--seed", str(seed)], capture_output=True, text=True)
    viol = [l for l in r.stdout.splitlines() if l.startswith("VIOLATION")]
    print("seed", seed, "rc", r.returncode, "violations", len(viol), flush=True)
    for f in sorted(glob.glob("/verif/replays/%s-*.json" % pid)):
        d = json.load(open(f))
        k = d.get("key") or "BROKEN:" + json.dumps(d.get("no_longer_checks"))[:300]
        if k not in keys:
            keys[k] = (seed, d.get("what", "")[:200])
            os.makedirs("/verif/.scratch/sweep", exist_ok=True)
            json.dump(d, open("/verif/.scratch/sweep/%s_%d_%d.json" % (pid, seed, len(keys)), "w"), indent=1)
for k, (s, w) in keys.items():
    print("KEY", k, "| seed", s, "|", w)
