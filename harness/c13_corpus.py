"""C13 regression corpus: witnesses of defects that were REPAIRED in /repo.  They run first on every check and must
pass; a witness that fails again is reported as VIOLATION with key `regression:<finding id>:...` (fixed findings
are never filtered by known_findings.json)."""

SRC_HEAD = "from __future__ import annotations\nfrom exo import proc\n\n"

REGRESSIONS = [
    # C13-join-none (fixed by "the join of two index ranges must stay unbounded where either side is")
    {"kind": "orchain", "_regress": "C13-join-none",
     "rs": [["range", ["c", 0], 0, None], ["range", ["c", 0], 3, 3]]},
    {"kind": "orchain", "_regress": "C13-join-none",
     "rs": [["range", ["c", 0], None, 4], ["range", ["c", 0], -2, 9]]},
    {"kind": "orchain", "_regress": "C13-join-none",
     "rs": [["range", ["v", 1, 100], 0, 0], ["range", ["c", 0], 3, 3], ["range", ["c", 0], 5, 5]]},
    {"kind": "user", "mode": "src", "_regress": "C13-join-none", "src": SRC_HEAD + """@proc
def p(n: size, x: R[n + 4]):
    for k in seq(0, 4):
        for i in seq(0, n):
            x[i] = 0.0
        x[3] = 1.0
"""},
    # C13-partial-eval-drops-offsets (fixed by "partial_eval_with_range must keep the constant offsets of the range")
    {"kind": "peval", "_regress": "C13-partial-eval-drops-offsets",
     "r": ["range", ["v", 1, 100], 0, 3], "sym": [1, 100], "g": ["range", ["c", 0], 0, 7]},
    {"kind": "peval", "_regress": "C13-partial-eval-drops-offsets",
     "r": ["range", ["b", "mul", ["v", 1, 100], ["c", -2]], -1, 2], "sym": [1, 100],
     "g": ["range", ["v", 2, 101], 1, 4]},
    {"kind": "fold", "_regress": "C13-partial-eval-drops-offsets", "size": 4, "expect": "(err SchedulingError)",
     "src": SRC_HEAD + """@proc
def p(y: f32[1]):
    x: f32[12]
    for i in seq(0, 8):
        x[i] = 1.0
        x[i + 3] = 2.0
    y[0] = x[4]
"""},
]
