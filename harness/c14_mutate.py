#!/venv/bin/python
"""C14 mutation testing: each mutation edits platforms/x86.py in a detached git worktree of /repo under /tmp, runs
`EXO_REPO=<worktree> check.py C14 --quick`, and reports what the check says (broken obligations, violation keys).
The worktree is removed and coq/X86 regenerated from /repo afterwards.   usage: c14_mutate.py [names...]"""
import json
import os
import subprocess
import sys
import time
from pathlib import Path

VERIF = Path(__file__).resolve().parent.parent
WT = Path("/tmp/c14_mut")
X86 = "src/exo/platforms/x86.py"


def nth_replace(s, old, new, n=1):
    i = -1
    for _ in range(n):
        i = s.index(old, i + 1)
    return s[:i] + new + s[i + len(old):]


MUTATIONS = [
    ("baseline", None),
    ("sub_operands_swapped", lambda s: nth_replace(
        s, '"{out_data} = _mm256_sub_ps({x_data}, {y_data});"', '"{out_data} = _mm256_sub_ps({y_data}, {x_data});"')),
    ("fmadd_operands_swapped", lambda s: nth_replace(
        s, '"{dst_data} = _mm256_fmadd_ps({src1_data}, {src2_data}, {dst_data});"',
        '"{dst_data} = _mm256_fmadd_ps({src1_data}, {dst_data}, {src2_data});"')),
    ("prefix_store_cmpgt_swapped", lambda s: nth_replace(
        s, "__m256i cmp = _mm256_cmpgt_epi32(prefix, indices);", "__m256i cmp = _mm256_cmpgt_epi32(indices, prefix);", 2)),
    ("mul_body_loop_bound_4", lambda s: nth_replace(
        s, "    for i in seq(0, 8):\n        out[i] = x[i] * y[i]", "    for i in seq(0, 4):\n        out[i] = x[i] * y[i]")),
    ("loadu_source_offset", lambda s: nth_replace(
        s, '"{dst_data} = _mm256_loadu_ps(&{src_data});"', '"{dst_data} = _mm256_loadu_ps(&{src_data} + 1);"')),
    ("mask_storeu_mask_off_by_one", lambda s: nth_replace(
        s, '"_mm512_mask_storeu_ps(&{dst_data}, ((1 << {N}) - 1), {src_data});"',
        '"_mm512_mask_storeu_ps(&{dst_data}, (1 << {N}), {src_data});"')),
    ("select_branches_swapped", lambda s: nth_replace(
        s, "{out_data} = _mm256_blendv_ps ({z_data}, {y_data}, ", "{out_data} = _mm256_blendv_ps ({y_data}, {z_data}, ")),
    ("divide_by_3_constant", lambda s: nth_replace(s, "_mm256_set1_epi16(43691)", "_mm256_set1_epi16(43690)")),
    # harmless refactorings: must look exactly like the baseline
    ("HARMLESS_add_commuted", lambda s: nth_replace(
        s, '"{out_data} = _mm256_add_ps({x_data}, {y_data});"', '"{out_data} = _mm256_add_ps({y_data}, {x_data});"')),
    ("HARMLESS_local_renamed", lambda s: s.replace(
        "__m256d tmp = _mm256_hadd_pd({x_data}, {x_data});", "__m256d acc = _mm256_hadd_pd({x_data}, {x_data});").replace(
        "(_mm256_extractf128_pd (tmp, 1));\n        tmp = _mm256_add_pd(tmp, upper_bits);\n        *{result} += _mm256_cvtsd_f64(tmp);",
        "(_mm256_extractf128_pd (acc, 1));\n        acc = _mm256_add_pd(acc, upper_bits);\n        *{result} += _mm256_cvtsd_f64(acc);")),
]


def sh(cmd, **kw):
    return subprocess.run(cmd, shell=isinstance(cmd, str), stdout=subprocess.PIPE, stderr=subprocess.STDOUT, text=True, **kw)


def main():
    want = set(sys.argv[1:])
    os.chdir("/")
    sh("git -C /repo worktree remove --force %s" % WT)
    r = sh("git -C /repo worktree add --detach %s" % WT)
    if r.returncode != 0:
        print(r.stdout)
        return 2
    orig = (WT / X86).read_text()
    results = {}
    try:
        for name, fn in MUTATIONS:
            if want and name not in want:
                continue
            txt = orig if fn is None else fn(orig)
            assert fn is None or txt != orig, name
            (WT / X86).write_text(txt)
            t0 = time.time()
            r = sh(["/venv/bin/python", str(VERIF / "harness" / "check.py"), "C14", "--quick"],
                   env=dict(os.environ, EXO_REPO=str(WT)), cwd=str(VERIF))
            ev = json.loads((VERIF / "evidence" / "C14.json").read_text())
            keys = []
            for f in sorted((VERIF / "replays").glob("C14-*.json")):
                d = json.loads(f.read_text())
                if f.stat().st_mtime >= t0:
                    keys.append(d.get("key") or "BROKEN(no input): " + ", ".join(b["name"] for b in d.get("no_longer_checks", [])))
            results[name] = dict(rc=r.returncode, wall=round(time.time() - t0), broken=[b["name"] for b in ev["coverage"]["broken"]],
                                 keys=sorted(keys),
                                 known=[l for l in r.stdout.splitlines() if l.startswith("KNOWN-FINDING")])
            print("== %s: rc=%d %ds\n   broken: %s\n   violation keys: %s" % (
                name, r.returncode, results[name]["wall"], results[name]["broken"], results[name]["keys"]), flush=True)
    finally:
        os.chdir("/")
        sh("git -C /repo worktree remove --force %s" % WT)
        # restore the generated files from the real tree
        sh(["/venv/bin/python", "gen.py"], cwd=str(VERIF / "coq" / "X86"), env=dict(os.environ, PYTHONPATH="/repo/src"))
    base = results.get("baseline")
    if base:
        for name, r in results.items():
            if name == "baseline":
                continue
            new = sorted(set(r["keys"]) - set(base["keys"])) + sorted(set(r["broken"]) - set(base["broken"]))
            print("%-32s %s  new: %s" % (name, "CAUGHT" if new else ("quiet (as intended)" if name.startswith("HARMLESS") else "MISSED"), new))
    (VERIF / ".scratch" / "c14_mutation_results.json").write_text(json.dumps(results, indent=1))
    return 0


if __name__ == "__main__":
    sys.exit(main())
