"""C12 generators.

SrcGen  - Exo *source text* (goes through the real parser / type checker / bounds checker): quasi-affine index
          expressions (+ - *c /c %c, unary minus, negative constants, nested / and %, config reads, repeated and
          shadowed names) placed in loop bounds, guards, call arguments, buffer indices, allocation sizes and
          configuration writes, inside loop nests with constant / symbolic / non-zero bounds, `e == c` guards and
          size / index assertions.  Optionally a callee with identically named loop variables that gets inlined
          (the only way to have two distinct Syms with one name inside a single expression from source).
IrGen   - LoopIR built directly (no front end): same grammar, but names are drawn from a tiny pool for *distinct*
          Syms and srcinfo objects are shared between nodes, which is what scheduling operators produce and what
          LoopIR's `==`, `str()` comparisons and `_fact_key` are sensitive to.
"""
from __future__ import annotations

import random

DIVS = [1, 2, 2, 3, 4, 4, 4, 6, 8, 8, 16]
CONSTS = [0, 0, 1, 1, 2, 3, 4, 4, 5, 7, 8, 12, -1, -2, -3, -4, -5, -8]


# ======================================================================================= shared expression grammar
class ExprGen:
    """builds expression trees as nested tuples:
         ('v', name) ('c', n) ('neg', e) ('b', op, l, r) ('cfg', field)"""

    def __init__(self, rng: random.Random):
        self.rng = rng

    def const(self):
        return ("c", self.rng.choice(CONSTS))

    def posconst(self):
        return ("c", self.rng.choice([1, 2, 2, 3, 4, 4, 5, 8]))

    def atom(self, vars_, cfg):
        r = self.rng.random()
        if vars_ and r < 0.72:
            return ("v", self.rng.choice(vars_))
        if cfg and r < 0.80:
            return ("cfg", self.rng.choice(cfg))
        return self.const()

    def scaled(self, vars_, cfg):
        a = self.atom(vars_, cfg)
        r = self.rng.random()
        if r < 0.45 and a[0] != "c":
            c = ("c", self.rng.choice([1, 2, 2, 3, 4, 4, 4, 8, 8, 0, -1, -2, -4]))
            return ("b", "*", c, a) if self.rng.random() < 0.7 else ("b", "*", a, c)
        return a

    def affine(self, vars_, cfg, n=None):
        n = n or self.rng.choice([1, 2, 2, 3, 3, 4])
        e = self.scaled(vars_, cfg)
        for _ in range(n - 1):
            e = ("b", self.rng.choice(["+", "+", "+", "-", "-"]), e, self.scaled(vars_, cfg))
        return e

    def expr(self, vars_, cfg, depth):
        r = self.rng.random()
        if depth <= 0 or r < 0.25:
            return self.affine(vars_, cfg)
        if r < 0.45:
            return ("b", "/", self.expr(vars_, cfg, depth - 1), ("c", self.rng.choice(DIVS)))
        if r < 0.62:
            return ("b", "%", self.expr(vars_, cfg, depth - 1), ("c", self.rng.choice(DIVS)))
        if r < 0.68:
            return ("neg", self.expr(vars_, cfg, depth - 1))
        if r < 0.74:  # multiplication by a constant expression (int-typed operand)
            k = self.rng.choice([("c", 2), ("c", 0), ("c", 1), ("c", -3), ("b", "+", ("c", 1), ("c", 1)),
                                 ("b", "/", ("c", 7), ("c", 2)), ("b", "-", ("c", 2), ("c", 2)),
                                 ("b", "%", ("c", 9), ("c", 4))])
            e = self.expr(vars_, cfg, depth - 1)
            return ("b", "*", k, e) if self.rng.random() < 0.5 else ("b", "*", e, k)
        if r < 0.82:  # quotient / remainder recombination shapes (possibly with mismatching parts)
            n = self.affine(vars_, cfg, self.rng.choice([1, 1, 2]))
            k = self.rng.choice([2, 4, 4, 8])
            n2 = n if self.rng.random() < 0.75 else self.affine(vars_, cfg, 1)
            k2 = k if self.rng.random() < 0.8 else self.rng.choice([2, 4, 8])
            k3 = k if self.rng.random() < 0.8 else self.rng.choice([2, 4, 8])
            rem = ("b", "%", n, ("c", k))
            quo = ("b", "/", n2, ("c", k2))
            mul = ("b", "*", ("c", k3), quo) if self.rng.random() < 0.6 else ("b", "*", quo, ("c", k3))
            return ("b", "+", rem, mul) if self.rng.random() < 0.6 else ("b", "+", mul, rem)
        if r < 0.88:  # (a + b) - a
            a = self.expr(vars_, cfg, depth - 1)
            b = self.affine(vars_, cfg, 1)
            s = ("b", "+", a, b) if self.rng.random() < 0.5 else ("b", "+", b, a)
            return ("b", "-", s, a)
        op = self.rng.choice(["+", "+", "-", "-"])
        return ("b", op, self.expr(vars_, cfg, depth - 1), self.expr(vars_, cfg, depth - 1))

    def shifted(self, v, lo, hi_incl, xs):
        """numerators d*X + s*v + c whose non-divisible part s*v + c lies in [0, d) ONLY because v ranges over
        [lo, hi_incl] with lo > 0 (shifted loop) or because s < 0 (mirrored loop): c < 0 or c >= d.
        Returns (expr / d, expr % d, d)."""
        rng = self.rng
        w = hi_incl - lo + 1
        d = rng.choice([x for x in (2, 3, 4, 4, 8, 8, 16) if x >= w] or [16])
        s = rng.choice([1, 1, -1, -1])
        if s == 1:
            c = rng.randint(-lo, d - 1 - hi_incl)          # 0 <= v + c <= d - 1
        else:
            c = rng.randint(hi_incl, d - 1 + lo)           # 0 <= c - v <= d - 1
        if rng.random() < 0.15:
            c += rng.choice([-1, 1, d, -d])                # sometimes just outside (the rewrite must then not happen)
        vt = ("v", v)
        x = rng.choice(xs) if xs else None
        k = rng.choice([1, 1, 2, -1])
        terms = []
        if x is not None:
            terms.append(("b", "*", ("c", d * k), ("v", x)))
        if rng.random() < 0.25 and xs:
            terms.append(("b", "*", ("c", d), ("v", rng.choice(xs))))
        form = rng.random()
        if s == 1:
            tail = [("+", vt), ("+" if c >= 0 else "-", ("c", abs(c)))]
        else:
            tail = [("+", ("c", c)), ("-", vt)] if form < 0.6 else [("-", vt), ("+", ("c", c))]
        if form > 0.8:
            tail = tail[::-1] if tail[0][0] == "+" and tail[1][0] == "+" else tail
        e = None
        for t in terms:
            e = t if e is None else ("b", "+", e, t)
        for sign, t in tail:
            if e is None:
                e = t if sign == "+" else ("neg", t)
            else:
                e = ("b", sign, e, t)
        return ("b", "/", e, ("c", d)), ("b", "%", e, ("c", d)), d

    def cond(self, vars_, cfg, depth=2, boolatoms=()):
        r = self.rng.random()
        if depth > 0 and r < 0.18:
            return ("b", self.rng.choice(["and", "or"]), self.cond(vars_, cfg, depth - 1, boolatoms),
                    self.cond(vars_, cfg, depth - 1, boolatoms))
        if boolatoms and r < 0.24:
            return self.rng.choice(boolatoms)
        if r < 0.62:  # e == c  (what add_fact records)
            e = self.expr(vars_, cfg, self.rng.choice([0, 0, 1, 1, 2]))
            c = ("c", self.rng.choice([0, 0, 0, 1, 2, 3, -1]))
            return ("b", "==", e, c) if self.rng.random() < 0.8 else ("b", "==", c, e)
        if r < 0.70:  # constant conditions (dead branches)
            return ("b", self.rng.choice(["<", ">", "<=", ">=", "=="]), self.const(), self.const())
        op = self.rng.choice(["<", ">", "<=", ">=", "=="])
        return ("b", op, self.expr(vars_, cfg, self.rng.choice([0, 1, 1, 2])),
                self.expr(vars_, cfg, self.rng.choice([0, 0, 1])))


PREC = {"or": 10, "and": 20, "<": 30, ">": 30, "<=": 30, ">=": 30, "==": 30, "+": 40, "-": 40, "*": 50, "/": 50,
        "%": 50}


def show(e, prec=0, cfgname="Cfg") -> str:
    k = e[0]
    if k == "v":
        return e[1]
    if k == "c":
        return str(e[1]) if e[1] >= 0 else "(%d)" % e[1]
    if k == "cfg":
        return "%s.%s" % (cfgname, e[1])
    if k == "bv":
        return e[1]
    if k == "neg":
        return "(-%s)" % show(e[1], 60, cfgname)
    _, op, l, r = e
    s = "%s %s %s" % (show(l, PREC[op], cfgname), op, show(r, PREC[op] + 1, cfgname))
    return "(%s)" % s if PREC[op] < prec else s


def tree_vars(e, acc=None):
    acc = set() if acc is None else acc
    if e[0] == "v":
        acc.add(e[1])
    elif e[0] == "neg":
        tree_vars(e[1], acc)
    elif e[0] == "b":
        tree_vars(e[2], acc)
        tree_vars(e[3], acc)
    return acc


# ======================================================================================= source-text generator
class SrcGen:
    LOOPNAMES = ["i", "j", "i", "ii", "q"]

    def __init__(self, rng: random.Random, uid: str):
        self.rng = rng
        self.uid = uid
        self.eg = ExprGen(rng)

    # ------------------------------------------------------------------ one procedure body
    def body(self, scope, cfg, depth, ind, state, toplevel=False):
        rng = self.rng
        lines = []
        for _ in range(rng.choice([2, 3, 3, 4]) if toplevel else rng.choice([1, 1, 2, 2, 3])):
            lines += self.stmt(scope, cfg, depth, ind, state, toplevel)
        return lines

    def idx_vars(self, scope):
        return [v for v, _ in scope]

    def stmt(self, scope, cfg, depth, ind, state, toplevel):
        rng, eg = self.rng, self.eg
        pad = "    " * ind
        vs = self.idx_vars(scope)
        r = rng.random()
        ba = state["boolatoms"]
        if depth > 1 and r < 0.10:  # loop nest whose inner bounds are / and % of the outer iterator (ranges that
            # straddle multiples of the modulus) and whose body uses / and % of the inner iterator
            oi = rng.choice(["i", "j", "q"])
            ij = rng.choice([n for n in ["j", "ii", "q", "i"] if n != oi])
            olo = rng.choice([0, 0, 1, 2, 3, 5])
            ohi = olo + rng.choice([2, 3, 3, 4, 5])
            m = rng.choice([2, 3, 4, 4, 8])
            k = rng.choice([1, 2, 3, 3, 5, 6, 7])
            o = ("v", oi)
            shapes = [
                ("b", "%", ("b", "+", o, ("c", k)), ("c", m)),
                ("b", "%", ("b", "+", ("b", "*", ("c", rng.choice([2, 3])), o), ("c", k)), ("c", m)),
                ("b", "/", ("b", "+", o, ("c", k)), ("c", rng.choice([2, 3, 4]))),
                ("b", "+", ("b", "%", o, ("c", m)), ("b", "/", o, ("c", m))),
                ("b", "%", ("b", "-", ("c", k + 8), o), ("c", m)),
            ]
            if state["sizes"]:
                shapes.append(("b", "%", ("b", "+", o, ("v", rng.choice(state["sizes"]))), ("c", m)))
            ext = rng.choice(shapes)
            ilo = rng.choice([("c", 0), ("c", 0), ("c", 1), ("b", "%", o, ("c", 2)), ("b", "/", o, ("c", 2))])
            ihi = ext if ilo == ("c", 0) else ("b", "+", ilo, ext)
            d1, d2 = rng.choice([2, 2, 3, 4]), rng.choice([2, 2, 3, 4])
            jv = ("v", ij)
            inner = [(v, t) for v, t in scope if v not in (oi, ij)] + [(oi, "loop"), (ij, "loop")]
            body = ["%s        sink2(%s, %s)" % (pad, show(("b", "%", jv, ("c", d1))), show(("b", "/", jv, ("c", d2)))),
                    "%s        x[%s] += y[%s] * 2.0" % (pad, show(("b", "%", ("b", "+", ("b", "*", ("c", 8), ("b", "/", jv, ("c", d1))),
                                                                  ("b", "%", jv, ("c", d2))), ("c", 64))),
                                                          show(("b", "%", ("b", "+", jv, o), ("c", 64))))]
            if rng.random() < 0.5:
                body += self.body(inner, cfg, depth - 2, ind + 2, state)
            return ["%sfor %s in seq(%d, %d):" % (pad, oi, olo, ohi),
                    "%s    for %s in seq(%s, %s):" % (pad, ij, show(ilo), show(ihi))] + body
        if depth > 0 and r < 0.18:  # shifted / mirrored loop: non-zero lower bound, negative coefficients, and
            # division / modulo numerators that are in range only because of that
            ii = rng.choice([n for n in ["ii", "j", "q", "i"]])
            lo = rng.choice([1, 2, 3, 4, 4, 5])
            w = rng.choice([1, 2, 3, 4, 4, 8])
            xs = [v for v in vs if v != ii]
            inner = [(v, t) for v, t in scope if v != ii] + [(ii, "loop")]
            out = []
            if state["sizes"] and rng.random() < 0.2:  # symbolic lower bound (bounded only by an assertion)
                n = rng.choice(state["sizes"])
                out.append("%sfor %s in seq(%s, %s + %d):" % (pad, ii, n, n, w))
            else:
                out.append("%sfor %s in seq(%d, %d):" % (pad, ii, lo, lo + w))
            for _ in range(rng.choice([1, 2, 2, 3])):
                q1, m1, d1 = eg.shifted(ii, lo, lo + w - 1, xs)
                q2, m2, d2 = eg.shifted(ii, lo, lo + w - 1, xs)
                k = rng.random()
                if k < 0.5:
                    out.append("%s    sink2(%s, %s)" % (pad, show(q1), show(m2)))
                elif k < 0.75:
                    out.append("%s    x[(%s + %d * (%s)) %% 64] = 1.0" % (pad, show(m1), d1, show(q1)))
                else:
                    out.append("%s    if %s == %s:" % (pad, show(q1), show(("v", xs[0]) if xs else ("c", 0))))
                    out.append("%s        sink2(%s, %s)" % (pad, show(m1), show(q2)))
            if rng.random() < 0.3:
                out += self.body(inner, cfg, depth - 1, ind + 1, state)
            return out
        if depth > 0 and r < 0.30:  # loop
            name = rng.choice(self.LOOPNAMES) if rng.random() < 0.7 else rng.choice(vs or ["i"])
            if name in state["args"] and rng.random() < 0.7:
                name = "i"
            bvs = [v for v in vs if v != name]  # a shadowing loop must not mention its own name in its bounds
            k = rng.random()
            if k < 0.40:
                lo = ("c", 0)
            elif k < 0.60:
                lo = ("c", rng.choice([1, 2, 3]))
            elif k < 0.80 and bvs:
                lo = ("v", rng.choice(bvs))
            else:
                lo = eg.affine(bvs, [], rng.choice([1, 2]))
            # the front end must be able to prove lo <= hi: hi = lo + (something non-negative)
            k = rng.random()
            if k < 0.40:
                ext = ("c", rng.choice([0, 1, 2, 4, 4, 8]))
            elif k < 0.62 and state["sizes"]:
                ext = ("v", rng.choice(state["sizes"]))
            elif k < 0.80:
                ext = ("b", "%", eg.expr(bvs, cfg if rng.random() < 0.3 else [], 1), ("c", rng.choice([2, 3, 4, 8])))
            elif state["sizes"]:
                n_ = ("v", rng.choice(state["sizes"]))
                ext = rng.choice([("b", "/", n_, ("c", rng.choice([1, 2, 4]))), ("b", "*", ("c", 2), n_),
                                  ("b", "/", ("b", "+", n_, ("c", 3)), ("c", 4)),
                                  ("b", "/", ("b", "*", ("c", 4), n_), ("c", 2))])
            else:
                ext = ("c", 4)
            if lo == ("c", 0):
                hi = ext
            elif lo[0] == "c" and ext[0] == "c":
                hi = ("c", lo[1] + ext[1])
            else:
                hi = ("b", "+", lo, ext) if rng.random() < 0.7 else ("b", "+", ext, lo)
            head = "%sfor %s in seq(%s, %s):" % (pad, name, show(lo), show(hi))
            inner = [(v, t) for v, t in scope if v != name] + [(name, "loop")]
            return [head] + self.body(inner, cfg, depth - 1, ind + 1, state)
        if depth > 0 and r < 0.52:  # guard
            c = eg.cond(vs, cfg, 2, ba)
            out = ["%sif %s:" % (pad, show(c))] + self.body(scope, cfg, depth - 1, ind + 1, state)
            if rng.random() < 0.4:
                out += ["%selse:" % pad] + self.body(scope, cfg, depth - 1, ind + 1, state)
            return out
        if r < 0.72:  # call: unconstrained index arguments
            return ["%ssink2(%s, %s)" % (pad, show(eg.expr(vs, cfg, rng.choice([1, 2, 2, 3]))),
                                        show(eg.expr(vs, cfg, rng.choice([0, 1, 2]))))]
        if r < 0.88:  # buffer access kept in bounds by a final modulo
            m = rng.choice([8, 16, 64])
            e = ("b", "%", eg.expr(vs, cfg, rng.choice([0, 1, 2])), ("c", m))
            # data-level constants (R): exact dyadic quotients, folded by DoSimplify.cfold as real division
            k = rng.choice(["1.0", "1.0", "3.0 / 2.0", "1.0 / 4.0", "5.0 / 2.0 * 2.0", "(7.0 - 4.0) / 8.0"])
            if rng.random() < 0.5:
                return ["%sx[%s] = %s" % (pad, show(e), k)]
            e2 = ("b", "%", eg.expr(vs, cfg, rng.choice([0, 1])), ("c", 64))
            return ["%sx[%s] += y[%s] * %s" % (pad, show(e), show(e2), rng.choice(["2.0", "2.0", "(3.0 / 2.0)", "0.5"]))]
        if r < 0.92 and toplevel and cfg:  # configuration write (only legal outside loops)
            f = rng.choice(cfg)
            if rng.random() < 0.5:
                return ["%sCfg.%s = %s" % (pad, f, show(eg.expr(vs, [], 1)))]
            # a guard on a configuration field whose body overwrites the field and then reads it
            c0 = rng.choice([0, 0, 1, 2])
            g = "Cfg.%s == %d" % (f, c0) if rng.random() < 0.7 else "%d == Cfg.%s + 0" % (c0, f)
            return ["%sif %s:" % (pad, g),
                    "%s    Cfg.%s = %s" % (pad, f, show(eg.expr(vs, [], 1))),
                    "%s    sink2(Cfg.%s, %s)" % (pad, f, show(eg.expr(vs, cfg, 1)))]
        if r < 0.935:  # window statement (never accessed afterwards; its coordinates are index expressions)
            state["fresh"] += 1
            lo = ("b", "%", eg.expr(vs, cfg, rng.choice([0, 1])), ("c", 8))
            if rng.random() < 0.5:
                hi = ("b", "+", lo, ("c", rng.choice([1, 2, 4])))
            else:
                hi = ("b", "+", ("c", rng.choice([8, 16])), ("b", "%", eg.expr(vs, [], 1), ("c", 4)))
            return ["%sw%d = x[%s:%s]" % (pad, state["fresh"], show(lo), show(hi))]
        if r < 0.96 and state["sizes"]:  # allocation with a size expression
            n = rng.choice(state["sizes"])
            sh = rng.choice(["%s + 1" % n, "2 * %s + 2" % n, "%s * 4 / 2" % n, "%s + 3 - 1" % n,
                             "(8 * %s + 4) / 4" % n, "%s" % n, "%s + %s" % (n, rng.choice(state["sizes"]))])
            state["fresh"] += 1
            return ["%st%d: R[%s]" % (pad, state["fresh"], sh)]
        return ["%spass" % pad]

    # ------------------------------------------------------------------ whole module
    def gen(self, inline=False):
        rng = self.rng
        use_cfg = rng.random() < 0.35
        cfg = ["a"] if use_cfg else []
        sizes = ["n"] if rng.random() < 0.8 else []
        if rng.random() < 0.3:
            sizes.append("m")
        idxargs = ["k"] if rng.random() < 0.5 else []
        boolargs = ["fl"] if rng.random() < 0.2 else []
        args = ["%s: size" % s for s in sizes] + ["%s: index" % s for s in idxargs] + \
               ["%s: bool" % s for s in boolargs] + ["x: R[64]", "y: R[64]"]
        asserts = []
        for s in sizes:
            if rng.random() < 0.4:
                asserts.append(rng.choice(["%s >= 2" % s, "%s <= 5" % s, "%s %% 2 == 0" % s, "%s == 4" % s,
                                           "%s > 1" % s]))
        for s in idxargs:
            k = rng.random()
            if k < 0.3:
                asserts.append("%s >= 0" % s)
            elif k < 0.6:
                asserts += ["%s >= 0" % s, "%s < 8" % s]
            elif k < 0.7 and sizes:
                asserts.append("%s < %s" % (s, sizes[0]))
        boolatoms = [("bv", b) for b in boolargs]
        if use_cfg and rng.random() < 0.4:
            boolatoms.append(("bv", "Cfg.f"))
        state = {"sizes": sizes, "fresh": 0, "args": set(sizes + idxargs), "boolatoms": boolatoms}
        scope = [(s, "size") for s in sizes] + [(s, "index") for s in idxargs]
        hdr = ""
        if use_cfg:
            hdr += "@config\nclass Cfg:\n    a: index\n    f: bool\n\n"
        hdr += "@proc\ndef sink2(a: index, b: index):\n    pass\n\n"
        post = ""
        if inline:
            # callee: index parameters a, b + its own loops named like the caller's
            cstate = {"sizes": [], "fresh": 0, "args": {"a", "b"}, "boolatoms": []}
            cbody = self.body([("a", "index"), ("b", "index")], [], 2, 1, cstate)
            hdr += "@proc\ndef callee(a: index, b: index, x: R[64], y: R[64]):\n" + "\n".join(cbody) + "\n\n"
        lines = ["@proc", "def p(%s):" % ", ".join(args)] + ["    assert " + a for a in asserts]
        body = self.body(scope, cfg, 3, 1, state, toplevel=True)
        if inline:
            # make sure at least one call site exists, inside a loop named like the callee's loops
            vs = self.idx_vars(scope)
            nm = rng.choice(["i", "j"])
            call = "callee(%s, %s, x, y)" % (show(self.eg.affine(vs + [nm], [], rng.choice([1, 2]))),
                                            show(self.eg.affine(vs + [nm], [], 1)))
            body += ["    for %s in seq(0, %d):" % (nm, rng.choice([2, 4, 8])), "        " + call]
            post = "p = inline(p, 'callee(_)')\n"
        src = hdr + "\n".join(lines + body) + "\n" + post
        return {"src": src, "inline": inline}


# ======================================================================================= direct LoopIR generator
class IrGen:
    """returns a description (nested tuples with explicit sym / srcinfo numbers) that c12 builds into LoopIR"""

    NAMES = ["i", "i", "j", "n", "i_1"]

    def __init__(self, rng: random.Random):
        self.rng = rng
        self.eg = ExprGen(rng)

    def gen(self):
        rng = self.rng
        nsyms = 0
        syms = []  # (key, name, kind)

        def new_sym(kind):
            nonlocal nsyms
            nsyms += 1
            nm = rng.choice(self.NAMES)
            syms.append(("s%d" % nsyms, nm, kind))
            return "s%d" % nsyms

        sizes = [new_sym("size") for _ in range(rng.choice([1, 1, 2]))]
        idxs = [new_sym("index") for _ in range(rng.choice([0, 1, 1]))]
        nsrc = rng.choice([1, 2, 3, 6])  # few srcinfo objects -> many structurally equal nodes

        def stmts(scope, depth):
            out = []
            for _ in range(rng.choice([1, 2, 2, 3])):
                r = rng.random()
                if depth > 0 and r < 0.3:
                    it = new_sym("loop")
                    lo = ("c", rng.choice([0, 0, 1, 2]))
                    hi = rng.choice([("c", lo[1] + rng.choice([0, 2, 4, 8])), ("v", rng.choice(sizes)),
                                     self.eg.expr(scope, [], 1)])
                    out.append(("for", it, lo, hi, stmts(scope + [it], depth - 1)))
                elif depth > 0 and r < 0.55:
                    c = self.eg.cond(scope, [], 1)
                    out.append(("if", c, stmts(scope, depth - 1), stmts(scope, depth - 1) if rng.random() < 0.3 else []))
                elif r < 0.95:
                    out.append(("assign", [self.eg.expr(scope, [], rng.choice([1, 2, 2, 3]))
                                           for _ in range(rng.choice([1, 2]))]))
                else:
                    out.append(("pass",))
            return out

        body = stmts(sizes + idxs, 3)
        return {"syms": syms, "sizes": sizes, "idxs": idxs, "body": body, "nsrc": nsrc,
                "srcseed": rng.randrange(1 << 30)}
