"""C14: probe fragments — one or more tiny C fragments per modelled intrinsic, written in the same format-string
language as x86.py's @instr strings, so that the SAME parser/translator (translator/py2coq_x86.py) and the SAME
interpreter (Model.exec_frag, extracted) are validated against the hardware, intrinsic by intrinsic.

A probe = (name, signature, format string, options).  Signature entries mirror py2coq_x86.signature():
  R(name, ety, lanes)   register operand          M(name, ety, len)   DRAM window (len int)
  SC(name, ety)         scalar by reference       S(name)             integer argument ({name} -> C int)
Options: lanes={arg: n}  compare only the first n lanes of a register (ISA-undefined upper lanes);
         div=[args]      operands used as divisors (drawn from +-{1,2,4,8});
         ints={name: [values...]}  value pool for integer arguments;  needs="avx512f"
"""
from __future__ import annotations


def R(name, ety, lanes):
    return dict(name=name, kind="reg", ety=ety, len=lanes, mem="AVX512" if (ety == "F32" and lanes == 16) else "AVX2")


def M(name, ety, ln):
    return dict(name=name, kind="mem", ety=ety, len=ln, mem="DRAM")


def SC(name, ety):
    return dict(name=name, kind="scal", ety=ety, len=1, mem="DRAM")


def S(name):
    return dict(name=name, kind="size", ety=None, len=None, mem=None)


MASK16 = [0, 1, 2, 3, 0x00FF, 0xFF00, 0x8000, 0x7FFF, 0xFFFF, 0x5555, 0xAAAA, 0x10000, 0x1FFFF, 0x12345]
ANYINT = [0, 1, 2, 7, 8, 127, 128, 255, 256, 257, 32767, 32768, 43691, 65535, 65536, 2147483647]
SHIFTS = list(range(0, 41))

PROBES = []


def P(name, sig, fmt, **opt):
    PROBES.append(dict(name="probe_" + name, sig=sig, fmt=fmt, opt=opt))


f8 = lambda *ns: [R(n, "F32", 8) for n in ns]
d4 = lambda *ns: [R(n, "F64", 4) for n in ns]
f16 = lambda *ns: [R(n, "F32", 16) for n in ns]
u16 = lambda *ns: [R(n, "U16", 16) for n in ns]
i32 = lambda *ns: [R(n, "I32", 8) for n in ns]
A512 = dict(needs="avx512f")

P("setzero_ps", f8("o"), "{o_data} = _mm256_setzero_ps();")
P("setzero_pd", d4("o"), "{o_data} = _mm256_setzero_pd();")
P("setzero_ps512", f16("o"), "{o_data} = _mm512_setzero_ps();", **A512)
P("loadu_ps", f8("o") + [M("p", "F32", 8)], "{o_data} = _mm256_loadu_ps(&{p_data});")
P("loadu_pd", d4("o") + [M("p", "F64", 4)], "{o_data} = _mm256_loadu_pd(&{p_data});")
P("loadu_ps512", f16("o") + [M("p", "F32", 16)], "{o_data} = _mm512_loadu_ps(&{p_data});", **A512)
P("loadu_si256", u16("o") + [M("p", "U16", 16)], "{o_data} = _mm256_loadu_si256((const __m256i *) &{p_data});")
P("storeu_ps", [M("p", "F32", 8)] + f8("x"), "_mm256_storeu_ps(&{p_data}, {x_data});")
P("storeu_pd", [M("p", "F64", 4)] + d4("x"), "_mm256_storeu_pd(&{p_data}, {x_data});")
P("storeu_ps512", [M("p", "F32", 16)] + f16("x"), "_mm512_storeu_ps(&{p_data}, {x_data});", **A512)
P("storeu_si256", [M("p", "U16", 16)] + u16("x"), "_mm256_storeu_si256((__m256i *) &{p_data}, {x_data});")
P("fmadd_ps", f8("o", "a", "b", "c"), "{o_data} = _mm256_fmadd_ps({a_data}, {b_data}, {c_data});")
P("fmadd_pd", d4("o", "a", "b", "c"), "{o_data} = _mm256_fmadd_pd({a_data}, {b_data}, {c_data});")
P("fmadd_ps512", f16("o", "a", "b", "c"), "{o_data} = _mm512_fmadd_ps({a_data}, {b_data}, {c_data});", **A512)
P("broadcast_ss", f8("o") + [M("p", "F32", 1)], "{o_data} = _mm256_broadcast_ss(&{p_data});")
P("broadcast_sd", d4("o") + [M("p", "F64", 1)], "{o_data} = _mm256_broadcast_sd(&{p_data});")
P("broadcast_ss_ref", f8("o") + [SC("v", "F32")], "{o_data} = _mm256_broadcast_ss({v_data});")
for op in ("mul", "add", "sub"):
    P(op + "_ps", f8("o", "x", "y"), "{o_data} = _mm256_%s_ps({x_data}, {y_data});" % op)
    P(op + "_pd", d4("o", "x", "y"), "{o_data} = _mm256_%s_pd({x_data}, {y_data});" % op)
P("div_ps", f8("o", "x", "y"), "{o_data} = _mm256_div_ps({x_data}, {y_data});", div=["y"])
P("div_pd", d4("o", "x", "y"), "{o_data} = _mm256_div_pd({x_data}, {y_data});", div=["y"])
P("add_ps512", f16("o", "x", "y"), "{o_data} = _mm512_add_ps({x_data}, {y_data});", **A512)
P("adds_epu16", u16("o", "x", "y"), "{o_data} = _mm256_adds_epu16({x_data}, {y_data});")
P("mulhi_epu16", u16("o", "x", "y"), "{o_data} = _mm256_mulhi_epu16({x_data}, {y_data});")
P("mulhi_epu16_const", u16("o", "x"), "{o_data} = _mm256_mulhi_epu16({x_data}, _mm256_set1_epi16(43691));")
P("srli_epi16_1", u16("o", "x"), "{o_data} = _mm256_srli_epi16({x_data}, 1);")
P("srli_epi16_5", u16("o", "x"), "{o_data} = _mm256_srli_epi16({x_data}, 5);")
P("mask_add_ps", [S("K")] + f16("o", "x", "y"), "{o_data} = _mm512_mask_add_ps({o_data}, {K}, {x_data}, {y_data});",
  ints={"K": MASK16}, **A512)
P("maskz_loadu_ps", [S("K")] + f16("o") + [M("p", "F32", 16)], "{o_data} = _mm512_maskz_loadu_ps({K}, &{p_data});",
  ints={"K": MASK16}, **A512)
P("mask_storeu_ps", [S("K"), M("p", "F32", 16)] + f16("x"), "_mm512_mask_storeu_ps(&{p_data}, {K}, {x_data});",
  ints={"K": MASK16}, **A512)
P("mask_fmadd_ps", [S("K")] + f16("o", "a", "b", "c"), "{o_data} = _mm512_mask_fmadd_ps({a_data}, {K}, {b_data}, {c_data});",
  ints={"K": MASK16}, **A512)
P("max_ps512", f16("o", "x", "y"), "{o_data} = _mm512_max_ps({x_data}, {y_data});", **A512)
P("max_ps512_zero", f16("o", "x"), "{o_data} = _mm512_max_ps({x_data}, (__m512){{0}});", **A512)
P("set1_ps512", f16("o") + [M("p", "F32", 1)], "{o_data} = _mm512_set1_ps({p_data});", **A512)
P("set1_ps", f8("o") + [M("p", "F32", 1)], "{o_data} = _mm256_set1_ps({p_data});")
P("set1_pd", d4("o") + [M("p", "F64", 1)], "{o_data} = _mm256_set1_pd({p_data});")
P("set1_ps_lit", f8("o", "x"), "{o_data} = _mm256_mul_ps({x_data}, _mm256_set1_ps(-1.0f));")
P("set1_pd_lit", d4("o", "x"), "{o_data} = _mm256_mul_pd({x_data}, _mm256_set1_pd(-1.0f));")
P("xor_ps_self", f8("o", "x"), "{o_data} = _mm256_xor_ps({x_data}, {x_data});")
P("initlist", f8("o"), "{{ __m256 ones = {{ 1.0f, 2.0f, 3.0f, 4.0f, 5.0f, 6.0f, 7.0f, 8.0f }}; {o_data} = ones; }}")
P("initlist_short", f8("o"), "{{ __m256 ones = {{ 1.0f, 2.0f }}; {o_data} = ones; }}")
P("blendv_ps_int", f8("o", "a", "b") + i32("m"), "{o_data} = _mm256_blendv_ps({a_data}, {b_data}, _mm256_castsi256_ps({m_data}));")
P("blendv_ps_cmp", f8("o", "a", "b", "x", "y"),
  "{o_data} = _mm256_blendv_ps ({a_data}, {b_data}, _mm256_cmp_ps ({x_data}, {y_data}, _CMP_LT_OQ));")
P("blendv_pd_cmp", d4("o", "a", "b", "x", "y"),
  "{o_data} = _mm256_blendv_pd ({a_data}, {b_data}, _mm256_cmp_pd ({x_data}, {y_data}, _CMP_LT_OQ));")
P("blendv_ps_float", f8("o", "a", "b", "x"), "{o_data} = _mm256_blendv_ps({a_data}, {b_data}, {x_data});", nonzero=["x"])
P("hadd_ps", f8("o", "x", "y"), "{o_data} = _mm256_hadd_ps({x_data}, {y_data});")
P("hadd_pd", d4("o", "x", "y"), "{o_data} = _mm256_hadd_pd({x_data}, {y_data});")
P("extract_cast_ps_hi", f8("o", "x", "y"),
  "{o_data} = _mm256_add_ps(_mm256_castps128_ps256(_mm256_extractf128_ps({x_data}, 1)), {y_data});", lanes={"o": 4})
P("extract_cast_ps_lo", f8("o", "x", "y"),
  "{o_data} = _mm256_add_ps(_mm256_castps128_ps256(_mm256_extractf128_ps({x_data}, 0)), {y_data});", lanes={"o": 4})
P("extract_cast_pd_hi", d4("o", "x", "y"),
  "{o_data} = _mm256_add_pd(_mm256_castpd128_pd256(_mm256_extractf128_pd ({x_data}, 1)), {y_data});", lanes={"o": 2})
P("extract_cast_pd_lo", d4("o", "x", "y"),
  "{o_data} = _mm256_add_pd(_mm256_castpd128_pd256(_mm256_extractf128_pd ({x_data}, 0)), {y_data});", lanes={"o": 2})
P("cvtss_f32", f8("x") + [SC("r", "F32")], "*{r} += _mm256_cvtss_f32({x_data});")
P("cvtsd_f64", d4("x") + [SC("r", "F64")], "*{r} += _mm256_cvtsd_f64({x_data});")
P("cvtps_pd_hi", d4("o") + f8("x"), "{o_data} = _mm256_cvtps_pd(_mm256_extractf128_ps({x_data}, 1));")
P("cvtps_pd_lo", d4("o") + f8("x"), "{o_data} = _mm256_cvtps_pd(_mm256_extractf128_ps({x_data}, 0));")
P("set1_epi8", [S("K"), R("o", "I8", 32)], "{o_data} = _mm256_set1_epi8({K});", ints={"K": ANYINT})
P("set1_epi8_as_epi32", [S("K")] + i32("o"), "{o_data} = _mm256_set1_epi8({K});", ints={"K": ANYINT})
P("set1_epi16", [S("K"), R("o", "I16", 16)], "{o_data} = _mm256_set1_epi16({K});", ints={"K": ANYINT})
P("set1_epi32", [S("K")] + i32("o"), "{o_data} = _mm256_set1_epi32({K});", ints={"K": ANYINT})
P("set_epi32", [S("A"), S("B"), S("C")] + i32("o"), "{o_data} = _mm256_set_epi32({A}, {B}, {C}, 4, 3, 2, 1, 0);",
  ints={"A": ANYINT, "B": ANYINT, "C": ANYINT})
P("shift_mask_expr", [S("N")] + i32("o"), "{o_data} = _mm256_set1_epi32(((1 << {N}) - 1));", ints={"N": SHIFTS})
P("shift_mask_expr8", [S("N")] + i32("o"), "{o_data} = _mm256_set1_epi8((1<<{N}) - 1);", ints={"N": SHIFTS})
P("cmpgt_epi32", i32("o", "x", "y"), "{o_data} = _mm256_cmpgt_epi32({x_data}, {y_data});")
P("prefix_mask", [S("N")] + i32("o"),
  "{{ __m256i indices = _mm256_set_epi32(7, 6, 5, 4, 3, 2, 1, 0); __m256i prefix = _mm256_set1_epi32({N}); "
  "{o_data} = _mm256_cmpgt_epi32(prefix, indices); }}", ints={"N": list(range(0, 12)) + [2147483647]})
P("maskload_ps", f8("o") + [M("p", "F32", 8)] + i32("m"), "{o_data} = _mm256_maskload_ps(&{p_data}, {m_data});")
P("maskstore_ps", [M("p", "F32", 8)] + i32("m") + f8("x"), "_mm256_maskstore_ps(&{p_data}, {m_data}, {x_data});")
P("maskstore_ps_epi8", [S("K"), M("p", "F32", 8)] + f8("x"),
  "__m256i opaque = _mm256_set1_epi8({K});\n_mm256_maskstore_ps(&{p_data}, opaque, {x_data});", ints={"K": ANYINT})
P("prefetch", [M("p", "F32", 1)], "_mm_prefetch(&{p_data}, 3);")
P("reg_copy", f8("o", "x"), "{o_data} = {x_data};")


def intrinsics_covered(translated):
    """intrinsic C name -> list of probe names that call it (from the translator's call lists)."""
    cov = {}
    for I in translated:
        for c in I["calls"]:
            cov.setdefault(c, []).append(I["name"])
    return cov
