"""C02: programs for the implementation-vs-reference execution search.

`C02Gen` extends the shared generator (progen.ProgGen; real Exo source through the real front end) with the shapes the
property text singles out and the shared generator does not produce:
  * instruction procedures (@instr with a hand-written C template whose meaning is its Exo body),
  * `/` and `%` on possibly negative expressions in guards (comp_e's int_div / floor-mod branch, not only comp_cir's),
  * the index argument `kk` (negative where the assertions allow) inside `%`-wrapped index expressions,
  * stride assertions on window arguments (the `_known_strides` folding).
`annotate` applies memory / precision annotations (set_memory, set_precision) the backend accepts;
`schedule` applies 1-3 random accepted scheduling operations (sched.candidates)."""
from __future__ import annotations

import random
import re
import signal

import progen
import sched
from exo.core.LoopIR import LoopIR, T
from exo.core.memory import DRAM
from exo.libs.memories import DRAM_STACK, DRAM_STATIC
import exo.stdlib.scheduling as S

HEADER = progen.HEADER + "from exo.libs.memories import DRAM_STACK, DRAM_STATIC\n"

# (signature, args description in progen's format, body, C template); the C template is written against the
# documented substitution of Compiler.comp_s for instruction calls: {a} = "(compiled argument)", {a_data} = first
# element of a window / the argument itself.
INSTRS = [
    ("vec",
     "n: size, dst: [R][n], src: [R][n]",
     [("n", "size", None), ("dst", "tensor", ["n"]), ("src", "tensor", ["n"])],
     "    for i in seq(0, n):\n        dst[i] = 2.0 * src[i]\n",
     "for (int q_ = 0; q_ < {n}; q_++) {dst}.data[q_ * {dst}.strides[0]] = 2.0f * {src}.data[q_ * {src}.strides[0]];"),
    ("vec",
     "n: size, dst: [R][n], src: [R][n]",
     [("n", "size", None), ("dst", "tensor", ["n"]), ("src", "tensor", ["n"])],
     "    for i in seq(0, n):\n        dst[n - 1 - i] += src[i]\n",
     "for (int q_ = 0; q_ < {n}; q_++) (&{dst_data})[({n} - 1 - q_) * {dst}.strides[0]] += (&{src_data})[q_ * {src}.strides[0]];"),
    ("scalar",
     "s: R, k: index, src: [R][4]",
     [("s", "scalar", None), ("k", "index", None), ("src", "tensor", [4])],
     "    assert k >= 0\n    assert k < 4\n    s = src[k] + 1.0\n",
     "*{s_data} = {src}.data[{k} * {src}.strides[0]] + 1.0f;"),
    ("const",
     "dst: [R][4], src: [R][4]",
     [("dst", "tensor", [4]), ("src", "tensor", [4])],
     "    for i in seq(0, 4):\n        dst[i] = src[3 - i]\n",
     "for (int q_ = 0; q_ < 4; q_++) {dst}.data[q_ * {dst}.strides[0]] = {src}.data[(3 - q_) * {src}.strides[0]];"),
    ("mat",
     "n: size, dst: [R][n, 2], src: [R][2, n]",
     [("n", "size", None), ("dst", "tensor", ["n", 2]), ("src", "tensor", [2, "n"])],
     "    for i in seq(0, n):\n        for j in seq(0, 2):\n            dst[i, j] = src[j, i]\n",
     "for (int q_ = 0; q_ < {n}; q_++) for (int r_ = 0; r_ < 2; r_++) "
     "{dst}.data[q_ * {dst}.strides[0] + r_ * {dst}.strides[1]] = {src}.data[r_ * {src}.strides[0] + q_ * {src}.strides[1]];"),
]


class C02Gen(progen.ProgGen):
    def __init__(self, rng, uid="", features=None):
        f = {"instr": 0.3, "cond_divmod": 0.35, "kk_in_index": 0.6, "stride_assert": 0.3, "gen_names": 0.35, "prec_config": 0.4}
        f.update(features or {})
        super().__init__(rng, uid, f)
        self.used_instr = False

    def subproc(self):
        if self.p("instr"):
            shape, sig, args, body, ctempl = self.rng.choice(INSTRS)
            nm = self.name("ins" + self.uid)
            src = '@instr("%s")\ndef %s(%s):\n%s' % (ctempl, nm, sig, body)
            self.subprocs.append({"name": nm, "args": args, "src": src, "instr": True})
            self.used_instr = True
            return src
        return super().subproc()

    def cond(self, env, ctx):
        if self.p("cond_divmod") and (env or ctx["idxargs"]):
            rng = self.rng
            base = self.affine(env) if env else "0"
            if ctx["idxargs"] and rng.random() < 0.5:
                base = "%s %s %s" % (base, rng.choice(["+", "-"]), rng.choice(ctx["idxargs"]))
            c = rng.choice([2, 3, 4])
            if rng.random() < 0.5:
                return "(%s) / %d %s %d" % (base, c, rng.choice(["<", "==", ">=", "<="]), rng.randint(-2, 1))
            return "(%s) %% %d %s %d" % (base, c, rng.choice(["==", "<", ">"]), rng.randint(0, c - 1))
        return super().cond(env, ctx)

    def main(self, name="foo"):
        src = super().main(name)
        lines = src.split("\n")
        sig = lines[1]
        rng = self.rng
        if "kk: index" in sig and self.p("kk_in_index"):
            # the index argument inside `%`-wrapped index expressions: in range for every value of kk
            def repl(m):
                if rng.random() < 0.5:
                    return m.group(0)
                return "(%s %s %skk) %% %s" % (m.group(1), rng.choice(["+", "-"]), rng.choice(["", "2 * "]), m.group(2))
            lines[2:] = [re.sub(r"\(([^()]*)\) % (\d+)", repl, l) for l in lines[2:]]
        if self.p("stride_assert"):
            m = re.search(r"(\w+): \[R\]\[([^\]]*)\]", sig)
            if m:
                nd = m.group(2).count(",") + 1
                lines.insert(2, "    assert stride(%s, %d) == 1" % (m.group(1), nd - 1))
        return "\n".join(lines)

    def module(self, name="foo") -> str:
        if self.p("gen_names"):
            self.f["shadow"] = max(self.f["shadow"], 0.5)
        s = super().module(name)
        s = s.replace(progen.HEADER, HEADER, 1)
        if self.p("prec_config"):
            s = self.add_precision_config(s, name)
        if self.f["shadow"] >= 0.5:
            # user variables that look like the identifiers the backend generates when it disambiguates (i_1, i_2, ...)
            # next to shadowed `i`s: new_varname must skip them
            for old, new in (("j", "i_1"), ("k", "i_2"), ("ii", "i_1_1")):
                s = re.sub(r"(?<![\w.])%s(?![\w])" % old, new, s)
        return s


PREC_LITERALS = {
    "scale": ["0.1", "0.3", "0.001", "0.7", "2.5", "1.0 / 3.0", "0.1 * 3.0", "-0.1"],          # f64 field
    "count": ["16777217", "33554433", "16777219", "50331651", "5", "-16777217"],              # i32 field
    "gain": ["0.5", "3.0", "0.1", "0.25"],                                                     # f32 field
}


def _add_precision_config(self, src, name):
    """a configuration with f64 / i32 / f32 fields and literal writes to them at the start of the main procedure: the
    context struct must end up with the FIELD-precision value of each literal (double 0.1, the i32 2**24 + 1)"""
    rng = self.rng
    cn = "CfgP" + self.uid
    marker = "@proc\ndef %s(" % name
    k = src.rfind(marker)
    if k < 0:
        return src
    head, main = src[:k], src[k:]
    lines = main.split("\n")
    j = 2
    while j < len(lines) and lines[j].startswith("    assert "):
        j += 1
    writes = []
    for fld in rng.sample(["scale", "count", "gain"], rng.randint(1, 3)):
        writes.append("    %s.%s = %s" % (cn, fld, rng.choice(PREC_LITERALS[fld])))
    lines[j:j] = writes
    cls = "@config\nclass %s:\n    scale: f64\n    count: i32\n    gain: f32\n\n" % cn
    return head + cls + "\n".join(lines)


class OpTimeout(Exception):
    pass


C02Gen.add_precision_config = _add_precision_config


def _alarm(signum, frame):
    raise OpTimeout()


def with_timeout(thunk, seconds=20):
    old = signal.signal(signal.SIGALRM, _alarm)
    signal.alarm(seconds)
    try:
        return thunk()
    finally:
        signal.alarm(0)
        signal.signal(signal.SIGALRM, old)


def _allocs(ir_stmts, acc):
    for s in ir_stmts:
        if isinstance(s, LoopIR.Alloc):
            acc.append(s)
        elif isinstance(s, LoopIR.For):
            _allocs(s.body, acc)
        elif isinstance(s, LoopIR.If):
            _allocs(s.body, acc)
            _allocs(s.orelse, acc)
    return acc


def has_calls(ir_stmts) -> bool:
    for s in ir_stmts:
        if isinstance(s, LoopIR.Call):
            return True
        if isinstance(s, LoopIR.For) and has_calls(s.body):
            return True
        if isinstance(s, LoopIR.If) and (has_calls(s.body) or has_calls(s.orelse)):
            return True
    return False


def has_par(ir_stmts) -> bool:
    for s in ir_stmts:
        if isinstance(s, LoopIR.For) and (isinstance(s.loop_mode, LoopIR.Par) or has_par(s.body)):
            return True
        if isinstance(s, LoopIR.If) and (has_par(s.body) or has_par(s.orelse)):
            return True
    return False


def annotate(p, rng: random.Random):
    """memory and precision annotations; returns (procedure, [descriptions])"""
    notes = []
    ir = p._loopir_proc
    counts = {}
    for a in _allocs(ir.body, []):
        nm = str(a.name)
        k = counts.get(nm, 0)
        counts[nm] = k + 1
        shape = a.type.shape() if a.type.is_tensor_or_window() else []
        const_shape = bool(shape) and all(isinstance(d, LoopIR.Const) for d in shape)
        if const_shape and rng.random() < 0.6:
            # a static buffer inside a parallel loop is shared between threads (memories.py says so itself): that is a
            # data race of the annotation, not a lowering error, so DRAM_STATIC is only chosen in sequential procedures
            mem = rng.choice([DRAM_STACK] if has_par(ir.body) else [DRAM_STACK, DRAM_STATIC])
            try:
                p = S.set_memory(p, "%s:_ #%d" % (nm, k), mem)
                notes.append("set_memory(%s #%d, %s)" % (nm, k, mem.name()))
            except Exception as e:  # refusal of the annotation is allowed
                notes.append("set_memory refused: %s" % type(e).__name__)
    # precision: a single precision for every numeric argument and allocation keeps PrecisionAnalysis happy;
    # callees are typed R (= f32 by default), so procedures with calls stay at f32
    if not has_calls(ir.body) and rng.random() < 0.5:
        prec = rng.choice(["f64", "i32", "f64", "f32"])
        try:
            q = p
            for a in ir.args:
                if a.type.is_numeric():
                    q = S.set_precision(q, str(a.name), prec)
            counts = {}
            for a in _allocs(ir.body, []):
                nm = str(a.name)
                k = counts.get(nm, 0)
                counts[nm] = k + 1
                q = S.set_precision(q, "%s:_ #%d" % (nm, k), prec)
            p = q
            notes.append("set_precision(all, %s)" % prec)
        except Exception as e:
            notes.append("set_precision refused: %s" % type(e).__name__)
    return p, notes


# operations that do not change the code the backend sees in an interesting way, or that are slow
SKIP_OPS = {"rename"}


def schedule(p, rng: random.Random, cfgs, n_ops: int):
    """apply up to n_ops random accepted operations; returns (procedure, [(op, descr)])"""
    applied = []
    for _ in range(n_ops):
        try:
            cands = with_timeout(lambda: sched.candidates(p, random.Random(rng.randrange(1 << 30)), configs=cfgs), 30)
        except Exception:
            break
        cands = [c for c in cands if c[0] not in SKIP_OPS]
        rng.shuffle(cands)
        done = False
        for op, descr, thunk in cands[:25]:
            try:
                q = with_timeout(thunk, 20)
            except OpTimeout:
                continue
            except Exception:
                continue
            if q is None or not hasattr(q, "_loopir_proc"):
                continue
            p = q
            applied.append((op, descr))
            done = True
            break
        if not done:
            break
    return p, applied
