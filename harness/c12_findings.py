"""Genuine defects of /repo found by the C12 engine.  Proposed entries for /verif/known_findings.json; until the lead
moves them there (or repairs /repo), props/C12.py appends them to ck.known so that the unchanged tree reports
KNOWN-FINDING lines.  `match_key` is matched against the violation key produced by the search.

History: "C12-quotient-remainder-names" (DoSimplify.is_quotient_remainder compared printed operands, identifying two
distinct variables with one name: `x[i % 4 + 4 * (i_1 / 4)]` -> `x[i]`) was found by this engine and repaired in /repo
("fix: simplify's quotient-remainder rule must not identify distinct variables by name"); its witness now lives in
c12_corpus.py and must pass."""

FINDINGS = []
