"""C07 correspondence driver for the PyHeap model (runs in a subprocess with common.exo_env()).

usage: c07_heapcorr.py <seed> <n_procs> <edits_per_proc> <out.json>

For generated procedures it applies the REAL atomic edits of exo/core/internal_cursors.py
(Block._replace / _delete / _wrap / _move, Gap._insert, Node._replace) at random positions and records
  * the object heap before the edit (every LoopIR node and list reachable from the root and from the arguments
    of the edit), objects numbered 0..n-1,
  * the edit in the vocabulary of coq/Purity/Model.v (`edit`),
  * the *sharing signature* of the result: a pre-order walk of the new tree that says for every reference whether
    it is an OLD object (and which one) or a NEW one (numbered by first visit), with the class of new nodes and the
    length of new lists.  The same walk is done in Coq on `apply_heap edit heap root` (harness/props/C07.py).
It also checks directly that no object of the old heap changed (ids of nodes, lists and list elements)."""
from __future__ import annotations

import json
import os
import random
import sys

sys.setrecursionlimit(20000)
sys.path.insert(0, os.path.dirname(os.path.abspath(__file__)))

import attrs  # noqa: E402
import progen  # noqa: E402
import c07_templates as TT  # noqa: E402
from exo.API import Procedure  # noqa: E402
from exo.core import internal_cursors as IC  # noqa: E402
from exo.core.LoopIR import LoopIR, T  # noqa: E402

ATTR, CLS = {}, {}


def attr_id(a):
    return ATTR.setdefault(a, len(ATTR))


def cls_id(c):
    return CLS.setdefault(c, len(CLS))


def is_node(x):
    return attrs.has(type(x))


class Heap:
    def __init__(self):
        self.objs = []      # python objects, position = loc
        self.loc = {}       # id -> loc

    def add(self, x):
        """register x and everything reachable (nodes and lists only)"""
        if not (is_node(x) or isinstance(x, list)) or id(x) in self.loc:
            return
        self.loc[id(x)] = len(self.objs)
        self.objs.append(x)
        if isinstance(x, list):
            for e in x:
                self.add(e)
        else:
            for a in attrs.fields(type(x)):
                self.add(getattr(x, a.name))

    def val(self, v):
        if (is_node(v) or isinstance(v, list)) and id(v) in self.loc:
            return self.loc[id(v)]
        return None

    def export(self):
        out = []
        for x in self.objs:
            if isinstance(x, list):
                out.append(["L", [self.val(e) for e in x]])
            else:
                out.append(["N", cls_id(type(x).__name__), [[attr_id(a.name), self.val(getattr(x, a.name))]
                                                           for a in attrs.fields(type(x))]])
        return out

    def snapshot(self):
        snap = []
        for x in self.objs:
            if isinstance(x, list):
                snap.append((id(x), tuple(id(e) for e in x)))
            else:
                snap.append((id(x), tuple(id(getattr(x, a.name)) for a in attrs.fields(type(x)))))
        return snap


def signature(heap: Heap, root):
    """token list; must agree with `sig` in the generated Coq file"""
    toks = []
    seen = {}

    def walk(v):
        if not (is_node(v) or isinstance(v, list)):
            toks.append(9)
            return
        if id(v) in heap.loc:
            toks.extend([0, heap.loc[id(v)]])
            return
        if id(v) in seen:
            toks.extend([3, seen[id(v)]])
            return
        i = len(seen)
        seen[id(v)] = i
        if isinstance(v, list):
            toks.extend([2, i, len(v)])
            for e in v:
                walk(e)
            toks.append(8)
        else:
            toks.extend([1, cls_id(type(v).__name__), i])
            for a in attrs.fields(type(v)):
                w = getattr(v, a.name)
                if is_node(w) or isinstance(w, list):
                    walk(w)
            toks.append(8)

    walk(root)
    return toks


def blocks_of(root):
    """all (anchor path, attr, list) with a list-valued attribute, found by walking the tree"""
    out = []

    def walk(n, path):
        for a in attrs.fields(type(n)):
            v = getattr(n, a.name)
            if a.name == "srcinfo":
                continue
            if isinstance(v, list):
                if a.name in ("body", "orelse", "idx", "args", "hi", "preds"):
                    out.append((list(path), a.name, v))
                for i, e in enumerate(v):
                    if is_node(e) and not isinstance(e, LoopIR.proc):
                        walk(e, path + [(a.name, i)])
            elif is_node(v) and not isinstance(v, LoopIR.proc) and a.name not in ("f",):
                walk(v, path + [(a.name, None)])

    walk(root, [])
    return out


def enc_path(p):
    return [[attr_id(a), i] for a, i in p]


def one_edit(rng, root):
    """returns (kind, thunk performing the real edit, model edit description, extra objects to put in the heap)"""
    blocks = blocks_of(root)
    stmt_blocks = [b for b in blocks if b[1] in ("body", "orelse") and len(b[2]) > 0 and b[0] != [] or b[1] == "body"]
    stmt_blocks = [b for b in stmt_blocks if b[1] in ("body", "orelse") and len(b[2]) > 0]
    expr_blocks = [b for b in blocks if b[1] in ("idx", "args", "hi") and len(b[2]) > 0]
    info = root.srcinfo
    kind = rng.choice(["replace", "replace", "delete", "insert", "insert", "wrap", "move", "move", "node", "replace_expr"])
    rootc = IC.Node(root, [])

    def blk(b, lo, hi):
        return IC.Block(root, IC.Node(root, list(b[0])), b[1], range(lo, hi))

    if kind in ("replace", "delete", "wrap", "move"):
        b = rng.choice(stmt_blocks)
        n = len(b[2])
        lo = rng.randrange(n)
        hi = rng.randint(lo + 1, n)
        if kind == "replace":
            new = [LoopIR.Pass(info) for _ in range(rng.choice([0, 1, 2]))] + ([rng.choice(b[2])] if rng.random() < 0.4 else [])
            if not new and lo == 0 and hi == n:
                new = [LoopIR.Pass(info)]
            return kind, (lambda: blk(b, lo, hi)._replace(new)), \
                {"k": "EReplaceBlock", "anchor": enc_path(b[0]), "attr": attr_id(b[1]), "lo": lo, "hi": hi, "nodes": new}, new
        if kind == "delete":
            return kind, (lambda: blk(b, lo, hi)._delete()), \
                {"k": "EDelete", "anchor": enc_path(b[0]), "attr": attr_id(b[1]), "lo": lo, "hi": hi, "pass_cls": cls_id("Pass")}, []
        if kind == "wrap":
            if rng.random() < 0.5:
                cond = LoopIR.Const(True, T.bool, info)
                empty = []
                ctor = lambda body: LoopIR.If(cond, body, empty, info)  # noqa: E731
                fs = [("cond", cond), ("body", None), ("orelse", empty), ("srcinfo", None)]
                cname = "If"
                extra = [cond, empty]
            else:
                from exo.core.prelude import Sym
                lo_e, hi_e, mode = LoopIR.Const(0, T.index, info), LoopIR.Const(2, T.index, info), LoopIR.Seq()
                it = Sym("w")
                ctor = lambda body: LoopIR.For(it, lo_e, hi_e, body, mode, info)  # noqa: E731
                fs = [("iter", None), ("lo", lo_e), ("hi", hi_e), ("body", None), ("loop_mode", mode), ("srcinfo", None)]
                cname = "For"
                extra = [lo_e, hi_e, mode]
            return kind, (lambda: blk(b, lo, hi)._wrap(ctor, "body")), \
                {"k": "EWrap", "anchor": enc_path(b[0]), "attr": attr_id(b[1]), "lo": lo, "hi": hi, "cls": cls_id(cname),
                 "fs": [[attr_id(a), v] for a, v in fs], "wrap_attr": attr_id("body")}, extra
        # move
        g = rng.choice(stmt_blocks)
        gi = rng.randrange(len(g[2]))
        after = rng.random() < 0.5
        gpath = list(g[0]) + [(g[1], gi)]
        gap = IC.Gap(root, IC.Node(root, gpath), IC.GapType.After if after else IC.GapType.Before)
        return kind, (lambda: blk(b, lo, hi)._move(gap)), \
            {"k": "EMove", "anchor": enc_path(b[0]), "attr": attr_id(b[1]), "lo": lo, "hi": hi, "gap_anchor": enc_path(gpath),
             "gap_after": after, "pass_cls": cls_id("Pass")}, []
    if kind == "insert":
        g = rng.choice(stmt_blocks)
        gi = rng.randrange(len(g[2]))
        after = rng.random() < 0.5
        gpath = list(g[0]) + [(g[1], gi)]
        new = [LoopIR.Pass(info) for _ in range(rng.choice([1, 2]))]
        gap = IC.Gap(root, IC.Node(root, gpath), IC.GapType.After if after else IC.GapType.Before)
        return kind, (lambda: gap._insert(new)), \
            {"k": "EInsert", "anchor": enc_path(gpath), "after": after, "stmts": new}, new
    if kind == "replace_expr" and expr_blocks:
        b = rng.choice(expr_blocks)
        n = len(b[2])
        lo = rng.randrange(n)
        hi = rng.randint(lo + 1, n)
        new = [rng.choice(b[2]) for _ in range(hi - lo)] if b[1] != "hi" else list(b[2][lo:hi])
        return kind, (lambda: blk(b, lo, hi)._replace(new)), \
            {"k": "EReplaceBlock", "anchor": enc_path(b[0]), "attr": attr_id(b[1]), "lo": lo, "hi": hi, "nodes": new}, new
    # single node replacement at an expression position (rhs / cond / lo / hi)
    cands = []

    def walk(n, path):
        for a in attrs.fields(type(n)):
            v = getattr(n, a.name)
            if isinstance(v, list):
                for i, e in enumerate(v):
                    if is_node(e) and not isinstance(e, LoopIR.proc):
                        walk(e, path + [(a.name, i)])
            elif is_node(v) and a.name in ("rhs", "cond", "lo", "hi", "lhs") and isinstance(v, LoopIR.expr):
                cands.append((path + [(a.name, None)], v))
                walk(v, path + [(a.name, None)])

    walk(root, [])
    if not cands:
        return one_edit(rng, root)
    p, old = rng.choice(cands)
    new = rng.choice(cands)[1] if rng.random() < 0.5 else LoopIR.Const(1, old.type, info)
    if type(new.type) is not type(old.type):
        new = LoopIR.Const(1, old.type, info)
    return "node", (lambda: IC.Node(root, list(p))._replace(new)), \
        {"k": "EReplaceNode", "p": enc_path(p), "new": new}, [new]


def main():
    seed, n_procs, per_proc, out_path = int(sys.argv[1]), int(sys.argv[2]), int(sys.argv[3]), sys.argv[4]
    rng = random.Random(seed)
    cases = []
    stats = {"procs": 0, "edits": 0, "raised": 0, "old_heap_changed": 0, "by_kind": {}}
    for k in range(n_procs):
        if rng.random() < 0.5:
            src = TT.instance(rng, rng.randrange(100))
        else:
            src = progen.ProgGen(random.Random(rng.getrandbits(40)), "hc%d" % k).module()
        mod, err = progen.load_module(src, tag="c07h")
        if mod is None or not isinstance(getattr(mod, "foo", None), Procedure):
            continue
        root = mod.foo._loopir_proc
        stats["procs"] += 1
        group = {"src": src.split("@proc")[-1][:400], "edits": []}
        # one heap per procedure: the tree plus the argument objects of all its edits
        plans = []
        for _ in range(per_proc):
            try:
                plans.append(one_edit(rng, root))
            except Exception as e:  # generator slip
                stats.setdefault("plan_errors", 0)
                stats["plan_errors"] += 1
        heap = Heap()
        heap.add(root)
        for kind, thunk, desc, extra in plans:
            for x in extra:
                heap.add(x)
        group["heap"] = heap.export()
        group["root"] = heap.loc[id(root)]
        before = heap.snapshot()
        for kind, thunk, desc, extra in plans:
            d = dict(desc)
            for key in ("nodes", "stmts"):
                if key in d:
                    d[key] = [heap.val(x) for x in d[key]]
            if "new" in d:
                d["new"] = heap.val(d["new"])
            if "fs" in d:
                d["fs"] = [[a, heap.val(v) if v is not None else None] for a, v in d["fs"]]
            try:
                res = thunk()
                new_root = res[0]
                sig = signature(heap, new_root)
            except Exception as e:
                sig = [77]
                d["exc"] = "%s: %s" % (type(e).__name__, str(e)[:100])
                stats["raised"] += 1
            if heap.snapshot() != before:
                stats["old_heap_changed"] += 1
                d["old_heap_changed"] = True
                before = heap.snapshot()
            stats["edits"] += 1
            stats["by_kind"][kind] = stats["by_kind"].get(kind, 0) + 1
            group["edits"].append({"kind": kind, "edit": d, "sig": sig})
        cases.append(group)
    json.dump({"cases": cases, "stats": stats, "attrs": ATTR, "classes": CLS}, open(out_path, "w"))


if __name__ == "__main__":
    main()
