#!/venv/bin/python
"""C15 mutation testing: each mutation edits the backend in a detached git worktree of /repo under /tmp, runs
`EXO_REPO=<worktree> check.py C15 --quick`, and reports what the check says (broken obligations, violation signatures)
relative to the baseline (the unchanged tree, whose known defects already produce violations until they are listed in
known_findings.json).  The worktree is removed and coq/Annot/Gen_Rules.v regenerated from /repo afterwards.
usage: c15_mutate.py [names...]"""
import json
import os
import subprocess
import sys
import time
from pathlib import Path

VERIF = Path(__file__).resolve().parent.parent
WT = Path("/tmp/c15_mut")
PREC = "src/exo/backend/prec_analysis.py"
MEM = "src/exo/backend/mem_analysis.py"
WIN = "src/exo/backend/win_analysis.py"
COMP = "src/exo/backend/LoopIR_compiler.py"
LIR = "src/exo/core/LoopIR.py"


def rep(old, new, n=1):
    def f(s):
        assert s.count(old) >= n, old
        i = -1
        for _ in range(n):
            i = s.index(old, i + 1)
        return s[:i] + new + s[i + len(old):]
    return f


BINOP_ERR = '''                self.err(
                    e,
                    f"cannot compute operation '{e.op}' between "
                    f"inconsistent precision types: "
                    f"{lhs.type} and {rhs.type}",
                )
                typ = T.err
'''

MUTATIONS = [
    ("baseline", None, None),
    ("prec_binop_mixed_not_an_error", PREC, rep(BINOP_ERR, "                typ = lhs.type\n")),
    ("prec_call_site_check_removed", PREC, rep("if st.is_numeric() and st != ct:", "if st.is_numeric() and st != ct and False:")),
    ("mem_issubclass_swapped", MEM, rep("if not issubclass(cmem, smem):", "if not issubclass(smem, cmem):")),
    ("mem_call_check_removed", MEM, rep("if not issubclass(cmem, smem):", "if False:")),
    ("win_accepts_window_for_tensor", WIN, rep('raise TypeError(f"{a.srcinfo}: expected a non-window tensor")', "pass")),
    ("can_read_gate_removed", COMP, rep("if not mem.can_read():", "if False:")),
    ("nonconst_misses_callee_writes", LIR, rep("if call_arg.name in writes_in_subproc:", "if False:")),
    ("window_struct_constness_flipped", COMP, rep("is_const = typ.src_buf not in self.non_const", "is_const = typ.src_buf in self.non_const")),
    ("callee_window_constness_ignored", COMP, rep("is_const = callee_buf not in set(", "is_const = callee_buf in set(")),
    # harmless refactorings: must look exactly like the baseline
    ("HARMLESS_messages_and_comments", PREC, lambda s: s.replace("inconsistent precision types: ", "precision types that differ: ").replace(
        "# check call arguments for precision consistency...", "# precision of every actual against its formal")),
    ("HARMLESS_mem_message", MEM, lambda s: s.replace('f"argument in {smem.name()} but got an "', 'f"argument in {smem.name()} but got an "  # unchanged text')),
]


def sh(cmd, **kw):
    return subprocess.run(cmd, shell=isinstance(cmd, str), stdout=subprocess.PIPE, stderr=subprocess.STDOUT, text=True, **kw)


def signature(key):
    return key.rsplit(":", 1)[0]


def main():
    want = set(sys.argv[1:])
    os.chdir("/")
    sh("git -C /repo worktree remove --force %s" % WT)
    r = sh("git -C /repo worktree add --detach %s" % WT)
    if r.returncode != 0:
        print(r.stdout)
        return 2
    # the worktree is HEAD; bring over uncommitted changes of the working tree for the files we touch
    for f in (PREC, MEM, WIN, COMP, LIR, "src/exo/libs/memories.py", "src/exo/core/memory.py", "src/exo/rewrite/LoopIR_scheduling.py"):
        (WT / f).write_text((Path("/repo") / f).read_text())
    res_path = VERIF / ".scratch" / "c15_mutation_results.json"
    results = json.loads(res_path.read_text()) if res_path.exists() else {}
    try:
        for name, path, fn in MUTATIONS:
            if want and name not in want:
                continue
            orig = None
            if fn is not None:
                orig = (WT / path).read_text()
                txt = fn(orig)
                assert txt != orig, name
                (WT / path).write_text(txt)
            t0 = time.time()
            r = sh(["/venv/bin/python", str(VERIF / "harness" / "check.py"), "C15", "--quick"],
                   env=dict(os.environ, EXO_REPO=str(WT)), cwd=str(VERIF))
            ev = json.loads((VERIF / "evidence" / "C15.json").read_text())
            keys = []
            for f in sorted((VERIF / "replays").glob("C15-*.json")):
                d = json.loads(f.read_text())
                if f.stat().st_mtime >= t0:
                    keys.append(d.get("key") or "BROKEN(no input): " + ", ".join(b["name"] for b in d.get("no_longer_checks", [])))
            results[name] = dict(rc=r.returncode, wall=round(time.time() - t0), broken=[b["name"] for b in ev["coverage"]["broken"]],
                                 keys=sorted(keys), sigs=sorted(set(signature(k) for k in keys)),
                                 streams={k: (v.get("agree"), v.get("diverge")) for k, v in ev["coverage"]["correspondence"].items()},
                                 tail=r.stdout.splitlines()[-4:])
            print("== %s: rc=%d %ds\n   broken: %s\n   violation signatures: %s\n   streams: %s" % (
                name, r.returncode, results[name]["wall"], results[name]["broken"], results[name]["sigs"], results[name]["streams"]), flush=True)
            if orig is not None:
                (WT / path).write_text(orig)
            res_path.write_text(json.dumps(results, indent=1))
    finally:
        os.chdir("/")
        sh("git -C /repo worktree remove --force %s" % WT)
        sh(["/venv/bin/python", "gen.py"], cwd=str(VERIF / "coq" / "Annot"), env=dict(os.environ, PYTHONPATH="/repo/src", EXO_REPO="/repo"))
    base = results.get("baseline")
    if base:
        for name, r in results.items():
            if name == "baseline":
                continue
            new = sorted(set(r["sigs"]) - set(base["sigs"])) + sorted(set(r["broken"]) - set(base["broken"]))
            print("%-36s %s  new: %s" % (name, "CAUGHT" if new else ("quiet (as intended)" if name.startswith("HARMLESS") else "MISSED"), new))
    return 0


if __name__ == "__main__":
    sys.exit(main())
