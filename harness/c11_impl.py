"""Runs C11 jobs against the REAL exo.core.proc_eqv (subprocess of harness/props/C11.py).

Same job language and output format as coq/Eqv/driver.ml, plus the item (drop p): the driver
forgets its only reference to procedure p and runs gc.collect() (the union-find maps are weak).

  python c11_impl.py run    < jobs > tokens         one output line per job
  python c11_impl.py search DEPTH NPROCS NKEYS      exhaustive DFS over histories, closure oracle
"""
import gc
import importlib
import json
import sys
import weakref

import exo.core.proc_eqv as pe

import c11_oracle as orc


class P:
    """A stand-in procedure: hashable by identity and weak-referenceable, which is all proc_eqv needs."""
    __slots__ = ("i", "__weakref__")

    def __init__(self, i):
        self.i = i

    def __repr__(self):
        return "P%d" % self.i


def fresh_module():
    global pe
    pe = importlib.reload(pe)


def parse(line):
    toks = line.replace("(", " ( ").replace(")", " ) ").split()
    pos = 0

    def rd():
        nonlocal pos
        t = toks[pos]
        pos += 1
        if t == "(":
            out = []
            while toks[pos] != ")":
                out.append(rd())
            pos += 1
            return out
        return int(t) if t.lstrip("-").isdigit() else t

    return rd()


# ---------------------------------------------------------------- snapshots (for non-threaded sweeps)
def _ufs():
    """Every _UnionFind reachable from the module globals: name -> uf | dict key -> uf."""
    out = {}
    for name, v in vars(pe).items():
        if isinstance(v, pe._UnionFind):
            out[name] = v
        elif isinstance(v, dict) and all(isinstance(x, pe._UnionFind) for x in v.values()):
            out[name] = v
    return out


def snapshot():
    """State of every union-find of the module.  Object identity is part of the state: two keys (or two of the module's
    tables) that are the SAME object must still be the same object after restore(), otherwise taking a snapshot around
    every sweep would silently repair a sharing defect in the implementation."""
    snap = {}
    for name, v in _ufs().items():
        if isinstance(v, dict):
            snap[name] = ("dict", [(k, id(u), list(u.lookup.items())) for k, u in v.items()])
        else:
            snap[name] = ("uf", id(v), list(v.lookup.items()))
    return snap


def _mk(items, ident, made):
    if ident in made:
        return made[ident]
    u = made[ident] = pe._UnionFind()
    for k, v in items:
        u.lookup[k] = v
    return u


def restore(snap):
    made = {}
    for name, ent in snap.items():
        if ent[0] == "uf":
            setattr(pe, name, _mk(ent[2], ent[1], made))
        else:
            d = getattr(pe, name)
            d.clear()
            for k, ident, items in ent[1]:
                d[k] = _mk(items, ident, made)


# ---------------------------------------------------------------- one job
class Job:
    def __init__(self):
        fresh_module()
        self.objs = {}       # id -> P (strong refs; the only ones outside the module)
        self.refs = {}       # id -> weakref
        self.collected = 0
        self.dropped = 0

    def obj(self, i):
        o = self.objs.get(i)
        if o is None:
            o = self.objs[i] = P(i)
            self.refs[i] = weakref.ref(o)
        return o

    @staticmethod
    def call(f, *a):
        try:
            return f(*a)
        except KeyError:
            return "KE"
        except AssertionError:
            return "AE"
        except Exception as e:  # anything else is reported verbatim
            return "X:" + type(e).__name__

    @staticmethod
    def fs(K):
        return frozenset(K)

    def show_uf(self, uf):
        ent = sorted((a.i, b.i) for a, b in uf.lookup.items())
        return ",".join("%d>%d" % e for e in ent)

    def dump(self):
        try:
            kd = list(pe._UF_Unv_key.items())
            return "D:u=%s;s=%s;ord=%s;%s" % (
                self.show_uf(pe._UF_Unv), self.show_uf(pe._UF_Strict),
                ",".join(str(k) for k, _ in kd),
                ";".join("k%d=%s" % (k, self.show_uf(u)) for k, u in sorted(kd, key=lambda x: x[0])))
        except Exception as e:
            return "D:?" + type(e).__name__

    def sweep(self, procs, keys):
        snap = snapshot()
        subs = orc.subsets(keys)
        objs = [self.obj(p) for p in procs]
        out = []
        for a in objs:
            for b in objs:
                for K in subs:
                    r = self.call(pe.check_eqv_proc, a, b, self.fs(K))
                    out.append("T" if r is True else "F" if r is False else "E" if r == "KE" else "?")
        out.append("|")
        for a in objs:
            for b in objs:
                r = self.call(pe.get_strictest_eqv_proc, a, b)
                if isinstance(r, tuple):
                    out.append(("T" if r[0] else "F") + ",".join(str(k) for k in sorted(r[1])) + ";")
                else:
                    out.append(("E" if r == "KE" else "?") + ";")
        restore(snap)
        # undeclared stand-ins created only for the sweep must not linger
        return "W:" + "".join(out)

    def item(self, it):
        op = it[0]
        if op == "decl":
            r = self.call(pe.decl_new_proc, self.obj(it[1]))
        elif op == "derive":
            r = self.call(pe.derive_proc, self.obj(it[1]), self.obj(it[2]), self.fs(it[3]))
        elif op == "assert":
            r = self.call(pe.assert_eqv_proc, self.obj(it[1]), self.obj(it[2]), self.fs(it[3]))
        elif op == "newkey":
            r = self.call(pe.new_uf_by_eqv_key, it[1])
        elif op == "check":
            r = self.call(pe.check_eqv_proc, self.obj(it[1]), self.obj(it[2]), self.fs(it[3]))
        elif op == "strictest":
            r = self.call(pe.get_strictest_eqv_proc, self.obj(it[1]), self.obj(it[2]))
        elif op == "repr":
            r = self.call(pe.get_repr_proc, self.obj(it[1]))
        elif op == "sweep":
            return self.sweep(it[1], it[2])
        elif op == "dump":
            return self.dump()
        elif op == "drop":
            self.dropped += 1
            self.objs.pop(it[1], None)
            gc.collect()
            w = self.refs.get(it[1])
            if w is not None and w() is None:
                self.collected += 1
            return "N"
        else:
            return "?"
        if r is None:
            return "N"
        if r is True:
            return "T"
        if r is False:
            return "F"
        if isinstance(r, tuple):
            return "S:%s:%s" % ("T" if r[0] else "F", ",".join(str(k) for k in sorted(r[1])))
        if isinstance(r, P):
            return "P:%d" % r.i
        return str(r)


def run_jobs():
    dropped = collected = 0
    for line in sys.stdin:
        line = line.strip()
        if not line:
            continue
        sx = parse(line)
        assert sx[0] == "job"
        j = Job()
        out = [j.item(it) for it in sx[2:]]
        dropped += j.dropped
        collected += j.collected
        print(sx[1], " ".join(out), flush=False)
    print("#stats dropped=%d collected=%d" % (dropped, collected))


# ---------------------------------------------------------------- exhaustive search, closure oracle
def search(depth, nprocs, nkeys, reduced, shard, nshards):
    """DFS over every history of at most `depth` calls over `nprocs` procedures (declared in the
    canonical order 1,2,..: histories are taken up to renaming) and keys 1..nkeys.  Calls:
    decl next | derive(orig declared, next, K) | assert(p, q, K) for declared p != q (both
    orientations) | new_uf_by_eqv_key(k) for absent k.  `reduced` drops what cannot change an
    answer by symmetry: assert only with p < q, no explicit new_uf_by_eqv_key, keys first mentioned
    in increasing order.  After every call the complete answer table (all ordered pairs x all
    subsets K; get_strictest for all pairs) of the REAL module is compared with the closure of the
    history.  The subtrees below the length-3 prefixes are dealt round-robin to `nshards` workers."""
    keys = list(range(1, nkeys + 1))
    Ks = orc.subsets(keys)
    j = Job()
    stats = {"histories": 0, "answers": 0, "violations": [], "by_len": {}, "exhaustive": True,
             "depth": depth, "nprocs": nprocs, "nkeys": nkeys, "reduced": bool(reduced)}
    SPLIT = 3
    counter = [0]

    def table_ok(items, ndecl, count):
        procs = list(range(1, ndecl + 1))
        got = j.sweep(procs, keys)
        hist, declared = orc.effective(items)
        want = orc.expect_sweep(hist, declared, procs, keys)
        if count:
            stats["answers"] += len(procs) ** 2 * (len(Ks) + 1)
        if got != want and len(stats["violations"]) < 5:
            stats["violations"].append({"history": items, "got": got, "want": want,
                                        "procs": procs, "keys": keys})

    def rec(items, ndecl, present, maxkey):
        if len(items) >= depth:
            return
        okK = [K for K in Ks if not reduced or set(k for k in K if k > maxkey) == set(range(maxkey + 1, max(K, default=0) + 1)) - set(range(1, maxkey + 1))]
        cands = []
        if ndecl < nprocs:
            cands.append(("decl", ndecl + 1))
            for o in range(1, ndecl + 1):
                for K in okK:
                    cands.append(("derive", o, ndecl + 1, list(K)))
        for p in range(1, ndecl + 1):
            for q in range(1, ndecl + 1):
                if p != q and (not reduced or p < q):
                    for K in okK:
                        cands.append(("assert", p, q, list(K)))
        if not reduced:
            for k in keys:
                if k not in present:
                    cands.append(("newkey", k))
        for c in cands:
            items2 = items + [c]
            mine = True
            if len(items2) == SPLIT:
                mine = counter[0] % nshards == shard
                counter[0] += 1
                if not mine:
                    continue
            count = len(items2) >= SPLIT or shard == 0
            snap = snapshot()
            r = j.item(list(c))
            if count:
                stats["histories"] += 1
                stats["by_len"][len(items2)] = stats["by_len"].get(len(items2), 0) + 1
            if r != "N" and len(stats["violations"]) < 5:
                stats["violations"].append({"history": items2, "got": r, "want": "N"})
            nd = ndecl + (1 if c[0] in ("decl", "derive") else 0)
            newk = set(c[3]) if c[0] in ("derive", "assert") else {c[1]} if c[0] == "newkey" else set()
            table_ok(items2, nd, count)
            rec(items2, nd, present | newk, max([maxkey] + list(newk)) if c[0] != "newkey" else maxkey)
            restore(snap)

    rec([], 0, set(), 0)
    print(json.dumps(stats))


if __name__ == "__main__":
    if sys.argv[1] == "run":
        run_jobs()
    elif sys.argv[1] == "search":
        search(*[int(x) for x in sys.argv[2:8]])
