"""C08: export of real LoopIR into the Coq skeleton of coq/MemSafe (Model.v, ModelDiv.v), mirrored canonical encodings
(ModelCanon.v) and observation of the real backend (MemoryAnalysis output, const qualifiers in the C text, division
lowering decisions) for one Procedure.

Runs inside a process that has exo imported from common.REPO/src."""
from __future__ import annotations

import re

from exo.core.LoopIR import LoopIR, T, CIR
import exo.backend.LoopIR_compiler as LC
from exo.backend.mem_analysis import MemoryAnalysis
from exo.backend.parallel_analysis import ParallelAnalysis
from exo.backend.prec_analysis import PrecisionAnalysis
from exo.backend.win_analysis import WindowAnalysis
from exo.rewrite.range_analysis import IndexRangeEnvironment


class Unsupported(Exception):
    pass


def z(n: int) -> str:
    return str(n) if n >= 0 else "(%d)" % n


class Syms:
    """Sym -> small positive integer, by first occurrence"""

    def __init__(self):
        self.tab = {}
        self.names = {}

    def __call__(self, s) -> int:
        k = self.tab.get(s)
        if k is None:
            k = len(self.tab) + 1
            self.tab[s] = k
            self.names[k] = str(s)
        return k


# ----------------------------------------------------------------------------- statements / expressions -> Gallina
class Exporter:
    def __init__(self, syms: Syms | None = None):
        self.sy = syms or Syms()

    def lst(self, xs):
        return "[" + "; ".join(xs) + "]"

    def expr(self, e) -> str:
        if isinstance(e, LoopIR.Read):
            return "(Read %d %s)" % (self.sy(e.name), self.lst([self.expr(i) for i in e.idx]))
        if isinstance(e, LoopIR.USub):
            return "(USub %s)" % self.expr(e.arg)
        if isinstance(e, LoopIR.BinOp):
            return "(BinOp %s %s)" % (self.expr(e.lhs), self.expr(e.rhs))
        if isinstance(e, LoopIR.Extern):
            return "(Extern %s)" % self.lst([self.expr(a) for a in e.args])
        if isinstance(e, LoopIR.WindowExpr):
            idx = []
            for w in e.idx:
                if isinstance(w, LoopIR.Interval):
                    idx += [self.expr(w.lo), self.expr(w.hi)]
                else:
                    idx.append(self.expr(w.pt))
            return "(WindowExpr %d %d %s)" % (self.sy(e.name), self.sy(e.type.src_buf), self.lst(idx))
        if isinstance(e, LoopIR.StrideExpr):
            return "(StrideExpr %d)" % self.sy(e.name)
        if isinstance(e, (LoopIR.Const, LoopIR.ReadConfig)):
            return "Other"
        raise Unsupported("expression %s" % type(e).__name__)

    def stmts(self, ss) -> str:
        return self.lst([self.stmt(s) for s in ss])

    def stmt(self, s) -> str:
        if isinstance(s, (LoopIR.Assign, LoopIR.Reduce)):
            return "(%s %d %s %s)" % (type(s).__name__, self.sy(s.name), self.lst([self.expr(i) for i in s.idx]), self.expr(s.rhs))
        if isinstance(s, LoopIR.WriteConfig):
            return "(WriteConfig %s)" % self.expr(s.rhs)
        if isinstance(s, LoopIR.Pass):
            return "Pass"
        if isinstance(s, LoopIR.If):
            return "(If %s %s %s)" % (self.expr(s.cond), self.stmts(s.body), self.stmts(s.orelse))
        if isinstance(s, LoopIR.For):
            return "(For %s %s %s)" % (self.expr(s.lo), self.expr(s.hi), self.stmts(s.body))
        if isinstance(s, LoopIR.Alloc):
            return "(Alloc %d)" % self.sy(s.name)
        if isinstance(s, LoopIR.Free):
            return "(Free %d)" % self.sy(s.name)
        if isinstance(s, LoopIR.Call):
            # the callee's symbols are numbered in the same table (they are distinct Sym objects)
            return "(Call %s %s %s)" % (self.lst([str(self.sy(a.name)) for a in s.f.args]), self.stmts(s.f.body),
                                        self.lst([self.expr(a) for a in s.args]))
        if isinstance(s, LoopIR.WindowStmt):
            return "(WindowStmt %d %s)" % (self.sy(s.name), self.expr(s.rhs))
        raise Unsupported("statement %s" % type(s).__name__)

    # mirror of ModelCanon.canon
    def canon(self, ss) -> list[int]:
        out = []
        for s in ss:
            if isinstance(s, LoopIR.Assign):
                out += [1, self.sy(s.name)]
            elif isinstance(s, LoopIR.Reduce):
                out += [2, self.sy(s.name)]
            elif isinstance(s, LoopIR.WriteConfig):
                out += [3]
            elif isinstance(s, LoopIR.Pass):
                out += [4]
            elif isinstance(s, LoopIR.If):
                out += [5] + self.canon(s.body) + [-1] + self.canon(s.orelse) + [-2]
            elif isinstance(s, LoopIR.For):
                out += [6] + self.canon(s.body) + [-2]
            elif isinstance(s, LoopIR.Alloc):
                out += [7, self.sy(s.name)]
            elif isinstance(s, LoopIR.Free):
                out += [8, self.sy(s.name)]
            elif isinstance(s, LoopIR.Call):
                out += [9]
            elif isinstance(s, LoopIR.WindowStmt):
                out += [10, self.sy(s.name)]
            else:
                raise Unsupported("statement %s" % type(s).__name__)
        return out


OPS = {"+": "OAdd", "-": "OSub", "*": "OMul", "/": "ODiv", "%": "OMod"}
OPC = {"+": 1, "-": 2, "*": 3, "/": 4, "%": 5}


def b(x) -> str:
    return "true" if x else "false"


def iexp_term(e, sy: Syms, nn) -> str:
    """index-typed LoopIR expression -> ModelDiv.iexp; nn(e) = the range analysis' answer for node e"""
    if isinstance(e, LoopIR.Read):
        if e.idx:
            raise Unsupported("indexed read in index expression")
        return "(IVar %d %s)" % (sy(e.name), b(nn(e)))
    if isinstance(e, LoopIR.Const):
        if isinstance(e.val, bool) or not isinstance(e.val, int):
            raise Unsupported("non-int constant")
        return "(IConst %s %s)" % (z(e.val), b(nn(e)))
    if isinstance(e, LoopIR.BinOp):
        if e.op not in OPS:
            raise Unsupported("operator %s" % e.op)
        return "(IBin %s %s %s %s)" % (OPS[e.op], iexp_term(e.lhs, sy, nn), iexp_term(e.rhs, sy, nn), b(nn(e)))
    if isinstance(e, LoopIR.USub):
        return "(INeg %s %s)" % (iexp_term(e.arg, sy, nn), b(nn(e)))
    raise Unsupported("index expression %s" % type(e).__name__)


def has_divmod(e) -> bool:
    if isinstance(e, (LoopIR.BinOp, CIR.BinOp)):
        return e.op in ("/", "%") or has_divmod(e.lhs) or has_divmod(e.rhs)
    if isinstance(e, (LoopIR.USub, CIR.USub)):
        return has_divmod(e.arg)
    return False


def literal_divisors(e) -> bool:
    """every divisor is a positive integer literal (hypothesis of C08_divmod_choice)"""
    if isinstance(e, (LoopIR.BinOp, CIR.BinOp)):
        if e.op in ("/", "%"):
            r = e.rhs
            if not (isinstance(r, (LoopIR.Const, CIR.Const)) and isinstance(r.val, int) and r.val > 0):
                return False
        return literal_divisors(e.lhs) and literal_divisors(e.rhs)
    if isinstance(e, (LoopIR.USub, CIR.USub)):
        return literal_divisors(e.arg)
    return True


def cir_term(k, sy: Syms) -> str:
    if isinstance(k, CIR.Read):
        return "(KRead %d %s)" % (sy(k.name), b(k.is_non_neg))
    if isinstance(k, CIR.Stride):
        return "(KStride %d %s)" % (sy(k.name), z(k.dim))
    if isinstance(k, CIR.Const):
        if isinstance(k.val, bool) or not isinstance(k.val, int):
            raise Unsupported("non-int CIR constant %r" % (k.val,))
        return "(KConst %s)" % z(k.val)
    if isinstance(k, CIR.BinOp):
        if k.op not in OPS:
            raise Unsupported("operator %s" % k.op)
        return "(KBin %s %s %s %s)" % (OPS[k.op], cir_term(k.lhs, sy), cir_term(k.rhs, sy), b(k.is_non_neg))
    if isinstance(k, CIR.USub):
        return "(KUSub %s %s)" % (cir_term(k.arg, sy), b(k.is_non_neg))
    raise Unsupported("CIR %s" % type(k).__name__)


def kcanon(k, sy: Syms) -> list[int]:
    if isinstance(k, CIR.Read):
        return [1, sy(k.name), int(bool(k.is_non_neg))]
    if isinstance(k, CIR.Stride):
        return [2, sy(k.name), k.dim]
    if isinstance(k, CIR.Const):
        if isinstance(k.val, bool) or not isinstance(k.val, int):
            raise Unsupported("non-int CIR constant %r" % (k.val,))
        return [3, k.val]
    if isinstance(k, CIR.BinOp):
        return [4, OPC[k.op], int(bool(k.is_non_neg))] + kcanon(k.lhs, sy) + kcanon(k.rhs, sy)
    if isinstance(k, CIR.USub):
        return [5, int(bool(k.is_non_neg))] + kcanon(k.arg, sy)
    raise Unsupported("CIR %s" % type(k).__name__)


DIVTOK = re.compile(r"exo_floor_div\(|exo_floor_mod\(| / | % ")


def div_tokens(text: str) -> list[int]:
    m = {" / ": 1, " % ": 2, "exo_floor_div(": 3, "exo_floor_mod(": 4}
    return [m[t] for t in DIVTOK.findall(text)]


# ----------------------------------------------------------------------------- observing the real backend
class Recorder:
    """Wraps lift_to_cir / simplify_cir / Compiler.comp_cir / Compiler.comp_e of the imported backend and records
    their outermost calls (expression, flags, result)."""

    def __init__(self):
        self.rec = []
        self.depth = {"lift": 0, "simp": 0, "cir": 0, "e": 0}
        self.orig = {}
        self.on = False

    def install(self):
        R = self
        o_lift, o_simp = LC.lift_to_cir, LC.simplify_cir
        o_cir, o_e = LC.Compiler.comp_cir, LC.Compiler.comp_e
        self.orig = {"lift": o_lift, "simp": o_simp, "cir": o_cir, "e": o_e}

        def flags_of(e, range_env):
            fl = {}

            def go(x):
                fl[id(x)] = bool(range_env.check_expr_bound(0, IndexRangeEnvironment.leq, x))
                if isinstance(x, LoopIR.BinOp):
                    go(x.lhs)
                    go(x.rhs)
                elif isinstance(x, LoopIR.USub):
                    go(x.arg)

            go(e)
            return fl

        def lift(e, range_env):
            top = R.depth["lift"] == 0 and R.on
            fl = None
            if top:
                try:
                    fl = flags_of(e, range_env)
                except Exception:
                    fl = None
            R.depth["lift"] += 1
            try:
                r = o_lift(e, range_env)
            finally:
                R.depth["lift"] -= 1
            if top and fl is not None:
                R.rec.append(("lift", e, fl, r))
            return r

        def simp(e):
            top = R.depth["simp"] == 0 and R.on
            R.depth["simp"] += 1
            try:
                r = o_simp(e)
            except AssertionError:
                if top:
                    R.rec.append(("simp", e, None))
                raise
            finally:
                R.depth["simp"] -= 1
            if top:
                R.rec.append(("simp", e, r))
            return r

        def comp_cir(self, e, env, prec):
            top = R.depth["cir"] == 0 and R.on
            R.depth["cir"] += 1
            try:
                r = o_cir(self, e, env, prec)
            finally:
                R.depth["cir"] -= 1
            if top:
                R.rec.append(("cir", e, r))
            return r

        def comp_e(self, e, prec=0):
            indexable = hasattr(e, "type") and e.type is not None and e.type.is_indexable() and \
                isinstance(e, (LoopIR.BinOp, LoopIR.USub))
            top = indexable and R.depth["e"] == 0 and R.on
            fl = None
            if top:
                try:
                    fl = flags_of(e, self.range_env)
                except Exception:
                    fl = None
            if indexable:
                R.depth["e"] += 1
            try:
                r = o_e(self, e, prec)
            finally:
                if indexable:
                    R.depth["e"] -= 1
            if top and fl is not None:
                R.rec.append(("e", e, fl, r))
            return r

        LC.lift_to_cir, LC.simplify_cir = lift, simp
        LC.Compiler.comp_cir, LC.Compiler.comp_e = comp_cir, comp_e

    def uninstall(self):
        LC.lift_to_cir, LC.simplify_cir = self.orig["lift"], self.orig["simp"]
        LC.Compiler.comp_cir, LC.Compiler.comp_e = self.orig["cir"], self.orig["e"]


def backend_passes(p):
    """the passes compile_to_strings runs before MemoryAnalysis"""
    p = ParallelAnalysis().run(p)
    p = PrecisionAnalysis().run(p)
    p = WindowAnalysis().apply_proc(p)
    return p


WIN_RE = re.compile(r"struct exo_win_(\d+)(f16|f32|f64|i8|ui8|ui16|i32)(c?)\b")


def c_function_text(code: str, name: str):
    """(signature argument text, body text) of the DEFINITION of function `name` in the generated C.
    Bodies are not indented (nested blocks close with `}` in column 0 too), so the end of the definition is the
    `}` line that is followed by the next procedure's comment header (or by the end of the text)."""
    m = re.search(r"^(?:static )?void %s\( ([^\n]*?) \) \{\n" % re.escape(name), code, flags=re.M)
    if not m:
        return None
    rest = code[m.end():]
    ends = [k for k in (rest.find("\n}\n\n// "), rest.find("\n}\n\n/* relying")) if k >= 0]
    if ends:
        end = min(ends)
    else:
        end = rest.rfind("\n}\n")
        if end < 0:
            if rest.startswith("}\n"):
                return m.group(1), ""
            return None
    return m.group(1), rest[:end + 1]


def observe_const(code: str, p) -> dict | None:
    """const qualifiers of the buffer arguments (signature order) and const-ness of every window struct named in
    the body text (one per WindowStmt, one per window argument of a call), from the C text of procedure p"""
    ft = c_function_text(code, p.name)
    if ft is None:
        return None
    sig, body = ft
    parts = [a.strip() for a in sig.split(",")]
    # first is the context pointer
    parts = parts[1:]
    flags = []
    if len(parts) != len(p.args):
        return None
    for a, txt in zip(p.args, parts):
        if not a.type.is_numeric():
            continue
        if a.type.is_win():
            m = WIN_RE.search(txt)
            if not m:
                return None
            flags.append(m.group(3) == "c")
        else:
            flags.append(txt.startswith("const "))
    sflags = []
    for line in body.split("\n"):
        ms = list(WIN_RE.finditer(line))
        if not ms:
            continue
        if re.match(r"\s*struct exo_win_\w+ \w+ = \(struct exo_win_", line):
            # window statement: declared type and the type of the compound literal must agree
            if ms[0].group(0) != ms[1].group(0):
                sflags.append(None)
            else:
                sflags.append(ms[0].group(3) == "c")
            ms = ms[2:]
        for m in ms:
            sflags.append(m.group(3) == "c")
    return {"args": flags, "structs": sflags}


def buf_args(p):
    return [a for a in p.args if a.type.is_numeric()]
