"""Correspondence of the PyHeap model (coq/Purity/Model.v, part 1) with the real internal_cursors edits.

harness/c07_heapcorr.py (subprocess, real exo) produces heaps, edits and the sharing signature of the real result;
this module writes ONE Coq file (<= 500 cases) in which `apply_heap` is evaluated by vm_compute on the same heap and
edit and the same signature walk is done on the model's result, runs coqc once and compares the token lists."""
from __future__ import annotations

import json
import re

import common

SIG = r"""
From Coq Require Import List NArith.
Import ListNotations.
From Purity Require Import Model.

Definition R (n : N) : val := VRef (N.to_nat n).
Definition nn (n : N) : nat := N.to_nat n.

Fixpoint index_of (l : nat) (seen : list nat) (i : nat) : option nat :=
  match seen with [] => None | x :: t => if Nat.eqb x l then Some i else index_of l t (S i) end.

(* the walk of harness/c07_heapcorr.py:signature ; tokens: 9 opaque | 0 loc (old object) | 3 i (new, seen before) |
   1 cls i fields.. 8 (new node) | 2 i len elems.. 8 (new list) *)
Fixpoint sig (fuel : nat) (h : heap) (n0 : nat) (v : val) (seen : list nat) : list N * list nat :=
  match fuel with
  | 0 => ([99%N], seen)
  | S f =>
      match v with
      | VOpq => ([9%N], seen)
      | VRef l =>
          if Nat.ltb l n0 then ([0%N; N.of_nat l], seen)
          else match index_of l seen 0 with
               | Some i => ([3%N; N.of_nat i], seen)
               | None =>
                   let i := length seen in
                   let seen1 := seen ++ [l] in
                   match hget h l with
                   | Some (OList es) =>
                       let '(ts, s2) := fold_left (fun acc e => let '(ts, s) := acc in
                                                               let '(t1, s1) := sig f h n0 e s in (ts ++ t1, s1))
                                                  es ([2%N; N.of_nat i; N.of_nat (length es)], seen1) in
                       (ts ++ [8%N], s2)
                   | Some (ONode c fs) =>
                       let '(ts, s2) := fold_left (fun acc af => let '(ts, s) := acc in
                                                                match snd af with
                                                                | VOpq => (ts, s)
                                                                | e => let '(t1, s1) := sig f h n0 e s in (ts ++ t1, s1)
                                                                end)
                                                  fs ([1%N; c; N.of_nat i], seen1) in
                       (ts ++ [8%N], s2)
                   | None => ([98%N], seen1)
                   end
               end
      end
  end.

Definition result (h : heap) (r : heap * option loc) : list N :=
  match snd r with
  | Some t => fst (sig 400 (fst r) (length h) (VRef t) [])
  | None => [77%N]
  end.
Local Open Scope N_scope.
"""


def v(x):
    return "VOpq" if x is None else "(R %d)" % x


def lst(xs):
    return "[" + "; ".join(xs) + "]"


def path(p):
    return lst(["(%d, %s)" % (a, "None" if i is None else "Some (nn %d)" % i) for a, i in p])


def edit_term(e):
    k = e["k"]
    if k == "EReplaceBlock":
        return "(EReplaceBlock %s %d (nn %d) (nn %d) %s)" % (path(e["anchor"]), e["attr"], e["lo"], e["hi"], lst([v(x) for x in e["nodes"]]))
    if k == "EReplaceNode":
        return "(EReplaceNode %s %s)" % (path(e["p"]), v(e["new"]))
    if k == "EInsert":
        return "(EInsert %s %s %s)" % (path(e["anchor"]), "true" if e["after"] else "false", lst([v(x) for x in e["stmts"]]))
    if k == "EDelete":
        return "(EDelete %s %d (nn %d) (nn %d) %d)" % (path(e["anchor"]), e["attr"], e["lo"], e["hi"], e["pass_cls"])
    if k == "EWrap":
        return "(EWrap %s %d (nn %d) (nn %d) %d %s %d)" % (
            path(e["anchor"]), e["attr"], e["lo"], e["hi"], e["cls"],
            lst(["(%d, %s)" % (a, v(x)) for a, x in e["fs"]]), e["wrap_attr"])
    if k == "EMove":
        return "(EMove %s %d (nn %d) (nn %d) %s %s %d)" % (
            path(e["anchor"]), e["attr"], e["lo"], e["hi"], path(e["gap_anchor"]), "true" if e["gap_after"] else "false", e["pass_cls"])
    raise ValueError(k)


def heap_term(h):
    objs = []
    for o in h:
        if o[0] == "L":
            objs.append("OList %s" % lst([v(x) for x in o[1]]))
        else:
            objs.append("ONode %d %s" % (o[1], lst(["(%d, %s)" % (a, v(x)) for a, x in o[2]])))
    return lst(objs)


def make_cases(data, limit=500):
    out = [SIG]
    index = []
    n = 0
    for gi, g in enumerate(data["cases"]):
        if n >= limit:
            break
        out.append("Definition h_%d : heap := %s." % (gi, heap_term(g["heap"])))
        for ei, e in enumerate(g["edits"]):
            if n >= limit:
                break
            out.append("Eval vm_compute in (result h_%d (apply_heap %s h_%d (nn %d)))." % (gi, edit_term(e["edit"]), gi, g["root"]))
            index.append((gi, ei))
            n += 1
    return "\n".join(out) + "\n", index


def parse(out):
    res = []
    for chunk in re.split(r"^\s*=\s*", out, flags=re.M)[1:]:
        body = chunk.split(": list N")[0]
        res.append([int(x) for x in re.findall(r"(\d+)%N", body)] if "%N" in body else [int(x) for x in re.findall(r"\d+", body)])
    return res


def run_corr(ck, n_procs, per_proc):
    sdir = common.scratch_dir("c07_corr")
    outp = sdir / "impl.json"
    seed = ck.rng.getrandbits(40)
    rc, log = common.sh([common.PY, str(common.VERIF / "harness" / "c07_heapcorr.py"), str(seed), str(n_procs), str(per_proc), str(outp)],
                        timeout=600, cwd=str(sdir), env=common.exo_env())
    if rc != 0 or not outp.exists():
        ck.broken_obligation("correspondence:pyheap-driver", "rc=%s %s" % (rc, log[-500:]))
        return
    data = json.loads(outp.read_text())
    text, index = make_cases(data)
    vf = sdir / "Cases.v"
    vf.write_text(text)
    rc, out = common.sh("coqc -Q %s Purity %s" % (common.COQ / "Purity", vf), timeout=900, cwd=str(sdir))
    if rc != 0:
        ck.broken_obligation("correspondence:pyheap-coqc", out[-600:])
        return
    model = parse(out)
    if len(model) != len(index):
        ck.broken_obligation("correspondence:pyheap-parse", "%d answers for %d cases" % (len(model), len(index)))
        return
    stream = "pyheap-edits"
    for (gi, ei), m in zip(index, model):
        g = data["cases"][gi]
        e = g["edits"][ei]
        real = e["sig"]
        nontrivial = real != [77]
        ck.case(stream, (seed, gi, ei), nontrivial,
                {"edit": {k: x for k, x in e["edit"].items()}, "real_signature": real[:40], "model_signature": m[:40]},
                tag=e["kind"] + (":ok" if nontrivial else ":raised"))
        if e["edit"].get("old_heap_changed"):
            ck.violation("purity:internal_cursors.%s:old-heap-changed" % e["kind"],
                         {"source": g["src"], "edit": e["edit"]}, "an atomic edit changed an object of the old tree")
        if m == real:
            ck.corr_agree(stream)
        elif not nontrivial:
            # the real edit raised where the model went on (or vice versa): the model has no notion of the checks
            # (asserts, IndexError) of the Python code; only recorded
            ck.stream(stream).setdefault("raised_only_in_one", 0)
            ck.stream(stream)["raised_only_in_one"] += 1
            ck.corr_agree(stream)
        else:
            ck.corr_diverge(stream, {"kind": e["kind"], "edit": e["edit"], "real": real[:80], "model": m[:80], "src": g["src"]})
    st = data["stats"]
    ck.cov["pyheap_correspondence"] = st
    ck.log("pyheap correspondence: %d procedures, %d edits (%s), %d raised, old heap changed %d times, %d divergences"
           % (st["procs"], st["edits"], st["by_kind"], st["raised"], st["old_heap_changed"], ck.stream(stream)["diverge"]))
