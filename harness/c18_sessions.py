"""C18 -- scripted sessions and the fresh-interpreter child that runs them.

A *session* is Exo source text (a module) plus a fixed schedule.  Hand-written sessions (HAND below) schedule inside
the module and publish `SESSION = {"print": [procs], "compile": [[procs], ...]}`; generated sessions come from
harness/progen.py and carry a recorded schedule (rng seed, opname, cursor-path description) that the child replays
with harness/sched.py.  The child (`python c18_sessions.py child <job.json> <out.json>`) runs in a FRESH interpreter
whose PYTHONHASHSEED, prior history (Syms / unrelated procedures, classes, configs created beforehand), gc mode and
module layout (unrelated definitions before / after the session's own) are the *variant*; it writes, per session, the
byte-exact texts  str(p), p.c_code_str(), compile_procs_to_strings(...)  (.c and .h).  The parent compares the
texts of all variants with NO normalisation.

Nothing here imports exo at module import time (the parent only needs the session tables)."""
from __future__ import annotations

import json
import os
import sys
import time
import traceback

HEADER = (
    "from __future__ import annotations\n"
    "from exo import proc, instr, config, DRAM, Memory\n"
    "from exo.core.extern import Extern\n"
    "from exo.libs.externs import relu, select, sin, sqrt, expf, fmaxf\n"
    "from exo.libs.memories import DRAM_STATIC, DRAM_STACK, MDRAM\n"
    "from exo.stdlib.scheduling import *\n"
    "from exo.API import compile_procs_to_strings\n"
)

# ----------------------------------------------------------------------------------------------------------------
# hand-written sessions: (id, site hint, source)
HAND = []


def hand(sid, hint, src, witness=None):
    HAND.append({"id": sid, "hint": hint, "src": src, "witness": witness})


hand("unroll_buffer", "DoUnrollBuffer.used_allocs", '''
@proc
def ub(x: f32[4], y: f32[4]):
    buf: f32[9]
    w: f32[17, 2]
    buf[8] = x[0]
    buf[0] = x[1]
    buf[3] = x[2]
    w[16, 0] = x[3]
    w[0, 1] = x[0]
    w[8, 0] = x[1]
    y[0] = buf[8] + buf[0] + buf[3]
    y[1] = w[16, 0] + w[0, 1] + w[8, 0]

p1 = unroll_buffer(ub, "buf : _", 0)
p2 = unroll_buffer(p1, "w : _", 0)
SESSION = {"print": [p1, p2], "compile": [[p2]]}
''')

hand("fission_lift_alloc", "_FV / DoLiftAllocSimple.szvars / alloc_check", '''
@proc
def fl(n: size, m: size, x: f32[n], y: f32[n], z: f32[m]):
    for i in seq(0, n):
        for j in seq(0, 4):
            t: f32[4]
            u: f32
            t[j] = x[i]
            u = t[j]
            y[i] += u
    for k in seq(0, m):
        a: f32[2]
        a[0] = z[k]
        a[1] = z[k]
        z[k] = a[0] + a[1]

p = lift_alloc(fl, "t : _", n_lifts=2)
p = lift_alloc(p, "u : _", n_lifts=1)
p = fission(p, p.find("t[_] = _").after(), n_lifts=1)
p = lift_alloc(p, "a : _", n_lifts=1)
q = remove_loop(add_loop(p, p.find("a[0] = _"), "r", 3, guard=False), "r")
SESSION = {"print": [p, q], "compile": [[p], [q]]}
''')

hand("many_globals", "find_all_mems / find_all_externs / find_all_configs / struct_defns", '''
@config
class CfgB:
    a: index
    flag: bool

@config
class CfgA:
    s: stride
    f: f32

class ZMem(DRAM):
    @classmethod
    def global_(cls):
        return "// global of ZMem"

class AMem(DRAM):
    @classmethod
    def global_(cls):
        return "// global of AMem"

class MMem(DRAM_STACK):
    @classmethod
    def global_(cls):
        return "// global of MMem"

@proc
def leaf(n: size, a: [f32][n], b: [f64][n, 2], c: [i8][n] @ ZMem, d: [f32][n, n]):
    for i in seq(0, n):
        a[i] = relu(a[i]) + sin(d[i, i])
        b[i, 0] = sqrt(b[i, 1])
        c[i] = select(c[i], c[i], c[i], c[i])

@proc
def leaf2(a: [f32][8] @ AMem, k: [i32][2, 2, 2]):
    a[0] = expf(a[1]) + fmaxf(a[2], a[3])
    k[0, 0, 0] = k[1, 1, 1]
    CfgB.a = 3
    CfgA.f = a[0]

@proc
def top(n: size, x: f32[n] @ MMem, y: f64[n, 2], z: i8[n] @ ZMem, w: f32[n, n], v: f32[8] @ AMem, kk: i32[2, 2, 2] @ MDRAM):
    t: f32[8] @ DRAM_STATIC
    s: f64[4] @ AMem
    if CfgB.flag == True:
        leaf(n, x[0:n], y[0:n, 0:2], z[0:n], w[0:n, 0:n])
    leaf2(v[0:8], kk[0:2, 0:2, 0:2])
    for i in seq(0, 8):
        t[i] = v[i]
    s[0] = sqrt(y[0, 0]) + sin(y[0, 1])

SESSION = {"print": [top, leaf, leaf2], "compile": [[top], [leaf2, top, leaf], [leaf, leaf2]]}
''')

hand("simplify_sym_order", "generate_loopIR sorted(normalization_list) / Sym.__lt__", '''
@proc
def callee(k: index, j: index, y: f32[64]):
    assert k >= 0 and k < 4
    assert j >= 0 and j < 4
    for i in seq(0, 4):
        for j2 in seq(0, 4):
            y[i + k + 2 * j + j2 * 2 + (k + i) / 4] = 1.0

@proc
def caller(y: f32[64]):
    for i in seq(0, 4):
        for k in seq(0, 4):
            callee(i, k, y)
            callee(k, i, y)

p = inline(caller, "callee(_)")
p = inline(p, "callee(_)")
q = simplify(p)
r = simplify(divide_loop(q, "i", 2, ["i", "i"], perfect=True))
SESSION = {"print": [p, q, r], "compile": [[q], [r]]}
''')

hand("extract_subproc", "DoExtractSubproc body_symbols", '''
@proc
def ex(n: size, m: size, x: f32[n, m], y: f32[m], z: f32[n]):
    assert n > 2
    for i in seq(0, n):
        acc: f32
        acc = 0.0
        for j in seq(0, m):
            acc += x[i, j] * y[j]
        z[i] = acc

p, sub = extract_subproc(ex, ex.find_loop("j"), "inner_dot")
p2, sub2 = extract_subproc(p, p.find_loop("i"), "outer_rows")
SESSION = {"print": [p, sub, p2, sub2], "compile": [[p], [p2], [sub2, sub]]}
''')

hand("stage_mem", "DoStageMem", '''
@proc
def sm(n: size, x: f32[n, 16], y: f32[16]):
    for i in seq(0, n):
        for j in seq(0, 16):
            y[j] += x[i, j] * x[i, (j + 3) % 16]

p = stage_mem(sm, sm.find_loop("j"), "y[0:16]", "ystg")
p = stage_mem(p, p.find_loop("j"), "x[i, 0:16]", "xrow")
p = set_memory(p, "ystg", DRAM_STATIC)
p = simplify(p)
SESSION = {"print": [p], "compile": [[p]]}
''')

hand("specialize_fuse_reorder", "DoSpecialize / Alpha_Rename / live sets", '''
@proc
def sp(n: size, x: f32[n], y: f32[n]):
    for i in seq(0, n):
        t: f32
        t = x[i]
        y[i] = t
    for i in seq(0, n):
        y[i] += 1.0

p = specialize(sp, sp.find_loop("i").body(), ["n < 4", "n == 7"])
p = fuse(p, p.find_loop("i"), p.find_loop("i #1"))
p = divide_loop(p, "i", 4, ["io", "ii"], tail="cut_and_guard")
p = unroll_loop(p, "ii")
p = simplify(p)
SESSION = {"print": [p], "compile": [[p]]}
''')

# ---- witnesses of the known defects -------------------------------------------------------------------------------
hand("static_helpers_divmod", "static-helpers", '''
@proc
def dm(n: size, x: f32[n]):
    for i in seq(0, n):
        if (i - 3) / 4 < 2:
            if (i - 3) % 4 < 2:
                x[i] = 1.0

SESSION = {"print": [dm], "compile": [[dm]]}
''', witness="hashseed")

hand("memories_same_name", "memories-same-name", '''
def mk_mem(text):
    class MyMem(DRAM):
        @classmethod
        def global_(cls):
            return text
    return MyMem

# four distinct Memory classes that all answer name() == "MyMem" (a class factory), created with PRE_K, 2*PRE_K+1
# and 3*PRE_K+2 unrelated classes in between: only their ADDRESSES differ between the variants
M1 = mk_mem("// MyMem variant ONE")
_padding1 = [type("PadA%d" % i, (object,), {}) for i in range(PRE_K)]
M2 = mk_mem("// MyMem variant TWO")
_padding2 = [type("PadB%d" % i, (object,), {}) for i in range(2 * PRE_K + 1)]
M3 = mk_mem("// MyMem variant THREE")
_padding3 = [type("PadC%d" % i, (object,), {}) for i in range(3 * PRE_K + 2)]
M4 = mk_mem("// MyMem variant FOUR")

@proc
def mm(x: f32[4] @ M1, y: f32[4] @ M2, z: f32[4] @ M3, w: f32[4] @ M4):
    for i in seq(0, 4):
        y[i] = x[i]
        w[i] = z[i]

SESSION = {"print": [mm], "compile": [[mm]]}
''', witness="prior-history")

hand("externs_same_name", "externs-same-name", '''
class _Twice(Extern):
    def __init__(self, text):
        super().__init__("twice")
        self._text = text
    def typecheck(self, args):
        return args[0].type
    def globl(self, prim_type):
        return self._text
    def compile(self, args, prim_type):
        return "twice(" + args[0] + ")"

# four distinct Extern objects with one name() and different globl() text
twice1 = _Twice("// extern twice variant ONE")
_padding1 = [object() for i in range(PRE_K)]
twice2 = _Twice("// extern twice variant TWO")
_padding2 = [[i] for i in range(2 * PRE_K + 1)]
twice3 = _Twice("// extern twice variant THREE")
_padding3 = [{i: i} for i in range(3 * PRE_K + 2)]
twice4 = _Twice("// extern twice variant FOUR")

@proc
def ee(x: f32[4]):
    x[0] = twice1(x[1]) + twice2(x[2])
    x[1] = twice3(x[1]) + twice4(x[2])

SESSION = {"print": [ee], "compile": [[ee]]}
''', witness="prior-history")


# unrelated definitions placed before / after the session's own definitions (layout A / B)
def unrelated(tag: str, k: int = 3) -> list:
    out = []
    for i in range(k):
        out.append("@proc\ndef zz_unrel_%s_%d(n: size, x: f32[n], y: f32[n]):\n    for i in seq(0, n):\n"
                   "        t: f32\n        t = x[i]\n        y[i] = t + %d.0\n" % (tag, i, i))
    out.append("@config\nclass ZZUnrelCfg_%s:\n    a: index\n    b: f32\n" % tag)
    out.append("class ZZUnrelMem_%s(DRAM):\n    @classmethod\n    def global_(cls):\n        return '// unrelated'\n" % tag)
    return out


def layout(src_body: str, which: int, tag: str) -> str:
    """layout 0: unrelated definitions BEFORE the session's; layout 1: AFTER, in reverse order, shifted lines"""
    un = unrelated(tag)
    if which == 0:
        return HEADER + "\n" + "\n".join(un) + "\n" + src_body + "\n"
    return HEADER + "\n\n\n# moved\n" + src_body + "\n" + "\n".join(reversed(un)) + "\n"


# ----------------------------------------------------------------------------------------------------------------
# child side
def _load(src: str, name: str, scratch: str):
    import importlib.util
    path = os.path.join(scratch, name + ".py")
    with open(path, "w") as f:
        f.write(src)
    spec = importlib.util.spec_from_file_location(name, path)
    mod = importlib.util.module_from_spec(spec)
    sys.modules[name] = mod
    spec.loader.exec_module(mod)
    return mod


def prehistory(level: dict, scratch: str):
    """objects created before any session: Syms (half of them freed again, leaving holes in the allocator),
    unrelated procedures, Memory classes, configs, extern objects.  Returned so that they stay alive."""
    from exo.core.prelude import Sym
    keep = []
    n = int(level.get("syms", 0))
    if n:
        syms = [Sym("h%d" % (i % 97)) for i in range(2 * n)]
        keep.append(syms[::2])
        del syms
    k = int(level.get("procs", 0))
    if k:
        src = HEADER
        for i in range(k):
            src += ("@proc\ndef zz_pre_%d(n: size, x: f32[n]):\n    for i in seq(0, n):\n        x[i] = %d.0\n\n" % (i, i))
            src += "class ZZPreMem%d(DRAM):\n    pass\n\n" % i
            if i % 10 == 0:
                src += "@config\nclass ZZPreCfg%d:\n    a: index\n\n" % i
        keep.append(_load(src, "c18_prehistory", scratch))
    keep.append([object() for _ in range(int(level.get("objects", 0)))])
    return keep


def apply_schedule(mod, steps):
    """replay a recorded schedule on mod.foo; returns (procedure, log)"""
    import random
    import sched
    p = mod.foo
    cfgs = [v for k, v in vars(mod).items() if type(v).__name__ == "Config" and not k.startswith("ZZ")]
    log = []
    for st in steps:
        cands = sched.candidates(p, random.Random(st["seed"]), cfgs)
        i = st["idx"]
        if i >= len(cands) or cands[i][0] != st["op"] or cands[i][1] != st["descr"]:
            log.append("step %s %s: NOT AMONG THE CANDIDATES (position %d of %d)" % (st["op"], st["descr"], i, len(cands)))
            break
        try:
            p = cands[i][2]()
            log.append("step %s %s: ok" % (st["op"], st["descr"]))
        except sched.REFUSALS as e:
            log.append("step %s %s: refused %s" % (st["op"], st["descr"], type(e).__name__))
            break
    return p, log


def record_schedule(mod, seed: int, nsteps: int):
    """choose a schedule of up to nsteps accepted operations (recorder process only)"""
    import random
    import sched
    p = mod.foo
    cfgs = [v for k, v in vars(mod).items() if type(v).__name__ == "Config" and not k.startswith("ZZ")]
    rng = random.Random(seed)
    steps = []
    for k in range(nsteps):
        s = rng.getrandbits(30)
        cands = sched.candidates(p, random.Random(s), cfgs)
        order = list(range(len(cands)))
        rng.shuffle(order)
        # half of the time prefer the operations whose implementation iterates sets / sorts symbols / renames
        pref = {"simplify": 0, "unroll_buffer": 0, "fission": 0, "lift_alloc": 0, "stage_mem": 0, "inline": 0,
                "specialize": 0, "divide_loop": 0, "unroll_loop": 0, "bind_expr": 0, "fuse": 0, "reorder_loops": 0,
                "expand_dim": 0, "divide_with_recompute": 0, "cut_loop": 0, "mult_loops": 0, "lift_scope": 0,
                "extract_subproc": 1, "sink_alloc": 1, "resize_dim": 1, "rearrange_dim": 1, "divide_dim": 1}
        if rng.random() < 0.5:
            order.sort(key=lambda i: pref.get(cands[i][0], 2))
        # never the same operation three times in a row
        if len(steps) >= 2 and steps[-1]["op"] == steps[-2]["op"]:
            order = [i for i in order if cands[i][0] != steps[-1]["op"]]
        done = False
        for i in order[:25]:
            op, descr, thunk = cands[i]
            if op in ("rename",):
                continue
            try:
                # the thunk may consume random numbers: replay must see the same generator state
                cands2 = sched.candidates(p, random.Random(s), cfgs)
                q = cands2[i][2]()
            except Exception:
                continue
            if str(q) == str(p) and rng.random() < 0.8:
                continue
            p = q
            steps.append({"seed": s, "idx": i, "op": op, "descr": descr})
            done = True
            break
        if not done:
            break
    return steps


_SRCINFO = None
_SYMREPR = None


def errtext(e) -> str:
    """exception type and message, with source positions (file:line[:col]) and the numeric suffix of repr(Sym)
    (name_<counter>) replaced: file names and line numbers legitimately differ between the module layouts of one
    session, and repr(Sym) shows the global counter.  Error text is not an output the property speaks about; it is
    compared (modulo these two) so that a session cannot silently fail in some variants only."""
    global _SRCINFO, _SYMREPR
    import re
    if _SRCINFO is None:
        _SRCINFO = re.compile(r"[^\s:'\"]+\.py:\d+(?::\d+)?")
        _SYMREPR = re.compile(r"\b([A-Za-z_][A-Za-z0-9_]*?)_\d+\b")
    return "%s: %s" % (type(e).__name__, _SYMREPR.sub(r"\1_<id>", _SRCINFO.sub("<src>", str(e))))


def outputs_of(print_procs, compile_lists):
    from exo.API import compile_procs_to_strings
    out = {}
    for i, p in enumerate(print_procs):
        try:
            out["str:%d" % i] = str(p)
        except Exception as e:
            out["err:str:%d" % i] = errtext(e)
        try:
            out["c:codestr:%d" % i] = p.c_code_str()
        except Exception as e:
            out["err:codestr:%d" % i] = errtext(e)
    for i, lst in enumerate(compile_lists):
        try:
            c, h = compile_procs_to_strings(list(lst), "c18.h")
            out["c:compile:%d" % i] = c
            out["h:compile:%d" % i] = h
        except Exception as e:
            out["err:compile:%d" % i] = errtext(e)
    return out


def child(jobfile: str, outfile: str):
    job = json.load(open(jobfile))
    var = job["variant"]
    if var.get("gc") == "off":
        import gc
        gc.disable()
    scratch = job["scratch"]
    os.makedirs(scratch, exist_ok=True)
    t0 = time.time()
    import exo  # noqa: F401
    keep = prehistory(var.get("pre", {}), scratch)
    res = {"variant": var, "sessions": {}, "t_import": round(time.time() - t0, 2)}
    for n, s in enumerate(job["sessions"]):
        sid = s["id"]
        t1 = time.time()
        try:
            if "src" not in s:  # recorder: generate the program here, under the recorder's fixed PYTHONHASHSEED
                import random
                import progen
                g = progen.ProgGen(random.Random(s["gen"]["seed"]), s["gen"]["uid"], s["gen"]["features"])
                s["src"] = g.module().replace(progen.HEADER, "")
            src = layout(s["src"].replace("PRE_K", str(var.get("pre_k", 0))), int(var.get("layout", 0)), "s%d" % n)
            mod = _load(src, "c18_sess_%d" % n, scratch)
            if s["kind"] == "hand":
                sess = mod.SESSION
                out = outputs_of(sess["print"], sess["compile"])
            else:
                if job.get("record"):
                    s["steps"] = record_schedule(mod, s["seed"], s["nsteps"])
                p, log = apply_schedule(mod, s["steps"])
                out = {"sched:log": "\n".join(log)}
                subs = [v for k, v in vars(mod).items() if type(v).__name__ == "Procedure" and k.startswith("sub")]
                out.update(outputs_of([p] + subs[:2], [[p], [p] + subs, list(reversed(subs)) + [mod.foo]]))
                if job.get("record"):
                    out["steps"] = s["steps"]
                    out["src"] = s["src"]
        except Exception as e:
            out = {"err:session": errtext(e), "_trace": traceback.format_exc()[-1500:]}
            if job.get("record") and "src" in s:
                out["src"] = s["src"]
        out["_t"] = round(time.time() - t1, 2)
        res["sessions"][sid] = out
    del keep
    with open(outfile, "w") as f:
        json.dump(res, f)


# ----------------------------------------------------------------------------------------------------------------
# Sym-counter digit boundaries (the class "the ORDER of two symbols depends on the absolute counter value")
#
# One fixed kernel whose simplified index expression holds two DISTINCT symbols with the SAME name and EQUAL
# coefficients: the caller's loop variable i and the i of an inlined callee, brought into one expression by
# inline_window; simplify's sorted(normalization_list) then has nothing but Sym.__lt__ to order them.  The kernel is
# built (a) several times in ONE process and (b) in fresh processes, after unrelated procedures / Syms have moved
# the process-global counter so that the ids of the two symbols lie on either side of 10^k (9|10, 99|100, 999|1000
# digits...) or well inside one digit count.  str(p), C and header text must be the same in every build.
BOUNDARY_SRC = """
@proc
def bnd_callee(w: [f32][8]):
    for i in seq(0, 4):
        w[i] = 1.0
        w[i + 4] += w[i]

@proc
def bnd_kernel(x: f32[16], y: f32[16]):
    for i in seq(0, 4):
        bnd_callee(x[i:i + 8])
        y[i] = x[i]

RESULT0 = inline(bnd_kernel, "bnd_callee(_)")
RESULT1 = inline_window(RESULT0, "w = _")
RESULT = simplify(RESULT1)
"""


def _iter_ids(p, name="i"):
    """ids of the loop variables called `name` in a procedure (the two symbols that meet in x[i + i_1])"""
    from exo.core.LoopIR import LoopIR
    ids = []

    def walk(stmts):
        for st in stmts:
            if isinstance(st, LoopIR.For):
                if str(st.iter) == name:
                    ids.append(st.iter._id)
                walk(st.body)
            elif isinstance(st, LoopIR.If):
                walk(st.body)
                walk(st.orelse)

    walk(p._loopir_proc.body)
    return sorted(ids)


def boundary(jobfile: str, outfile: str):
    """builds: list of {"kind": "natural"} | {"kind": "straddle", "pow": k} | {"kind": "inside", "pow": k};
    offsets (a, b) of the two symbols' ids from the counter value at the start of a build come from the job (fresh
    processes: measured by an earlier process) or from the previous build of this process."""
    job = json.load(open(jobfile))
    scratch = job["scratch"]
    os.makedirs(scratch, exist_ok=True)
    import exo  # noqa: F401
    from exo.core.prelude import Sym
    keep = prehistory({"procs": job.get("pre_procs", 0)}, scratch)
    off = job.get("offsets")
    res = {"builds": [], "counter_after_import": Sym._unq_count}
    for n, spec in enumerate(job["builds"]):
        cur = Sym._unq_count
        target = cur
        if spec["kind"] in ("straddle", "inside"):
            if off is None:
                res["builds"].append({"spec": spec, "skipped": "no offsets yet"})
                continue
            a, b = off
            target = 10 ** spec["pow"] - (a + b + 1) // 2 if spec["kind"] == "straddle" else 2 * 10 ** spec["pow"]
        if target < cur:
            res["builds"].append({"spec": spec, "skipped": "counter already at %d > %d" % (cur, target)})
            continue
        for _ in range(target - cur):  # unrelated symbols created earlier in the process
            Sym("pad")
        start = Sym._unq_count
        rec = {"spec": spec, "start": start}
        try:
            mod = _load(HEADER + BOUNDARY_SRC, "c18_bnd_%d" % n, scratch)
            p = mod.RESULT
            ids = _iter_ids(p)
            rec["ids"] = ids
            rec["out"] = outputs_of([mod.RESULT1, p], [[p]])
            if len(ids) >= 2:
                off = [ids[0] - start, ids[-1] - start]
                rec["offsets"] = off
        except Exception as e:
            rec["out"] = {"err:session": errtext(e)}
            rec["_trace"] = traceback.format_exc()[-1200:]
        res["builds"].append(rec)
    del keep
    with open(outfile, "w") as f:
        json.dump(res, f)


if __name__ == "__main__":
    if sys.argv[1] == "boundary":
        boundary(sys.argv[2], sys.argv[3])
        sys.exit(0)
    if sys.argv[1] == "child":
        child(sys.argv[2], sys.argv[3])
