"""C15 worker process: generate cases, push them through the REAL front end / scheduling operators / backend, export
the skeleton for the model, and (optionally) feed every successful compile to a real C compiler.

usage: c15_worker.py JOB.json      (run with common.exo_env(): PYTHONPATH = $EXO_REPO/src : harness, PYTHONHASHSEED=0)
JOB = {"seed": int, "stream": "annot"|"progen"|"corpus", "start": int, "count": int, "out": path,
       "gcc": bool, "workdir": path}
One JSON record per case is written to `out` (json lines)."""
from __future__ import annotations

import json
import os
import random
import re
import subprocess
import sys
import time
import traceback

sys.path.insert(0, os.path.dirname(os.path.abspath(__file__)))
import common  # noqa: E402
import progen  # noqa: E402
import c15_gen  # noqa: E402

GCC_FLAGS = ["-std=c11", "-fsyntax-only", "-Wall", "-Werror=incompatible-pointer-types", "-Werror=int-conversion",
             "-Werror=discarded-qualifiers", "-Werror=implicit-function-declaration", "-mavx2", "-mfma"]


def classify_exc(e) -> str:
    from exo.core.memory import MemGenError
    m = str(e)
    if isinstance(e, MemGenError):
        if "cannot read from buffer" in m:
            return "read"
        if "cannot write to buffer" in m:
            return "write"
        if "cannot reduce to buffer" in m:
            return "reduce"
        if "static memory in non-leaf" in m:
            return "static"
        return "alloc"
    if isinstance(e, TypeError):
        if "not parallelizable" in m:
            return "par"
        if "precision checking" in m:
            return "prec"
        if "expected a non-window tensor" in m:
            return "win"
        if "expected argument in" in m and "but got an argument in" in m:
            return "mem"
        if "multiple procs named" in m:
            return "dupname"
    return "crash:" + type(e).__name__


_NOTE = re.compile(r"expected [\u2018'](.+?)[\u2019'](?: \{aka [^}]*\})? but argument is of type [\u2018'](.+?)[\u2019']")


def _arg_mismatch_class(note: str) -> str:
    """class of an `incompatible type for argument` error from gcc's note `expected 'X' but argument is of type 'Y'`"""
    m = _NOTE.search(note)
    if m:
        exp, got = m.group(1), m.group(2)
        ew, gw = re.match(r"struct (exo_win_\w+)$", exp), re.match(r"struct (exo_win_\w+)$", got)
        if ew and gw:
            if ew.group(1) == gw.group(1) + "c":
                return "const-window-arg"          # non-const window struct for the const variant
            if gw.group(1) == ew.group(1) + "c":
                return "const-window-arg-rev"      # const window struct for the non-const variant
            return "window-struct-mismatch"
        if gw and "*" in exp:
            return "window-for-pointer"
        if ew and "*" in got:
            return "pointer-for-window"
    return "incompatible-arg"


def classify_gcc_line(l: str, following: str) -> str:
    """class of one diagnostic line; `following` = the lines up to the next error/warning (notes, excerpts)"""
    if "error:" not in l and "warning:" not in l:
        return ""
    msg = (l.split("error:")[-1] if "error:" in l else l.split("warning:")[-1]).strip()
    if "incompatible type for argument" in msg:
        return _arg_mismatch_class(following)
    if "array size missing" in msg or "storage size of" in msg:
        return "unsized-array"
    if "assignment to expression with array type" in msg or ("incompatible types when assigning" in msg and "*" in msg):
        return "unsized-array-use"
    if "decrement of read-only" in msg or "increment of read-only" in msg or "lvalue required as decrement" in msg \
            or "lvalue required as increment" in msg:
        return "decrement-operator"
    if "read-only" in msg:
        return "const-window-write"
    if "incompatible-pointer-types" in msg or "incompatible pointer type" in msg:
        return "incompatible-pointer"
    if "discards" in msg and "qualifier" in msg:
        return "discarded-qualifier"
    if "implicit declaration" in msg:
        return "implicit-decl"
    if "makes integer from pointer" in msg or "makes pointer from integer" in msg:
        return "int-conversion"
    if "may be undefined" in msg:
        return "sequence-point"
    if "warning:" in l and "error:" not in l:
        if re.search(r"unused|set but not used|Wunused", msg):
            return ""  # -Wall noise that is not a validity problem
        if "overflow in conversion" in msg or "Woverflow" in msg:
            return ""  # a negative literal stored into an unsigned buffer: the user's program, not the translation
        return "warning:" + "-".join(re.sub(r"[^a-z ]", "", msg.lower()).split()[:3])
    return "other:" + "-".join(re.sub(r"[^a-z ]", "", msg.lower()).split()[:3])


def classify_gcc(out: str) -> list:
    """classes of all diagnostics of one case, in order of appearance, without duplicates"""
    res = []
    lines = out.splitlines()
    for k, l in enumerate(lines):
        if "error:" not in l and "warning:" not in l:
            continue
        foll = []
        for l2 in lines[k + 1:]:
            if "error:" in l2 or "warning:" in l2:
                break
            foll.append(l2)
        c = classify_gcc_line(l, "\n".join(foll))
        if c and c not in res:
            res.append(c)
    if "unsized-array" in res and "unsized-array-use" in res:
        res.remove("unsized-array-use")
    return res


def lint_c(source: str) -> list:
    """textual checks on the emitted C that a compiler does not diagnose: exo has no increment / decrement, so a
    `--` or `++` token in the text is two unary operators glued together (`-(-(x))` printed as `--x`)"""
    res = []
    for l in source.splitlines():
        t = l.strip()
        if t.startswith("//") or t.startswith("#") or t.startswith("*"):
            continue
        t = re.sub(r"\b(\w+)\+\+\)", r"\1)", t)  # the loop header `i++)`
        if re.search(r"--|\+\+", t):
            res.append("decrement-operator")
            break
    return res


def run_gcc_batch(workdir, items, hname, header_every=1, batch=10):
    """items: [(cid, source, header)] -> {cid: {"rc":…, "classes": [...], "out": text}}; one gcc driver call per
    `batch` cases (diagnostics carry the file path, so they are split back per case)."""
    dirs, hdr = {}, set()
    for n_item, (cid, source, header) in enumerate(items):
        dn = re.sub(r"[^A-Za-z0-9_]", "_", cid)
        d = os.path.join(workdir, dn)
        os.makedirs(d, exist_ok=True)
        with open(os.path.join(d, hname), "w") as f:
            f.write(header)
        with open(os.path.join(d, "u.c"), "w") as f:
            f.write(source)
        with open(os.path.join(d, "h.c"), "w") as f:  # the header alone must be a valid translation unit too
            f.write('#include "%s"\n#include "%s"\n' % (hname, hname))
        dirs[dn] = cid
        if header_every and n_item % header_every == 0:
            hdr.add(dn)
    res = {cid: {"rc": 0, "classes": [], "out": ""} for cid, _, _ in items}
    names = list(dirs)
    for k in range(0, len(names), batch):
        chunk = names[k:k + batch]
        files = []
        for dn in chunk:
            files.append(dn + "/u.c")
            if dn in hdr:
                files.append(dn + "/h.c")
        try:
            p = subprocess.run(["gcc"] + GCC_FLAGS + files, cwd=workdir, capture_output=True, text=True, timeout=600)
            out, rc = p.stderr + p.stdout, p.returncode
        except subprocess.TimeoutExpired:
            out, rc = "", 124
        if rc == 124:
            for dn in chunk:
                res[dirs[dn]].update(rc=124, classes=["other:gcc-timeout"], out="gcc timeout")
            continue
        cur = None
        for l in out.splitlines():
            m = re.match(r"(?:In file included from |\s+from )?([A-Za-z0-9_]+)/(?:u\.c|h\.c|%s)[:,]" % re.escape(hname), l)
            if m and m.group(1) in dirs:
                cur = dirs[m.group(1)]
            if cur is not None:
                res[cur]["out"] += l + "\n"
    for dn, cid in dirs.items():
        r = res[cid]
        r["classes"] = r["classes"] or classify_gcc(r["out"])
        if r["classes"]:
            r["rc"] = r["rc"] or 1
        r["out"] = r["out"][:3000]
        d = os.path.join(workdir, dn)
        if not r["classes"]:  # keep the directory only when something was diagnosed
            for fn in os.listdir(d):
                os.unlink(os.path.join(d, fn))
            os.rmdir(d)
    return res


def annotate_progen(rng, src, uid):
    """progen module text + random annotation operations on the top procedure (real set_* calls, in the text)."""
    import ast
    extra = ["from exo.libs.memories import DRAM_STACK, DRAM_STATIC, AVX2",
             "from c15_mems import C15_RO, C15_NR, C15_ACC, C15_STK2"]
    # names of numeric arguments / allocations of foo: parse the text
    tree = ast.parse(src)
    foo = [n for n in tree.body if isinstance(n, ast.FunctionDef) and n.name == "foo"][0]
    names = []
    for a in foo.args.args:
        ann = ast.unparse(a.annotation) if a.annotation is not None else ""
        if "R" in re.findall(r"[A-Za-z_0-9]+", ann):
            names.append((a.arg, "arg", "[" in ann))
    for n in ast.walk(foo):
        if isinstance(n, ast.AnnAssign) and isinstance(n.target, ast.Name):
            names.append((n.target.id, "alloc", "[" in ast.unparse(n.annotation)))
    ops = []
    mode = rng.random()
    target = rng.choice(["f32", "f64", "f64", "i32", "f16"])
    seen = {}
    for (nm, org, tens) in names:
        seen[nm] = seen.get(nm, 0) + 1
        pat = nm if seen[nm] == 1 else "%s #%d" % (nm, seen[nm] - 1)
        if org == "arg" and seen[nm] > 1:
            continue
        if mode < 0.5 and rng.random() < 0.9:
            ops.append('foo = set_precision(foo, "%s", "%s")' % (pat, target))
        elif rng.random() < 0.1:
            ops.append('foo = set_precision(foo, "%s", "%s")' % (pat, rng.choice(c15_gen.PRECS[1:])))
        if rng.random() < 0.25:
            m = rng.choice(c15_gen.DRAMISH) if rng.random() < 0.85 else rng.choice(c15_gen.ODD_MEMS)
            if org == "arg" and rng.random() < 0.6:
                m = "DRAM"
            ops.append('foo = set_memory(foo, "%s", %s)' % (pat, m))
        if org == "arg" and tens and rng.random() < 0.15:
            ops.append('foo = set_window(foo, "%s", True)' % pat)
    if rng.random() < 0.4:
        ops.append("foo = _c15_try_inline(foo)")
    helper = ("def _c15_try_inline(p):\n"
              "    try:\n"
              "        return inline(p, p.find('_(_)', many=True)[0]) if p.find('_(_)', many=True) else p\n"
              "    except Exception:\n"
              "        return p\n")
    return src.replace(progen.HEADER, progen.HEADER + "\n".join(extra) + "\n" + helper, 1) + "\n" + "\n".join(ops) + "\n"


def build_case(job, i):
    stream, seed = job["stream"], job["seed"]
    cid = "%s-%d-%d" % (stream, seed, i)
    if stream == "annot":
        c = c15_gen.gen_case("c15:%d:%d" % (seed, i), "c%d" % i)
        return cid, c["src"], c["top"], {"depth": c["depth"], "mode": c["mode"], "knobs": c["knobs"]}
    if stream == "progen":
        rng = random.Random("c15p:%d:%d" % (seed, i))
        g = progen.ProgGen(rng, "q%d" % i, {"par": 0.0, "config": 0.1, "calls": 0.6, "windows": 0.5})
        src = annotate_progen(rng, g.module(), "q%d" % i)
        return cid, src, "foo", {}
    if stream == "corpus":
        import c15_corpus
        name, src, top = c15_corpus.CASES[i]
        return "corpus-" + name, src, top, {}
    raise ValueError(stream)


def run_case(job, i):
    import exo
    from exo import compile_procs_to_strings
    import c15_export
    t0 = time.time()
    cid, src, top, meta = build_case(job, i)
    rec = {"id": cid, "stream": job["stream"], "index": i, "src": src, "top": top, "meta": meta}
    mod, err = progen.load_module(src, "c15")
    if mod is None:
        rec["load_err"] = err
        return rec, None, None
    p = getattr(mod, top)
    # model input
    try:
        line, info = c15_export.export_case(re.sub(r"[^A-Za-z0-9_\-]", "_", cid), [p._loopir_proc])
        rec["export"], rec["info"] = line, info
    except c15_export.Unsupported as e:
        rec["export_err"] = str(e)
    except Exception as e:
        rec["export_err"] = "crash %s: %s" % (type(e).__name__, e)
    # the real backend
    hname = "c15.h"
    try:
        source, header = compile_procs_to_strings([p], hname)
        rec["impl"] = {"verdict": "ok"}
    except BaseException as e:
        cls = classify_exc(e)
        rec["impl"] = {"verdict": "err", "class": cls, "msg": str(e)[:400]}
        if cls.startswith("crash"):
            rec["impl"]["tb"] = traceback.format_exc()[-1200:]
            frames = traceback.extract_tb(e.__traceback__)
            if frames and re.search(r"exo/(libs/memories|core/memory|libs/externs|core/extern)\.py$", frames[-1].filename):
                # raised inside a Memory / Extern code-string method: opaque to the model
                rec["impl"]["class"] = "opaque-mem:" + type(e).__name__
        source = header = None
    rec["t"] = round(time.time() - t0, 3)
    return rec, source, header


def main():
    """JOB = {"seed", "parts": [{"stream", "start", "count", "gcc_limit"}], "out", "workdir", "header_every",
              "gen_budget_s", "gcc_budget_s"}: the parts are processed in order; generation stops when gen_budget_s of wall
    time are used (the remaining cases are reported as not run), the gcc batches stop after gcc_budget_s more."""
    t_start = time.time()
    job = json.load(open(sys.argv[1]))
    recs, togcc, skipped = [], [], 0
    gen_budget = job.get("gen_budget_s") or 1e9
    for part in job["parts"]:
        pj = dict(job, stream=part["stream"])
        n_gcc_part = 0
        for i in range(part["start"], part["start"] + part["count"]):
            if time.time() - t_start > gen_budget:
                skipped += 1
                continue
            try:
                rec, source, header = run_case(pj, i)
            except BaseException as e:  # never lose a case silently
                rec = {"id": "%s-%d-%d" % (part["stream"], job["seed"], i), "stream": part["stream"], "index": i,
                       "worker_crash": "%s: %s" % (type(e).__name__, e), "tb": traceback.format_exc()[-1500:]}
                source = header = None
            recs.append(rec)
            lim = part.get("gcc_limit")
            if source is not None and (lim is None or n_gcc_part < lim):
                n_gcc_part += 1
                togcc.append((rec["id"], source, header))
    gt, done = 0.0, 0
    if togcc:
        t0 = time.time()
        texts = {cid: (s_, h_) for cid, s_, h_ in togcc}
        byid = {r["id"]: r for r in recs}
        budget = job.get("gcc_budget_s") or 1e9
        B = 4
        for k in range(0, len(togcc), B):
            if time.time() - t0 > budget:
                break
            chunk = togcc[k:k + B]
            res = run_gcc_batch(job["workdir"], chunk, "c15.h", header_every=job.get("header_every", 1), batch=B)
            for cid, r in res.items():
                for extra in lint_c(texts[cid][0]):
                    if extra not in r["classes"]:
                        r["classes"].append(extra)
                        r["out"] += "\n[lint] the C text contains a `--` / `++` token (double unary operator printed without separation)"
                byid[cid]["gcc"] = r
                done += 1
                if r["classes"]:
                    byid[cid]["c"], byid[cid]["h"] = texts[cid]
        gt = time.time() - t0
    with open(job["out"], "w") as out:
        for rec in recs:
            out.write(json.dumps(rec) + "\n")
        out.write(json.dumps({"summary": True, "gcc_s": round(gt, 2), "n_gcc": done, "gcc_unchecked": len(togcc) - done,
                              "not_run": skipped, "wall_s": round(time.time() - t_start, 1)}) + "\n")


if __name__ == "__main__":
    main()
