"""C15 generator: Exo source text of small call chains (depth <= 3) whose arguments and allocations carry
precision / memory / window annotations, written in the source (`x: f32[8] @ DRAM_STACK`, `[R][8]`) and applied
afterwards through the REAL set_precision / set_memory / set_window (the calls are part of the generated module text,
so a case is one self-contained, replayable Python source).

Front-end validity does not depend on the annotations (the type checker ignores precision, memory and window-ness of
call arguments), so every generated module loads unless a scheduling call refuses; whether the BACK END accepts is what
C15 is about.  Shapes are constant ([8], [4, 8], sub-windows of 4) so bounds checks always pass; one call never
receives two views of one root buffer (the aliasing check would refuse).

Every random choice comes from the `random.Random` handed in."""
from __future__ import annotations

import random

HEADER = (
    "from __future__ import annotations\n"
    "from exo import proc, DRAM\n"
    "from exo.libs.memories import DRAM_STACK, DRAM_STATIC, AVX2\n"
    "from exo.libs.externs import relu, select\n"
    "from exo.stdlib.scheduling import *\n"
    "from c15_mems import C15_RO, C15_NR, C15_ACC, C15_STK2\n"
)

PRECS = ["R", "f32", "f64", "f16", "i8", "ui8", "ui16", "i32"]
DRAMISH = ["DRAM", "DRAM_STACK", "DRAM_STATIC", "C15_STK2"]
ODD_MEMS = ["C15_RO", "C15_NR", "C15_ACC", "AVX2"]


class Buf:
    def __init__(self, name, kind, win, prec, mem, origin, ln=8, root=None):
        self.name, self.kind, self.win, self.prec, self.mem, self.origin, self.ln = name, kind, win, prec, mem, origin, ln
        self.root = root or name

    def dims(self):
        return {"s": "", "v": "%d" % self.ln, "m": "4, 8"}[self.kind]

    def decl(self):
        p = self.prec
        if self.kind == "s":
            t = p
        elif self.win:
            t = "[%s][%s]" % (p, self.dims())
        else:
            t = "%s[%s]" % (p, self.dims())
        return "%s: %s%s" % (self.name, t, (" @ " + self.mem) if self.mem else "")


class AnnotGen:
    def __init__(self, rng: random.Random, uid: str = ""):
        self.rng = rng
        self.uid = uid
        r = rng.random()
        # how noisy this case is: 0 = everything drawn from one plan (mostly accepted)
        self.eps = rng.choice([0.0, 0.0, 0.0, 0.06, 0.15, 0.35])
        self.eps_m = rng.choice([0.0, 0.0, 0.05, 0.15])
        self.base = rng.choice(["R", "R", "R", "f32", "f32", "f64", "f64", "f16", "i8", "i32", "ui8", "ui16"])
        self.mode = "ops" if r < 0.35 else "src"
        self.target = rng.choice(["f32", "f64", "f64", "f16", "i8", "i32"]) if self.mode == "ops" else None
        self.p_inline = rng.choice([0.0, 0.0, 0.25, 0.5])
        self.p_setwin = rng.choice([0.0, 0.1, 0.3])
        self.eps_w = rng.choice([0.0, 0.0, 0.1, 0.3])
        self.fresh = 0
        self.procs: list[dict] = []
        self.text: list[str] = [HEADER]
        self.tags: set[str] = set()

    # ------------------------------------------------------------------ helpers
    def nm(self, base):
        self.fresh += 1
        return "%s%d" % (base, self.fresh)

    def prec(self):
        if self.rng.random() < self.eps:
            return self.rng.choice(PRECS)
        return self.base

    def mem(self, is_arg):
        rng = self.rng
        if rng.random() < self.eps_m:
            return rng.choice(ODD_MEMS + DRAMISH)
        if is_arg:
            return None if rng.random() < 0.8 else "DRAM"
        r = rng.random()
        if r < 0.5:
            return None
        return rng.choice(DRAMISH)

    # ------------------------------------------------------------------ expressions
    def elem(self, b: Buf, ivars):
        rng = self.rng
        if b.kind == "s":
            return b.name
        if b.kind == "v":
            choices = [str(rng.randrange(b.ln))]
            if ivars:
                choices += [ivars[-1]] * 2
                if b.ln >= 8:
                    choices.append("%s + 4" % ivars[-1])
            return "%s[%s]" % (b.name, rng.choice(choices))
        r = str(rng.randrange(4)) if len(ivars) < 2 or rng.random() < 0.3 else ivars[0]
        c = ivars[-1] if ivars and rng.random() < 0.7 else str(rng.randrange(8))
        return "%s[%s, %s]" % (b.name, r, c)

    def const(self):
        return self.rng.choice(["0.0", "1.0", "2.0", "0.5", "3.0"])

    def rhs(self, bufs, ivars, depth=2):
        rng = self.rng
        r = rng.random()
        if depth == 0 or r < 0.3:
            if rng.random() < 0.3 or not bufs:
                return self.const()
            return self.elem(rng.choice(bufs), ivars)
        if r < 0.75:
            return "%s %s %s" % (self.rhs(bufs, ivars, depth - 1), rng.choice(["+", "*", "-", "+"]), self.rhs(bufs, ivars, depth - 1))
        if r < 0.83:
            return "-(%s)" % self.rhs(bufs, ivars, depth - 1)
        if r < 0.92:
            return "relu(%s)" % self.rhs(bufs, ivars, depth - 1)
        return "select(%s, %s, %s, %s)" % tuple(self.rhs(bufs, ivars, depth - 1) for _ in range(4))

    # ------------------------------------------------------------------ statements
    def assign(self, bufs, ivars, ind):
        rng = self.rng
        tgt = rng.choice(bufs)
        op = "+=" if rng.random() < 0.3 else "="
        return ["%s%s %s %s" % (ind, self.elem(tgt, ivars), op, self.rhs(bufs, ivars))]

    def alloc(self, bufs, ind, kind=None, ln=8):
        rng = self.rng
        forced = kind is not None
        kind = kind or rng.choice(["s", "v", "v", "m"])
        b = Buf(self.nm("t"), kind, False, self.prec(), self.mem(False), "alloc", ln)
        if kind == "s" and b.mem in ("DRAM_STACK", "DRAM_STATIC", "C15_STK2") and rng.random() < 0.85:
            b.mem = None  # a scalar in these memories is the known unsized-array defect; keep it rare
        if b.mem == "AVX2" and (kind != "v" or ln != 8):
            if forced:
                b.mem = None
            else:
                b.kind, b.ln = "v", 8
        bufs.append(b)
        out = ["%s%s" % (ind, b.decl())]
        # initialise one element so that later reads are of something written (irrelevant to C15, keeps exo happy)
        if rng.random() < 0.6:
            out.append("%s%s = %s" % (ind, self.elem(b, []), self.const()))
        return out

    def window(self, bufs, ind):
        rng = self.rng
        src = [b for b in bufs if b.kind in "vm"]
        if not src:
            return []
        b = rng.choice(src)
        w = self.nm("w")
        if b.kind == "m":
            if rng.random() < 0.6:
                e, nb = "%s[%d, 0:8]" % (b.name, rng.randrange(4)), Buf(w, "v", True, b.prec, b.mem, "winvar", 8, b.root)
            else:
                e, nb = "%s[0:4, 0:8]" % b.name, Buf(w, "m", True, b.prec, b.mem, "winvar", 8, b.root)
        elif b.ln == 8:
            if rng.random() < 0.6:
                e, nb = "%s[0:8]" % b.name, Buf(w, "v", True, b.prec, b.mem, "winvar", 8, b.root)
            else:
                lo = rng.randrange(5)
                e, nb = "%s[%d:%d]" % (b.name, lo, lo + 4), Buf(w, "v", True, b.prec, b.mem, "winvar", 4, b.root)
        else:
            e, nb = "%s[0:4]" % b.name, Buf(w, "v", True, b.prec, b.mem, "winvar", 4, b.root)
        bufs.append(nb)
        return ["%s%s = %s" % (ind, w, e)]

    def call(self, bufs, ivars, ind, lower):
        rng = self.rng
        f = rng.choice(lower)
        pre, args, used = [], [], set()
        for (_, kind, win, ln) in f["formals"]:
            cands = []
            # a dense formal is mostly given a dense buffer by name (anything else is a window error)
            dense_only = kind != "s" and not win and rng.random() >= self.eps_w
            for b in bufs:
                if b.root in used:
                    continue
                if kind == "s" and b.kind == "s":
                    cands.append((b.name, b))
                elif kind == "v":
                    if b.kind == "v" and b.ln == ln:
                        cands.append((b.name, b))
                        cands.append(("%s[0:%d]" % (b.name, ln), b))
                    elif b.kind == "v" and b.ln > ln:
                        lo = rng.randrange(b.ln - ln + 1)
                        cands.append(("%s[%d:%d]" % (b.name, lo, lo + ln), b))
                    elif b.kind == "m" and ln == 8:
                        cands.append(("%s[%s, 0:8]" % (b.name, ivars[0] if ivars and rng.random() < 0.5 else rng.randrange(4)), b))
                elif kind == "m" and b.kind == "m":
                    cands.append((b.name, b))
                    cands.append(("%s[0:4, 0:8]" % b.name, b))
            if dense_only:
                cands = [(t, b) for (t, b) in cands if t == b.name and not b.win]
            if not cands or rng.random() < 0.15:
                pre += self.alloc(bufs, ind, kind, ln if kind == "v" else 8)
                b = bufs[-1]
                cands = [(b.name, b)]
            txt, b = rng.choice(cands)
            used.add(b.root)
            args.append(txt)
        return pre + ["%s%s(%s)" % (ind, f["name"], ", ".join(args))]

    def block(self, bufs, ivars, ind, lower, budget, depth):
        rng = self.rng
        out = []
        n = rng.randint(1, 3)
        called = False
        for _ in range(n):
            if budget[0] <= 0:
                break
            budget[0] -= 1
            r = rng.random()
            if r < 0.12 and depth < 2 and len(ivars) < 2:
                iv = "ij"[len(ivars)] + str(self.fresh)
                self.fresh += 1
                inner_bufs = list(bufs)
                body = self.block(inner_bufs, ivars + [iv], ind + "    ", lower, budget, depth + 1)
                if body:
                    out.append("%sfor %s in seq(0, 4):" % (ind, iv))
                    out += body
            elif r < 0.18 and ivars:
                inner_bufs = list(bufs)
                body = self.block(inner_bufs, ivars, ind + "    ", lower, budget, depth + 1)
                if body:
                    out.append("%sif %s < 2:" % (ind, ivars[-1]))
                    out += body
            elif r < 0.33:
                out += self.alloc(bufs, ind)
            elif r < 0.45:
                out += self.window(bufs, ind)
            elif r < 0.75 and lower:
                out += self.call(bufs, ivars, ind, lower)
                called = True
            else:
                out += self.assign(bufs, ivars, ind)
        return out

    # ------------------------------------------------------------------ procedures
    def gen_proc(self, level, lower):
        rng = self.rng
        name = self.nm("p%d_%s" % (level, self.uid))
        nargs = rng.randint(1, 3) if level < 3 else rng.randint(2, 4)
        bufs, formals = [], []
        for _ in range(nargs):
            kind = rng.choice(["s", "v", "v", "v", "m"])
            win = kind != "s" and rng.random() < 0.4
            b = Buf(self.nm("a"), kind, win, self.prec(), self.mem(True), "arg", 4 if (kind == "v" and rng.random() < 0.15) else 8)
            if b.mem == "AVX2" and kind != "v":
                b.mem = None
            bufs.append(b)
            formals.append((b.name, kind, win, b.ln))
        args = list(bufs)
        budget = [rng.randint(2, 6)]
        body = self.block(bufs, [], "    ", lower, budget, 0)
        if lower and not any(("(" in l and l.strip().split("(")[0] in [f["name"] for f in lower]) for l in body):
            body += self.call(bufs, [], "    ", lower[-1:])
        if not body:
            body = ["    pass"]
        src = "@proc\ndef %s(%s):\n%s\n" % (name, ", ".join(b.decl() for b in args), "\n".join(body))
        ops = []
        # --- annotation through the real scheduling operators
        allbufs = [b for b in bufs if b.origin in ("arg", "alloc")]
        if self.mode == "ops":
            for b in allbufs:
                if rng.random() >= self.eps:
                    ops.append('%s = set_precision(%s, "%s", "%s")' % (name, name, b.name, self.target))
        for b in allbufs:
            if rng.random() < self.eps * 0.5:
                ops.append('%s = set_precision(%s, "%s", "%s")' % (name, name, b.name, rng.choice(PRECS[1:])))
            if rng.random() < 0.12:
                m = rng.choice(DRAMISH if rng.random() >= self.eps_m else ODD_MEMS) if b.origin == "alloc" or rng.random() < 0.3 else "DRAM"
                ops.append('%s = set_memory(%s, "%s", %s)' % (name, name, b.name, m))
            if b.origin == "arg" and b.kind != "s" and not b.win and rng.random() < self.p_setwin:
                ops.append('%s = set_window(%s, "%s", True)' % (name, name, b.name))
                formals = [(fn, k, True if fn == b.name else w, ln) for (fn, k, w, ln) in formals]
        called = [f["name"] for f in lower if any(l.strip().startswith(f["name"] + "(") for l in body)]
        if called and rng.random() < self.p_inline:
            callee = rng.choice(called)
            ops.append("%s = inline(%s, \"%s(_)\")" % (name, name, callee))
        self.text.append(src + "\n".join(ops) + ("\n" if ops else ""))
        d = {"name": name, "formals": formals, "level": level}
        self.procs.append(d)
        return d

    def module(self):
        rng = self.rng
        depth = rng.choice([0, 1, 1, 2, 2, 3])
        levels: list[list[dict]] = []
        for lv in range(depth + 1):
            lower = [p for l in levels for p in l]
            # a proc at level lv must be able to call level lv-1: put those last so gen_proc's fallback uses them
            lower = [p for p in lower if p["level"] < lv - 1] + [p for p in lower if p["level"] == lv - 1]
            k = 1 if lv == depth else rng.choice([1, 1, 2])
            levels.append([self.gen_proc(lv, lower) for _ in range(k)])
        top = levels[-1][0]["name"]
        return {"src": "\n".join(self.text), "top": top, "depth": depth, "mode": self.mode,
                "knobs": {"eps": self.eps, "eps_m": self.eps_m, "base": self.base, "target": self.target,
                          "p_inline": self.p_inline, "p_setwin": self.p_setwin, "eps_w": self.eps_w}}


def gen_case(seed_str: str, uid: str = ""):
    rng = random.Random(seed_str)
    return AnnotGen(rng, uid).module()
