"""Reference closure for C11 (the same definition as Spec.v: conn_all / conn_k).

A history is a list of events  ("decl", p) | ("step", p, q, K)  with K a tuple of keys.
`effective(items)` turns a job (list of driver items, see coq/Eqv/driver.ml) into the events that
took effect (history_of in Spec.v): a step whose endpoints are not both declared raises KeyError in
the implementation and records nothing.
"""
from itertools import combinations


def effective(items, hist=None, declared=None):
    hist = [] if hist is None else hist
    declared = set() if declared is None else declared
    for it in items:
        op = it[0]
        if op == "decl":
            declared.add(it[1])
            hist.append(("decl", it[1]))
        elif op == "derive":
            _, p, q, K = it
            declared.add(q)
            hist.append(("decl", q))
            if p in declared:
                hist.append(("step", p, q, tuple(K)))
        elif op == "assert":
            _, p, q, K = it
            if p in declared and q in declared:
                hist.append(("step", p, q, tuple(K)))
    return hist, declared


def reach(hist, src, usable):
    """BFS over the steps for which usable(K) holds (each step is an undirected edge)."""
    seen, todo = {src}, [src]
    while todo:
        a = todo.pop()
        for ev in hist:
            if ev[0] == "step" and usable(ev[3]):
                for x, y in ((ev[1], ev[2]), (ev[2], ev[1])):
                    if x == a and y not in seen:
                        seen.add(y)
                        todo.append(y)
    return seen


def conn_all(hist, p, q):
    return q in reach(hist, p, lambda K: True)


def conn_k(hist, k, p, q):
    return q in reach(hist, p, lambda K: k not in K)


def conn_within(hist, Kq, p, q):
    return q in reach(hist, p, lambda K: set(K) <= set(Kq))


def mentioned_keys(hist):
    return sorted({k for ev in hist if ev[0] == "step" for k in ev[3]})


def expect_check(hist, p, q, K):
    """What check_eqv_proc(p, q, K) must answer for declared p, q."""
    if not conn_all(hist, p, q):
        return False
    # a key no step mentions has conn_k = conn_all, so only mentioned keys matter
    return all(conn_k(hist, k, p, q) for k in mentioned_keys(hist) if k not in K)


def expect_strictest(hist, p, q):
    if not conn_all(hist, p, q):
        return (False, ())
    return (True, tuple(k for k in mentioned_keys(hist) if not conn_k(hist, k, p, q)))


def subsets(keys):
    """All subsets in the bitmask order used by the drivers' sweep."""
    keys = list(keys)
    return [tuple(keys[i] for i in range(len(keys)) if m >> i & 1) for m in range(1 << len(keys))]


def expect_sweep(hist, declared, procs, keys):
    """The token the drivers print for (sweep procs keys), computed from the closure alone."""
    comp_all = {p: reach(hist, p, lambda K: True) for p in procs}
    mk = mentioned_keys(hist)
    comp_k = {k: {p: reach(hist, p, lambda K, k=k: k not in K) for p in procs} for k in mk}
    subs = subsets(keys)
    out = []
    for p in procs:
        for q in procs:
            if p not in declared or q not in declared:
                out.append("E" * len(subs))
                continue
            if q not in comp_all[p]:
                out.append("F" * len(subs))
                continue
            bad = [k for k in mk if q not in comp_k[k][p]]
            out.append("".join("T" if all(k in K for k in bad) else "F" for K in subs))
    out.append("|")
    for p in procs:
        for q in procs:
            if p not in declared or q not in declared:
                out.append("E;")
            elif q not in comp_all[p]:
                out.append("F;")
            else:
                bad = sorted(k for k in mk if q not in comp_k[k][p])
                out.append("T" + ",".join(str(k) for k in bad) + ";")
    return "W:" + "".join(out)


def expect_tokens(items):
    """Per item: the token the closure predicts, or None where the closure has no opinion
    (dump, repr: representation-dependent)."""
    hist, declared = [], set()
    toks = []
    keys_present = set()
    for it in items:
        op = it[0]
        if op == "decl":
            toks.append("N")
        elif op == "derive":
            # decl happens first; the step needs the original declared (or identical to new)
            ok = it[1] in declared or it[1] == it[2]
            toks.append("N" if ok else "KE")
        elif op == "assert":
            toks.append("N" if it[1] in declared and it[2] in declared else "KE")
        elif op == "newkey":
            toks.append("AE" if it[1] in keys_present else "N")
        elif op == "check":
            _, p, q, K = it
            if p in declared and q in declared:
                toks.append("T" if expect_check(hist, p, q, K) else "F")
            else:
                toks.append("KE")
        elif op == "strictest":
            _, p, q = it
            if p in declared and q in declared:
                b, ks = expect_strictest(hist, p, q)
                toks.append("S:%s:%s" % ("T" if b else "F", ",".join(str(k) for k in sorted(ks))))
            else:
                toks.append("KE")
        elif op == "sweep":
            toks.append(expect_sweep(hist, declared, it[1], it[2]))
        elif op == "repr":
            toks.append(None if it[1] in declared else "KE")
        elif op == "drop":
            toks.append("N")
        else:
            toks.append(None)
        # state update after the prediction
        if op in ("derive", "assert"):
            keys_present.update(it[3])      # expand happens before anything can raise
        if op == "newkey":
            keys_present.add(it[1])
        effective([it], hist, declared)
    return toks


def repr_ok(hist, p, r):
    """get_repr_proc must return something connected to p by unconditional steps."""
    return conn_within(hist, (), p, r)
