#!/venv/bin/python
"""Run the independent checker coqchk -o on the property theorems of every engine and record the axioms it
reports under /verif/coqchk/<Engine>.txt (documentation of the trusted base; not part of the quick checks)."""
import fcntl, glob, os, re, subprocess, sys
V = os.path.dirname(os.path.dirname(os.path.abspath(__file__)))
os.makedirs(os.path.join(V, "coqchk"), exist_ok=True)
only = sys.argv[1:]
for proj in sorted(glob.glob(os.path.join(V, "coq", "*", "_CoqProject"))):
    d = os.path.dirname(proj)
    eng = os.path.basename(d)
    if only and eng not in only:
        continue
    txt = open(proj).read()
    qargs = []
    for m in re.finditer(r"^-([QR])\s+(\S+)\s+(\S+)", txt, flags=re.M):
        qargs += ["-" + m.group(1), m.group(2), m.group(3)]
    lib = re.search(r"^-Q\s+\.\s+(\S+)", txt, flags=re.M).group(1)
    mods = [lib + "." + os.path.basename(p)[:-2] for p in sorted(glob.glob(os.path.join(d, "Props*.v")))]
    if not mods:
        continue
    lock = open(os.path.join(d, ".build.lock"), "w")
    fcntl.flock(lock, fcntl.LOCK_EX)
    try:
        subprocess.call("coq_makefile -f _CoqProject -o Makefile.coq >/dev/null && make -f Makefile.coq -j8 >/dev/null 2>&1", shell=True, cwd=d)
        r = subprocess.run(["timeout", "3000", "coqchk", "-silent", "-o"] + qargs + mods, cwd=d, capture_output=True, text=True)
    finally:
        fcntl.flock(lock, fcntl.LOCK_UN)
    out = "$ coqchk -silent -o %s %s\n(exit %d)\n%s%s" % (" ".join(qargs), " ".join(mods), r.returncode, r.stdout, r.stderr[-3000:])
    open(os.path.join(V, "coqchk", eng + ".txt"), "w").write(out)
    print(eng, "exit", r.returncode, "|", " ".join(l.strip() for l in r.stdout.splitlines() if "xiom" in l or "Modules were" in l)[:200], flush=True)
