"""C13: generators, job serialisation, integer oracle (brute-force arithmetic) for the range-analysis check.

Data (JSON-able):
  expr   ["v", name, id] | ["c", n] | ["neg", e] | ["b", op, a, b]      op in add sub mul div mod
  bounds [lo, hi] with None for "no bound"
  env    list of scopes (innermost first), scope = list of [name, id, lo, hi] (earlier entry = later assignment)
  rv     ["int", n] | ["range", expr, lo, hi] | "errv"
"""
import itertools

OPS = ["add", "sub", "mul", "div", "mod"]


# ----------------------------------------------------------------------------- s-expressions
def sx(x):
    if x is None:
        return "N"
    if isinstance(x, bool):
        return "true" if x else "false"
    if isinstance(x, int):
        return str(x)
    if isinstance(x, str):
        return x
    return "(" + " ".join(sx(y) for y in x) + ")"


def job_of(c):
    k = c["kind"]
    if k == "analyze":
        return sx(["analyze", c["env"], c["expr"]])
    if k == "cbound":
        return sx(["cbound", c["env"], c["arg"]])
    if k == "check":
        return sx(["check", c["env"], c["a"], c["op"], c["b"]])
    if k == "checks":
        return sx(["checks", c["env"], c["a"], c["op"], c["b"], c["op2"], c["c"]])
    if k == "crange":
        return sx(["crange", c["r0"], c["op"], c["r1"]])
    if k == "envseq":
        return sx(["envseq", c["sizes"], c["ops"], c["keys"], c["q"]])
    if k == "binop":
        return sx(["binop", c["op"], c["a"], c["b"]])
    if k == "uneg":
        return sx(["uneg", c["a"]])
    if k == "orchain":
        return sx(["orchain"] + c["rs"])
    if k == "stride":
        return sx(["stride", c["r"], c["sym"]])
    if k == "peval":
        return sx(["peval", c["r"], c["sym"], c["g"]])
    if k == "size":
        return sx(["size", c["r"]])
    if k == "wrapper":
        return sx(["wrapper", c["expr"]])
    raise ValueError(k)


def parse_expr_sx(t):
    """parsed s-expression (nested lists of str) -> expr JSON"""
    if t[0] == "v":
        return ["v", int(t[1]), int(t[2])]
    if t[0] == "c":
        return ["c", int(t[1])]
    if t[0] == "neg":
        return ["neg", parse_expr_sx(t[1])]
    if t[0] == "b":
        return ["b", t[1], parse_expr_sx(t[2]), parse_expr_sx(t[3])]
    raise ValueError(t)


def parse_opt(t):
    return None if t == "N" else int(t)


# ----------------------------------------------------------------------------- integer oracle
def ev(e, val):
    """exo index semantics over Python ints; None when a divisor is not positive (no value)"""
    t = e[0]
    if t == "v":
        return val[(e[1], e[2])]
    if t == "c":
        return e[1]
    if t == "neg":
        x = ev(e[1], val)
        return None if x is None else -x
    a, b = ev(e[2], val), ev(e[3], val)
    if a is None or b is None:
        return None
    op = e[1]
    if op == "add":
        return a + b
    if op == "sub":
        return a - b
    if op == "mul":
        return a * b
    if b <= 0:
        return None
    return a // b if op == "div" else a % b


def vars_of(e, acc=None):
    acc = [] if acc is None else acc
    if e[0] == "v":
        if (e[1], e[2]) not in acc:
            acc.append((e[1], e[2]))
    elif e[0] == "neg":
        vars_of(e[1], acc)
    elif e[0] == "b":
        vars_of(e[2], acc)
        vars_of(e[3], acc)
    return acc


def size_of(e):
    if e[0] in ("v", "c"):
        return 1
    if e[0] == "neg":
        return 1 + size_of(e[1])
    return 1 + size_of(e[2]) + size_of(e[3])


def ops_of(e, acc=None):
    acc = set() if acc is None else acc
    if e[0] == "neg":
        acc.add("neg")
        ops_of(e[1], acc)
    elif e[0] == "b":
        acc.add(e[1])
        ops_of(e[2], acc)
        ops_of(e[3], acc)
    return acc


FREE_SAMPLE = [-50, -9, -4, -1, 0, 1, 2, 3, 7, 50]


def sample_interval(lo, hi, rng, k=6):
    """a finite set of integers inside the stated interval (all of it when small)"""
    if lo is not None and hi is not None:
        if lo > hi:
            return []
        if hi - lo + 1 <= k + 2:
            return list(range(lo, hi + 1))
        pts = {lo, lo + 1, hi - 1, hi, (lo + hi) // 2}
        while len(pts) < k + 2:
            pts.add(rng.randint(lo, hi))
        return sorted(pts)
    if lo is not None:
        return [lo, lo + 1, lo + 2, lo + 5, lo + 17, lo + 50]
    if hi is not None:
        return [hi, hi - 1, hi - 2, hi - 5, hi - 17, hi - 50]
    return list(FREE_SAMPLE)


def env_lookup(env, key):
    for sc in env:
        for (n, i, lo, hi) in sc:
            if (n, i) == key:
                return (lo, hi)
    return None


def valuations(keys, domains, rng, cap=240):
    """iterate over (a sample of) the product of the domains"""
    total = 1
    for k in keys:
        total *= max(1, len(domains[k]))
    if any(len(domains[k]) == 0 for k in keys):
        return
    if total <= cap:
        for combo in itertools.product(*[domains[k] for k in keys]):
            yield dict(zip(keys, combo))
    else:
        for _ in range(cap):
            yield {k: rng.choice(domains[k]) for k in keys}


def in_result(res, v, val):
    """res: parsed s-expression of an analysis result.  True/False, or None if the result claims nothing"""
    if isinstance(res, list) and res and res[0] == "int":
        return v == int(res[1])
    if isinstance(res, list) and res and res[0] == "range":
        b = ev(parse_expr_sx(res[1]), val)
        if b is None:
            return False
        lo, hi = parse_opt(res[2]), parse_opt(res[3])
        return (lo is None or lo <= v - b) and (hi is None or v - b <= hi)
    return None


# ----------------------------------------------------------------------------- generators
class Gen:
    def __init__(self, rng):
        self.rng = rng

    def const(self):
        r = self.rng
        return r.choice([r.randint(-8, 8), r.randint(-8, 8), r.randint(0, 4), r.choice([16, 17, 64, -16, 100])])

    def divisor(self):
        return self.rng.choice([1, 2, 2, 3, 4, 4, 5, 8, 16])

    def expr(self, syms, depth, malformed=False):
        r = self.rng
        if depth <= 0 or r.random() < 0.18:
            if syms and r.random() < 0.7:
                n, i = r.choice(syms)
                return ["v", n, i]
            return ["c", self.const()]
        k = r.random()
        if k < 0.10:
            return ["neg", self.expr(syms, depth - 1, malformed)]
        if k < 0.35:
            return ["b", "add", self.expr(syms, depth - 1, malformed), self.expr(syms, depth - 1, malformed)]
        if k < 0.52:
            return ["b", "sub", self.expr(syms, depth - 1, malformed), self.expr(syms, depth - 1, malformed)]
        if k < 0.70:
            c = ["c", r.choice([-4, -3, -2, -1, -1, 0, 1, 2, 2, 3, 4, 8])]
            if r.random() < 0.12:
                c = ["b", r.choice(["add", "sub", "mul"]), ["c", r.randint(-3, 3)], ["c", r.randint(-3, 3)]]
            if malformed and r.random() < 0.35:
                c = self.expr(syms, depth - 1, malformed)  # range * range
            sub = self.expr(syms, depth - 1, malformed)
            return ["b", "mul", sub, c] if r.random() < 0.5 else ["b", "mul", c, sub]
        op = "div" if k < 0.86 else "mod"
        d = ["c", self.divisor()]
        if r.random() < 0.08:
            d = ["b", "add", ["c", r.randint(1, 3)], ["c", r.randint(0, 2)]]
        if malformed:
            q = r.random()
            if q < 0.3:
                d = ["c", r.choice([0, 0, -1, -2, -4])]
            elif q < 0.55:
                d = self.expr(syms, 1, False)  # division by a range
        num = self.expr(syms, depth - 1, malformed)
        if malformed and r.random() < 0.1:
            num = ["c", self.const()]
        return ["b", op, num, d]

    def bounds(self):
        r = self.rng
        k = r.random()
        lo = r.choice([0, 0, 0, 1, -3, 2, 5, -8])
        if k < 0.50:
            return [lo, lo + r.choice([0, 1, 2, 3, 7, 15, 31])]
        if k < 0.64:
            return [lo, None]
        if k < 0.74:
            return [None, lo]
        if k < 0.86:
            return [None, None]
        return [lo + r.randint(1, 4), lo]  # empty

    def syms(self, n, shadow=False):
        r = self.rng
        out = []
        for j in range(n):
            nm = j + 1
            if shadow and out and r.random() < 0.3:
                nm = r.choice(out)[0]
            out.append((nm, 100 + j))
        return out

    def env(self, syms):
        r = self.rng
        nsc = r.choice([1, 1, 2, 3])
        scopes = [[] for _ in range(nsc)]
        for (n, i) in syms:
            if r.random() < 0.7:
                b = self.bounds()
                scopes[r.randrange(nsc)].append([n, i, b[0], b[1]])
                if r.random() < 0.15:  # rebinding in another (or the same) scope
                    b = self.bounds()
                    scopes[r.randrange(nsc)].append([n, i, b[0], b[1]])
        return scopes

    def rv(self, syms, allow_err=False, symbolic=True):
        r = self.rng
        k = r.random()
        if allow_err and k < 0.1:
            return "errv"
        if k < 0.3:
            return ["int", self.const()]
        b = self.bounds()
        base = ["c", 0]
        if symbolic and syms and r.random() < 0.55:
            base = self.linear(syms)
        return ["range", base, b[0], b[1]]

    def linear(self, syms, with_divmod=False):
        r = self.rng
        n, i = r.choice(syms)
        e = ["v", n, i]
        q = r.random()
        if q < 0.25:
            e = ["b", "mul", e, ["c", r.choice([-2, -1, 2, 3])]]
        elif q < 0.35:
            e = ["neg", e]
        elif q < 0.45 and with_divmod:
            e = ["b", r.choice(["div", "mod"]), e, ["c", r.choice([2, 4])]]
        if len(syms) > 1 and r.random() < 0.4:
            n2, i2 = r.choice(syms)
            t = ["v", n2, i2]
            if r.random() < 0.4:
                t = ["b", "mul", ["c", r.choice([-3, 2, 4])], t]
            e = ["b", r.choice(["add", "sub"]), e, t]
        return e

    def arg(self, syms, depth=2):
        r = self.rng
        if r.random() < 0.3:
            return ["int", self.const()]
        return ["expr", self.expr(syms, depth)]
