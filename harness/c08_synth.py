"""C08: synthetic statement skeletons built directly as REAL LoopIR objects, run through the REAL
`MemoryAnalysis().run` and `get_writes_of_stmts`, and exported as model input.

    c08_synth.py SEED COUNT OUT.jsonl

The front end never produces most of these shapes (deep window-of-window chains, allocations in every branch,
re-used Syms, re-bound window names, Free statements in the input); they exercise the model <-> code tie where
progen's distribution is thin, and form the malformed stream (expected: the same assertion in model and code)."""
from __future__ import annotations

import json
import random
import sys

from exo.core.LoopIR import LoopIR, T, get_writes_of_stmts
from exo.core.prelude import Sym, SrcInfo
from exo.core.memory import DRAM
from exo.libs.externs import relu
from exo.backend.mem_analysis import MemoryAnalysis

import c08_export as X

SI = SrcInfo("synth", 1)
C0 = LoopIR.Const(0, T.int, SI)
C4 = LoopIR.Const(4, T.int, SI)
TT = T.Tensor([C4], False, T.f32)
IV = [LoopIR.Interval(C0, C4, SI)]


class Gen:
    def __init__(self, rng, malformed):
        self.rng = rng
        self.malformed = malformed
        self.count = 0
        self.all_bufs = []
        self.all_wins = []
        self.root = {}
        self.kind = {"dup_alloc": 0, "free_in_input": 0, "rebind_window": 0}

    def sym(self, base):
        self.count += 1
        return Sym("%s%d" % (base, self.count))

    def read(self, n, ivars):
        idx = [LoopIR.Read(self.rng.choice(ivars), [], T.index, SI)] if ivars and self.rng.random() < 0.7 else [C0]
        return LoopIR.Read(n, idx, T.f32, SI)

    def winexpr(self, n):
        wt = T.Window(TT, TT, self.root.get(n, n), IV)
        return LoopIR.WindowExpr(n, IV, wt, SI)

    def rhs(self, vis, ivars, depth=2):
        r = self.rng.random()
        if depth == 0 or r < 0.4 or not vis:
            if not vis or self.rng.random() < 0.2:
                return LoopIR.Const(1.0, T.f32, SI)
            return self.read(self.rng.choice(vis), ivars)
        if r < 0.75:
            return LoopIR.BinOp("+", self.rhs(vis, ivars, depth - 1), self.rhs(vis, ivars, depth - 1), T.f32, SI)
        if r < 0.85:
            return LoopIR.USub(self.rhs(vis, ivars, depth - 1), T.f32, SI)
        return LoopIR.Extern(relu, [self.rhs(vis, ivars, depth - 1)], T.f32, SI)

    def callee(self):
        n = self.rng.randint(1, 3)
        args = [self.sym("f") for _ in range(n)]
        body = []
        vis = list(args)
        for _ in range(self.rng.randint(0, 3)):
            r = self.rng.random()
            if r < 0.5:
                body.append(LoopIR.Assign(self.rng.choice(vis), T.f32, [C0], self.rhs(vis, [], 1), SI))
            elif r < 0.8:
                w = self.sym("fw")
                b = self.rng.choice(vis)
                self.root[w] = self.root.get(b, b)
                body.append(LoopIR.WindowStmt(w, self.winexpr(b), SI))
                vis.append(w)
            else:
                body.append(LoopIR.Reduce(self.rng.choice(vis), T.f32, [C0], self.rhs(vis, [], 1), SI))
        if self.rng.random() < 0.3 and self.depth_calls < 1:
            self.depth_calls += 1
            body.append(self.call(vis))
            self.depth_calls -= 1
        return LoopIR.proc("callee%d" % self.count, [LoopIR.fnarg(a, TT, DRAM, SI) for a in args], [], body, None, SI)

    depth_calls = 0

    def call(self, vis):
        f = self.callee()
        args = []
        for _ in f.args:
            b = self.rng.choice(vis)
            args.append(self.winexpr(b) if self.rng.random() < 0.5 else LoopIR.Read(b, [], TT, SI))
        return LoopIR.Call(f, args, SI)

    def block(self, vis, ivars, depth, n, force_chain=False):
        rng = self.rng
        vis = list(vis)
        out = []
        tail = []
        for _ in range(n):
            kinds = ["assign"] * 3 + ["reduce", "alloc", "alloc", "window", "window", "pass", "call", "wcfg", "chain", "chain"]
            if depth > 0:
                kinds += ["if"] * 2 + ["for"] * 2
            k = rng.choice(kinds)
            if force_chain and _ == 0:
                k = "chain"
            if k == "chain":
                # allocation + window chain of depth 2..3; the allocation and the outer windows are not mentioned again;
                # the last statement of the block uses the innermost window only (read / write / call argument)
                x = self.sym("t")
                self.all_bufs.append(x)
                out.append(LoopIR.Alloc(x, TT, DRAM, SI))
                cur = x
                for _lvl in range(rng.choice([2, 2, 3])):
                    w = self.sym("w")
                    self.all_wins.append(w)
                    self.root[w] = self.root.get(cur, cur)
                    out.append(LoopIR.WindowStmt(w, self.winexpr(cur), SI))
                    cur = w
                how = rng.choice(["read", "write", "call"])
                others = [v for v in vis] or [cur]
                if how == "read":
                    last = LoopIR.Assign(rng.choice(others), T.f32, [C0], self.read(cur, ivars), SI)
                elif how == "write":
                    last = LoopIR.Assign(cur, T.f32, [C0], self.rhs(others, ivars, 1), SI)
                else:
                    last = self.call([cur])
                tail = [last] + tail
                vis.append(cur)
                continue
            if self.malformed and rng.random() < 0.04 and self.all_bufs:
                self.kind["free_in_input"] += 1
                out.append(LoopIR.Free(rng.choice(self.all_bufs), TT, DRAM, SI))
                continue
            if k == "assign" and vis:
                out.append(LoopIR.Assign(rng.choice(vis), T.f32, [C0], self.rhs(vis, ivars), SI))
            elif k == "reduce" and vis:
                out.append(LoopIR.Reduce(rng.choice(vis), T.f32, [C0], self.rhs(vis, ivars), SI))
            elif k == "alloc":
                if self.malformed and self.all_bufs and rng.random() < 0.25:
                    x = rng.choice(self.all_bufs)
                    self.kind["dup_alloc"] += 1
                else:
                    x = self.sym("t")
                    self.all_bufs.append(x)
                out.append(LoopIR.Alloc(x, TT, DRAM, SI))
                if x not in vis:
                    vis.append(x)
            elif k == "window" and vis:
                b = rng.choice(vis)
                if self.malformed and self.all_wins and rng.random() < 0.25:
                    # re-bind an existing window name; the base is a plain buffer so that the dictionary stays acyclic
                    # (on a cyclic dictionary the `while nm in self.win_base` loop of the real code does not terminate)
                    plain = [v for v in vis if v not in self.all_wins]
                    if not plain:
                        continue
                    b = rng.choice(plain)
                    w = rng.choice(self.all_wins)
                    self.kind["rebind_window"] += 1
                else:
                    w = self.sym("w")
                    self.all_wins.append(w)
                self.root[w] = self.root.get(b, b)
                out.append(LoopIR.WindowStmt(w, self.winexpr(b), SI))
                if w not in vis:
                    vis.append(w)
            elif k == "pass":
                out.append(LoopIR.Pass(SI))
            elif k == "call" and vis:
                out.append(self.call(vis))
            elif k == "wcfg" and vis:
                # WriteConfig needs a Config object only in passes we do not run; MemoryAnalysis/GetWrites look at rhs only
                out.append(LoopIR.WriteConfig(None, "f", self.rhs(vis, ivars, 1), SI) if False else LoopIR.Pass(SI))
            elif k == "if":
                cond = LoopIR.Const(True, T.bool, SI)
                body = self.block(vis, ivars, depth - 1, rng.randint(0, 4))
                orelse = self.block(vis, ivars, depth - 1, rng.randint(0, 3)) if rng.random() < 0.6 else []
                if not body:
                    body = [LoopIR.Pass(SI)]
                out.append(LoopIR.If(cond, body, orelse, SI))
            elif k == "for":
                it = self.sym("i")
                body = self.block(vis, ivars + [it], depth - 1, rng.randint(1, 4))
                out.append(LoopIR.For(it, C0, C4, body, LoopIR.Seq(), SI))
        return out + tail


def main(argv):
    seed, count, outp = int(argv[1]), int(argv[2]), argv[3]
    with open(outp, "w") as fo:
        for i in range(count):
            rng = random.Random("c08synth:%d:%d" % (seed, i))
            malformed = i % 3 == 2
            g = Gen(rng, malformed)
            args = [g.sym("a") for _ in range(rng.randint(1, 3))]
            body = g.block(args, [], 3, rng.randint(1, 6), force_chain=(i % 3 == 1))
            p = LoopIR.proc("synth", [LoopIR.fnarg(a, TT, DRAM, SI) for a in args], [], body, None, SI)
            ex = X.Exporter()
            rec = {"tag": "s%d" % i, "malformed": malformed, "kinds": g.kind}
            try:
                rec["body"] = ex.stmts(body)
            except X.Unsupported as e:
                continue
            try:
                q = MemoryAnalysis().run(p)
                rec["mem_real"] = [0] + ex.canon(q.body)
            except AssertionError as e:
                msg = str(e)
                rec["mem_real"] = [-2] if "frees inserted" in msg else [-1]
                rec["mem_err"] = msg[:100]
            except Exception as e:
                rec["mem_real"] = None
                rec["mem_err"] = "%s: %s" % (type(e).__name__, str(e)[:100])
            try:
                rec["writes_real"] = [ex.sy(s) for s, _ in get_writes_of_stmts(body)]
            except Exception as e:
                rec["writes_real"] = None
                rec["writes_err"] = "%s: %s" % (type(e).__name__, str(e)[:100])
            rec["buf_args"] = [ex.sy(a) for a in args]
            fo.write(json.dumps(rec) + "\n")
    return 0


if __name__ == "__main__":
    sys.exit(main(sys.argv))
