#!/venv/bin/python
"""compare a junit xml with /root/.vp/BASELINE.json: every stable_pass test must pass"""
import json, sys, xml.etree.ElementTree as ET
b = json.load(open("/root/.vp/BASELINE.json"))
t = ET.parse(sys.argv[1]).getroot()
res = {}
for tc in t.iter("testcase"):
    name = tc.get("classname") + "::" + tc.get("name")
    bad = any(c.tag in ("failure", "error") for c in tc)
    sk = any(c.tag == "skipped" for c in tc)
    res[name] = "fail" if bad else "skip" if sk else "pass"
missing = [n for n in b["stable_pass"] if res.get(n) != "pass"]
print("stable_pass:", len(b["stable_pass"]), "not passing now:", len(missing))
for m in missing[:40]:
    print("  ", m, res.get(m))
sys.exit(1 if missing else 0)
