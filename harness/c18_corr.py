"""C18 correspondence driver (runs with exo importable, PYTHONHASHSEED=0):  python c18_corr.py <seed> <n> <out.v> <out.json>

Generates inputs from one seed, asks the REAL implementation (Python's sorted with the keys used by
compile_to_strings, _compile_memories / _compile_externs / _compile_context_struct on stub objects, Sym ordering,
window_struct, Compiler.new_varname / push / pop, PrintEnv.get_name / push) and writes a Coq file in which every
case is `ck_* <input> <answer of the implementation>`; coqc evaluates the model on it (vm_compute)."""
from __future__ import annotations

import json
import random
import sys
import types
from collections import ChainMap

ALPHA = "abcxyzABZ_019"


def cs(s: str) -> str:
    assert all(32 <= ord(c) < 127 or c == "\n" for c in s), repr(s)
    return '"' + s.replace('"', '""') + '"'


def clist(xs) -> str:
    return "[" + "; ".join(xs) + "]"


def ident(rng, lo=1, hi=4):
    first = rng.choice("abxyzAB")
    return first + "".join(rng.choice(ALPHA) for _ in range(rng.randint(lo - 1, hi - 1)))


def main():
    seed, n, out_v, out_json = int(sys.argv[1]), int(sys.argv[2]), sys.argv[3], sys.argv[4]
    rng = random.Random(seed)
    from exo.backend import LoopIR_compiler as LC
    from exo.core.LoopIR import T
    from exo.core.LoopIR_pprint import PrintEnv
    from exo.core.prelude import Sym

    cases = []  # (stream, tag, coq term, sample)

    def pairs(k, dup):
        pool = [ident(rng) for _ in range(max(1, k if not dup else max(1, k // 2)))]
        return [(rng.choice(pool) if dup else pool[i % len(pool)] + str(i), "t%d_%s" % (i, ident(rng, 1, 2))) for i in range(k)]

    def cpairs(l):
        return clist("(%s, %s)" % (cs(k), cs(t)) for k, t in l)

    per = max(4, n // 9)
    # ---- sorted(key=...) and the unguarded pipelines
    for _ in range(per):
        l = pairs(rng.randint(0, 7), rng.random() < 0.6)
        exp = [t for _, t in sorted(l, key=lambda x: x[0])]
        cases.append(("sort", "dup" if len({k for k, _ in l}) < len(l) else "uniq", "ck_sort %s %s" % (cpairs(l), clist(map(cs, exp))), l))

    class StubMem:
        def __init__(self, k, t):
            self.k, self.t = k, t

        def name(self):
            return self.k

        def global_(self):
            return self.t

    for _ in range(per):
        l = pairs(rng.randint(0, 6), rng.random() < 0.5)
        exp = LC._compile_memories([StubMem(k, t) for k, t in l])
        cases.append(("mems", "n%d" % len(l), "ck_mems %s %s" % (cpairs(l), clist(map(cs, exp))), l))

    class StubExt:
        def __init__(self, k, t):
            self.k, self.t = k, t

        def name(self):
            return self.k

        def globl(self, prim):
            return self.t

    for _ in range(per):
        l = [(k, t if rng.random() < 0.7 else "") for k, t in pairs(rng.randint(0, 6), rng.random() < 0.5)]
        ctypes = [rng.choice(["float", "double", "int8_t"]) for _ in l]
        exp = LC._compile_externs([(StubExt(k, t), c) for (k, t), c in zip(l, ctypes)])
        keyed = [(k + c, t) for (k, t), c in zip(l, ctypes)]
        cases.append(("externs", "n%d" % len(l), "ck_externs %s %s" % (cpairs(keyed), clist(map(cs, exp))), keyed))

    class StubCfg:
        def __init__(self, k, t, rw):
            self.k, self.t, self.rw = k, t, rw

        def name(self):
            return self.k

        def is_allow_rw(self):
            return self.rw

        def c_struct_def(self):
            return [self.t]

    for _ in range(per):
        l = pairs(rng.randint(0, 5), rng.random() < 0.35)
        rws = [rng.random() < 0.7 for _ in l]
        lib = ident(rng)
        try:
            nm, lines = LC._compile_context_struct([StubCfg(k, t, rw) for (k, t), rw in zip(l, rws)], lib)
            exp = "(Out %s)" % clist(map(cs, [nm] + lines))
            tag = "ok"
        except TypeError as e:
            exp = "(TypeErr %s)" % cs(str(e))
            tag = "typeerror"
        texts = [("    " + t) if rw else "// config '%s' not materialized" % k for (k, t), rw in zip(l, rws)]
        cases.append(("configs", tag, "ck_configs %s %s %s" % (cs(lib), cpairs([(k, tx) for (k, _), tx in zip(l, texts)]), exp), l))

    # ---- the duplicate-proc-name guard of compile_to_strings, on REAL procedures (renamed copies of one proc)
    import re
    from exo import proc
    from exo.API import compile_procs_to_strings
    from exo.stdlib.scheduling import rename
    import importlib.util
    import os
    import tempfile
    d = tempfile.mkdtemp(prefix="c18corr")
    mp = os.path.join(d, "c18corr_base.py")
    open(mp, "w").write("from __future__ import annotations\nfrom exo import proc\n@proc\ndef base(x: f32[2]):\n    x[0] = 1.0\n")
    spec = importlib.util.spec_from_file_location("c18corr_base", mp)
    bm = importlib.util.module_from_spec(spec)
    sys.modules["c18corr_base"] = bm
    spec.loader.exec_module(bm)
    for _ in range(max(3, per // 2)):
        pool = [ident(rng, 2, 4) for _ in range(4)]
        dup = rng.random() < 0.35
        k = rng.randint(1, 4) if not dup else rng.randint(2, 4)
        names = [rng.choice(pool) for _ in range(k)] if dup else rng.sample(pool, k) if len(set(pool)) == 4 else pool[:1]
        if dup and len(names) >= 2:
            names[rng.randrange(1, len(names))] = names[0]
        procs = [rename(bm.base, nm) for nm in names]
        try:
            c, _h = compile_procs_to_strings(procs, "c.h")
            order = re.findall(r"^void (\w+)\(", c, flags=re.M)
            exp = "(Out %s)" % clist(map(cs, order))
            tag = "ok"
        except TypeError as e:
            exp = "(TypeErr %s)" % cs(str(e))
            tag = "typeerror"
        cases.append(("procs-guard", tag, "ck_procs %s %s" % (cpairs([(nm, nm) for nm in names]), exp), names))

    # ---- Sym order
    for _ in range(per):
        names = [ident(rng, 1, 2) for _ in range(rng.randint(1, 3))]
        syms = [Sym(rng.choice(names)) for _ in range(rng.randint(0, 7))]
        rng.shuffle(syms)
        terms = [(rng.choice([-2, -1, 1, 1, 2, 3]), s) for s in syms]
        exp = [s._id for _, s in sorted(terms)]
        cases.append(("symsort", "n%d" % len(terms),
                      "ck_terms %s %s" % (clist("((%d)%%Z, (%s, %d))" % (c, cs(s.name()), s._id) for c, s in terms),
                                          clist(map(str, exp))), [(c, repr(s)) for c, s in terms]))

    # ---- window structs
    prims = [("F16", T.f16), ("F32", T.f32), ("F64", T.f64), ("I8", T.i8), ("UI8", T.ui8), ("UI16", T.ui16), ("I32", T.i32)]
    for _ in range(per):
        pn, pt = rng.choice(prims)
        nd = rng.choice([1, 2, 3, 4, 9, 10, 11, 12, 100, 101])
        c = rng.random() < 0.5
        ws = LC.window_struct(pt, nd, c)
        cases.append(("struct", pn, "ck_struct (mkW %s %d %s) %s %s" % (pn, nd, "true" if c else "false", cs(ws.name), cs(ws.definition)),
                      [pn, nd, c]))

    # ---- name allocators
    def events(k, allow_bad):
        base = [rng.choice(["x", "y", "x_1", "x_2", "i", "i_9", "a_b", "x_1_1"] + (["x_", "y__"] if allow_bad else []))
                for _ in range(3)]
        syms, evs, depth = [], [], 0
        for _ in range(k):
            r = rng.random()
            if r < 0.15:
                evs.append(("Push", None))
                depth += 1
            elif r < 0.27 and depth > 0:
                evs.append(("Pop", None))
                depth -= 1
            elif r < 0.7 or not syms:
                s = Sym(rng.choice(base))
                syms.append(s)
                evs.append(("Decl", s))
            else:
                evs.append(("Use", rng.choice(syms)))
        return evs

    def cev(kind, s):
        return kind if s is None else "%s (mkSym %s %d)" % (kind, cs(s.name()), s._id)

    def copt(o):
        return "None" if o is None else "(Some %s)" % cs(o)

    class NoRange:
        def enter_scope(self):
            pass

        def exit_scope(self):
            pass

    for _ in range(per):
        evs = events(rng.randint(1, 12), rng.random() < 0.4)
        stub = types.SimpleNamespace(names=ChainMap(), env=ChainMap(), envtyp={}, mems={}, range_env=NoRange(), _tab="")
        outs, used = [], []
        for kind, s in evs:
            used.append((kind, s))
            if kind == "Push":
                LC.Compiler.push(stub)
                outs.append(None)
            elif kind == "Pop":
                LC.Compiler.pop(stub)
                outs.append(None)
            elif kind == "Decl":
                try:
                    outs.append(LC.Compiler.new_varname(stub, s, None))
                except ValueError:
                    outs.append("<ValueError>")
                    break
            else:
                outs.append(stub.env[s] if s in stub.env else None)
        tag = "crash" if outs and outs[-1] == "<ValueError>" else "ok"
        cases.append(("new_varname", tag, "ck_compiler %s %s" % (clist(cev(k, s) for k, s in used), clist(map(copt, outs))),
                      [(k, repr(s)) for k, s in used]))

    for _ in range(per):
        evs = events(rng.randint(1, 12), True)
        stack = [PrintEnv()]
        outs, used = [], []
        for kind, s in evs:
            if kind == "Use":
                kind = "Ref"
            elif kind == "Decl":
                kind = "Ref"
            used.append((kind, s))
            if kind == "Push":
                stack.append(stack[-1].push())
                outs.append(None)
            elif kind == "Pop":
                stack.pop()
                outs.append(None)
            else:
                outs.append(stack[-1].get_name(s))
        cases.append(("printenv", "n%d" % len(used), "ck_printenv %s %s" % (clist(cev(k, s) for k, s in used), clist(map(copt, outs))),
                      [(k, repr(s)) for k, s in used]))

    hdr = ("From Coq Require Import String List Bool ZArith.\nFrom Determ Require Import Model ModelCheck.\n"
           "Import ListNotations.\nOpen Scope string_scope.\n")
    body = [hdr]
    for i, (_, _, term, _) in enumerate(cases):
        body.append("Definition c%d : bool := %s." % (i, term))
    body.append("Definition all_cases : list bool := [%s]." % "; ".join("c%d" % i for i in range(len(cases))))
    body.append("Eval vm_compute in all_cases.")
    open(out_v, "w").write("\n".join(body) + "\n")
    json.dump([{"stream": s, "tag": t, "term": term[:600], "sample": smp} for s, t, term, smp in cases], open(out_json, "w"), default=str)


if __name__ == "__main__":
    main()
