"""C11 stream through the public API (subprocess of harness/props/C11.py).

Real @proc procedures are scheduled with operations that report mod-sets (bind_config,
write_config, delete_config, call_eqv) and ones that do not (rename, simplify), mixed with
unsafe_assert_eq, is_eq, signature-changing utilities (partial_eval, add_assertion, transpose: new origin) and
dropping of Procedure objects.  Every call the API makes into exo.core.proc_eqv is observed by
wrapping the names API.py / LoopIR_scheduling.py imported (no hook in /repo) and written out as a
job in the language of coq/Eqv/driver.ml, together with the answers the real module gave.

  python c11_api.py SEED NSCRIPTS NACTIONS [ID-PREFIX]
output per script:   job <id> <items...>      tok <id> <tokens...>     act <id> <json>
                     !shape <id> <json>       (an API action recorded unexpected events)
"""
from __future__ import annotations

import gc
import json
import random
import sys
import weakref

from exo import proc, config
from exo.stdlib.scheduling import (bind_config, write_config, delete_config, call_eqv, rename,
                                   simplify)
import exo.API as API
import exo.core.proc_eqv as pe
import exo.rewrite.LoopIR_scheduling as LS
from exo.core.LoopIR import LoopIR

import c11_oracle as orc
from c11_impl import snapshot, restore
import c11_impl


@config
class CA:
    a: f32
    b: f32


@config
class CB:
    c: f32


@proc
def leaf(n: size, x: f32[n], s: f32):
    for i in seq(0, n):
        x[i] = x[i] * s


@proc
def leaf_other(n: size, x: f32[n], s: f32):
    for i in seq(0, n):
        x[i] = x[i] + s


@proc
def foo(n: size, x: f32[n], s: f32, t: f32):
    u: f32
    u = s
    leaf(n, x, u)
    for i in seq(0, n):
        x[i] = x[i] + t


@proc
def mat(n: size, A: f32[n, n], s: f32):
    for i in seq(0, n):
        A[i, 0] = A[i, 0] * s


BASE = [("leaf", leaf, "leaf"), ("leaf_other", leaf_other, "leaf"), ("foo", foo, "foo"), ("mat", mat, "mat")]
NBASE = len(BASE)
FIELDS = [(CA, "a"), (CA, "b"), (CB, "c")]


class Recorder:
    """Interns procedures/keys and records every call into proc_eqv made by the API."""

    def __init__(self):
        self.pid = {}      # id(obj) -> (small id, weakref)
        self.kid = {}      # key (Sym) -> small id
        self.items = []
        self.toks = []
        self.next = 1

    def p(self, obj):
        e = self.pid.get(id(obj))
        if e is not None and e[1]() is obj:
            return e[0]
        i = self.next
        self.next += 1
        self.pid[id(obj)] = (i, weakref.ref(obj))
        return i

    def k(self, key):
        if key not in self.kid:
            self.kid[key] = len(self.kid) + 1
        return self.kid[key]

    def K(self, config_set):
        return [self.k(x) for x in config_set]      # iteration order of the frozenset itself

    def rec(self, item, tok):
        self.items.append(item)
        self.toks.append(tok)


REC = None
_orig = {}


def _tok(r):
    if r is None:
        return "N"
    if r is True:
        return "T"
    if r is False:
        return "F"
    if isinstance(r, tuple):
        return "S:%s:%s" % ("T" if r[0] else "F", ",".join(str(k) for k in sorted(REC.k(x) for x in r[1])))
    return str(r)


def _wrap(name, mk_item):
    f = getattr(pe, name)
    _orig[name] = f

    def w(*a, **kw):
        item = mk_item(*a, **kw)        # intern BEFORE the call (iteration order of config_set)
        try:
            r = f(*a, **kw)
        except KeyError:
            REC.rec(item, "KE")
            raise
        except AssertionError:
            REC.rec(item, "AE")
            raise
        REC.rec(item, _tok(r))
        return r

    return w


def install():
    API.decl_new_proc = _wrap("decl_new_proc", lambda p: ["decl", REC.p(p)])
    API.derive_proc = _wrap("derive_proc",
                            lambda o, n, cs=frozenset(): ["derive", REC.p(o), REC.p(n), REC.K(cs)])
    API.assert_eqv_proc = _wrap("assert_eqv_proc",
                                lambda a, b, cs=frozenset(): ["assert", REC.p(a), REC.p(b), REC.K(cs)])
    API.check_eqv_proc = _wrap("check_eqv_proc",
                               lambda a, b, cs=frozenset(): ["check", REC.p(a), REC.p(b), REC.K(cs)])
    LS.get_strictest_eqv_proc = _wrap("get_strictest_eqv_proc",
                                      lambda a, b: ["strictest", REC.p(a), REC.p(b)])
    # the mod-set a configuration rewrite returns must be the one derive_proc records
    for name in ("DoBindConfig", "DoConfigWrite", "DoDeleteConfig", "DoCallSwap"):
        setattr(LS, name, _wrap_cfg(getattr(LS, name)))


LAST_CFG = [None]


def _wrap_cfg(f):
    def w(*a, **kw):
        r = f(*a, **kw)
        LAST_CFG[0] = set(r[2])
        return r
    return w


def callee_name(p):
    for s in p._loopir_proc.body:
        if isinstance(s, LoopIR.Call):
            return s.f.name
    return None


def sweep_now(pool):
    """Answers of the real module for all pairs of live procedures x all subsets of the known keys."""
    procs = [q._loopir_proc for _, q, _ in (pool[:NBASE] + pool[NBASE:][-3:])]
    ids = [REC.p(x) for x in procs]
    inv = {v: k for k, v in REC.kid.items()}
    keys = sorted(inv)
    subs = orc.subsets(keys)
    snap = snapshot()
    out = []
    for a in procs:
        for b in procs:
            for K in subs:
                r = _orig["check_eqv_proc"](a, b, frozenset(inv[k] for k in K))
                out.append("T" if r is True else "F" if r is False else "?")
    out.append("|")
    for a in procs:
        for b in procs:
            r = _orig["get_strictest_eqv_proc"](a, b)
            out.append(("T" if r[0] else "F") + ",".join(str(k) for k in sorted(REC.k(x) for x in r[1])) + ";")
    restore(snap)
    REC.rec(["sweep", ids, keys], "W:" + "".join(out))


def sx(x):
    if isinstance(x, list):
        return "(" + " ".join(sx(y) for y in x) + ")"
    return str(x)


def script(sid, rng, nactions):
    global REC
    REC = Recorder()
    # fresh tracker state; the three base procedures are re-declared (same objects, new history)
    c11_impl.pe = pe
    for name in ("_UF_Unv", "_UF_Strict"):
        setattr(pe, name, pe._UnionFind())
    pe._UF_Unv_key.clear()
    pool = []
    acts = []
    shapes = []
    for name, p, fam in BASE:
        q = API.Procedure(p._loopir_proc)       # records decl
        pool.append((name, q, fam))
    # note: Procedure(loopir) of an already-declared loopir object is a no-op new_node; here fresh state.
    sweep_now(pool)
    nm = [0]

    def expect(kind, n0, what):
        """The state-changing calls recorded since n0 must be exactly `what` (prefix match per item);
        what = ("chain", a, b): one or more derive_proc calls leading from a to b (compound
        operations such as simplify build intermediate Procedure objects)."""
        new = REC.items[n0:]
        mut = [it for it in new if it[0] in ("decl", "derive", "assert")]
        if isinstance(what, tuple):
            _, a, b = what
            ok = bool(mut) and all(m[0] == "derive" for m in mut) and mut[0][1] == a and mut[-1][2] == b \
                and all(mut[i][2] == mut[i + 1][1] for i in range(len(mut) - 1))
            # recorded mod-set = the set the rewrite returned (empty for rename/simplify)
            cfg = sorted(REC.k(x) for x in (LAST_CFG[0] or ()))
            rec_cfg = sorted({k for m in mut for k in m[3]}) if ok else None
            ok = ok and rec_cfg == cfg
            what = ["chain", a, b, cfg]
        else:
            ok = len(mut) == len(what) and all(m[:len(w)] == w for m, w in zip(mut, what))
        if not ok:
            shapes.append({"action": kind, "expected": what, "recorded": mut})

    def one_action():
        kind = rng.choice(["bind", "bind", "write", "write", "delete", "rename", "simplify", "assert_eq",
                           "call_eqv", "call_eqv", "call_eqv", "partial_eval", "add_assertion", "transpose",
                           "is_eq", "drop"])
        n0 = len(REC.items)
        LAST_CFG[0] = None
        name, p, fam = rng.choice(pool)
        desc = [kind, name]
        new = None
        try:
            if kind == "bind":
                cfg, fld = rng.choice(FIELDS)
                desc += [cfg.name(), fld]
                new = bind_config(p, "s" if fam == "leaf" else rng.choice(["s", "t"]), cfg, fld)
            elif kind == "write":
                cfg, fld = rng.choice(FIELDS)
                stmt = p.find("for i in _:_")
                gap = stmt.before() if rng.random() < 0.5 else stmt.after()
                desc += [cfg.name(), fld]
                new = write_config(p, gap, cfg, fld, "s")
            elif kind == "delete":
                cfg, fld = rng.choice(FIELDS)
                desc += [cfg.name(), fld]
                new = delete_config(p, "%s.%s = _" % (cfg.name(), fld))
            elif kind == "rename":
                nm[0] += 1
                new = rename(p, "%s_r%d" % (fam, nm[0]))
            elif kind == "simplify":
                new = simplify(p)
            elif kind == "assert_eq":
                name2, q, fam2 = rng.choice(pool)
                desc += [name2]
                p.unsafe_assert_eq(q)
                expect(kind, n0, [["assert", REC.p(p._loopir_proc), REC.p(q._loopir_proc), []]])
            elif kind == "is_eq":
                name2, q, fam2 = rng.choice(pool)
                desc += [name2, p.is_eq(q)]
                expect(kind, n0, [])
            elif kind == "call_eqv":
                name, p, fam = rng.choice([e for e in pool if e[2] == "foo"])
                name2, q, _ = rng.choice([e for e in pool if e[2] == "leaf"])
                desc = [kind, name, name2]
                new = call_eqv(p, "%s(_)" % callee_name(p), q)
            elif kind == "partial_eval":
                r = p.partial_eval(n=rng.choice([2, 4]))
                expect(kind, n0, [["decl", REC.p(r._loopir_proc)]])
                nm[0] += 1
                pool.append(("%s_pe%d" % (name, nm[0]), r, "other"))
                desc += ["ok"]
            elif kind == "add_assertion":
                r = p.add_assertion("n > 1")
                expect(kind, n0, [["decl", REC.p(r._loopir_proc)]])
                nm[0] += 1
                pool.append(("%s_aa%d" % (name, nm[0]), r, fam))
                desc += ["ok"]
            elif kind == "transpose":
                name, p, fam = rng.choice([e for e in pool if e[2] == "mat"])
                desc = [kind, name]
                r = p.transpose(p.args()[1])
                expect(kind, n0, [["decl", REC.p(r._loopir_proc)]])
                nm[0] += 1
                pool.append(("%s_tr%d" % (name, nm[0]), r, "mat"))
                desc += ["ok"]
            elif kind == "drop":
                cand = [i for i, e in enumerate(pool) if i >= NBASE]
                if cand:
                    i = rng.choice(cand)
                    desc = [kind, pool[i][0]]
                    del pool[i]
            if new is not None:
                expect(kind, n0, ("chain", REC.p(p._loopir_proc), REC.p(new._loopir_proc)))
                nm[0] += 1
                pool.append(("%s_%s%d" % (name.split("_")[0], kind[:2], nm[0]), new, fam))
                desc += ["ok"]
        except Exception as e:          # SchedulingError, pattern not found, type errors: no new procedure
            desc += ["raised:" + type(e).__name__]
            expect(kind + "-failed", n0, [])
        acts.append(desc)

    for _ in range(nactions):
        one_action()
        gc.collect()
        sweep_now(pool)
    dead = sum(1 for _, w in REC.pid.values() if w() is None)
    acts.append(["collected", dead])
    print("job", "(job %s %s)" % (sid, " ".join(sx(it) for it in REC.items)))
    print("tok", sid, " ".join(REC.toks))
    print("act", sid, json.dumps(acts))
    for s in shapes:
        print("!shape", sid, json.dumps(s))


if __name__ == "__main__":
    seed, nscripts, nactions = (int(x) for x in sys.argv[1:4])
    prefix = sys.argv[4] if len(sys.argv) > 4 else "a"
    install()
    for i in range(nscripts):
        script("%s%d" % (prefix, i), random.Random(seed * 1000003 + i), nactions)
        sys.stdout.flush()
