"""C08: fixed corpus — Exo source programs that run FIRST in every check (correspondence + sanitizer search), each one
a shape that once let a defect (real or seeded) through the generated samples.  All of them compile and run clean on
the unchanged tree.

  chain2_read / chain3_write_else_loop / chain2_call_src / chain3_call_dst :
      a local heap allocation, a chain of 2 or 3 windows on it, and the LAST use through the innermost window only
      (read, write, window passed to a callee that reads / writes it).  A Free placed by resolving only one alias step
      (or none) is a heap-use-after-free here.
  else_alloc_negmod :
      allocations in the else branch only, `%` and `/` on index expressions that are negative for valid inputs."""

HEADER = (
    "from __future__ import annotations\n"
    "from exo import proc, instr, config, DRAM\n"
    "from exo.libs.memories import DRAM_STACK, DRAM_STATIC\n"
    "from exo.stdlib.scheduling import *\n"
)

SUBS = '''
@proc
def cp4{u}(dst: [R][4], src: [R][4]):
    for i in seq(0, 4):
        dst[i] = src[i]

@proc
def acc4{u}(dst: [R][4], src: [R][4]):
    for i in seq(0, 4):
        dst[i] += src[(i + 1) % 4]
'''

PROGRAMS = [
    ("chain2_read", '''
@proc
def foo(n: size, x: R[8]):
    t: R[8]
    for i in seq(0, 8):
        t[i] = x[i]
    w1 = t[2:8]
    w2 = w1[1:5]
    x[0] = 0.0
    for i in seq(0, 4):
        x[i + 1] = w2[i]
'''),
    ("chain3_write_else_loop", '''
@proc
def foo(n: size, x: R[8], y: [R][8]):
    assert n <= 8
    for j in seq(0, n):
        if j > 1:
            y[j] = x[0]
        else:
            t: R[4, 8]
            for a in seq(0, 4):
                for b in seq(0, 8):
                    t[a, b] = 1.0
            w1 = t[1, 0:8]
            w2 = w1[2:8]
            w3 = w2[1:5]
            y[j] = x[1]
            for i in seq(0, 4):
                w3[i] = x[i] + w3[(i + 1) % 4]
'''),
    ("chain2_call_src", '''
@proc
def foo(n: size, x: R[8], y: [R][8]):
    t: R[8, 4]
    for a in seq(0, 8):
        for b in seq(0, 4):
            t[a, b] = 2.0
    w1 = t[1:7, 2]
    w2 = w1[1:5]
    x[0] = y[0]
    cp4{u}(y[2:6], w2[0:4])
'''),
    ("chain3_call_dst", '''
@proc
def foo(n: size, x: R[8]):
    if n > 2:
        t: R[8]
        for i in seq(0, 8):
            t[i] = 0.0
        w1 = t[0:8]
        w2 = w1[2:8]
        w3 = w2[0:4]
        x[0] = 1.0
        acc4{u}(w3, x[4:8])
'''),
    ("else_alloc_negmod", '''
@proc
def foo(n: size, k: index, x: R[8], y: [R][4]):
    assert k >= -2
    assert k <= 2
    if n > 3:
        pass
    else:
        t: R[8]
        for i in seq(0, 8):
            t[i] = x[(i - 3) % 8]
        s: R
        s = t[(k - 1) / 2 + 2]
        for i in seq(0, 4):
            y[(i + k) % 4] = t[((i + k + 2) / 2) % 8] + s
'''),
]


def modules():
    """[(name, module source text)]"""
    out = []
    for q, (name, body) in enumerate(PROGRAMS):
        u = "c%d" % q
        out.append((name, HEADER + SUBS.replace("{u}", u) + body.replace("{u}", u)))
    return out
