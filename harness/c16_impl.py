"""C16 implementation-side driver (runs in a subprocess with common.exo_env()).

usage: c16_impl.py <seed> <n_procs> <n_patterns_per_proc> <nav_budget_per_proc> <scratch_dir> <out.jsonl>

For every generated procedure it
  * pushes real Exo source text through the real front end (@proc),
  * exports the LoopIR tree as an s-expression for the Coq model,
  * runs Procedure.find / find_all / find_loop / find_alloc_or_arg / Cursor.find on generated pattern strings
    while observing (monkey-patched, no hook in /repo) the pattern text + PAST handed to the matcher and match_no,
  * runs every navigation method on every cursor position (internal and API level),
  * checks the navigation laws directly on the real cursors.
All results are canonical s-expression strings identical in format to coq/Find/driver.ml's output.
"""
from __future__ import annotations

import importlib
import json
import os
import random
import sys
import traceback
from fractions import Fraction

sys.setrecursionlimit(10000)

seed, n_procs, n_pats, nav_budget = int(sys.argv[1]), int(sys.argv[2]), int(sys.argv[3]), int(sys.argv[4])
scratch, out_path = sys.argv[5], sys.argv[6]
sys.path.insert(0, os.path.dirname(os.path.abspath(__file__)))
sys.path.insert(0, scratch)

import c16_gen as G  # noqa: E402

with open(os.path.join(scratch, "c16_prelude.py"), "w") as f:
    f.write(G.PRELUDE)

from exo.core.LoopIR import LoopIR, PAST  # noqa: E402
from exo.core import internal_cursors as IC  # noqa: E402
from exo import API_cursors as AC  # noqa: E402
from exo.API import Procedure  # noqa: E402
import exo.frontend.pattern_match as PM  # noqa: E402
import exo.frontend.pyparser as pyparser  # noqa: E402
from exo.libs.externs import sin, relu, select  # noqa: E402,F401  (names visible to p.find's caller frame)

out = open(out_path, "w")


def emit(rec):
    out.write(json.dumps(rec) + "\n")


# --------------------------------------------------------------------------------------------------
# exporters (fail closed)
class ExportError(Exception):
    pass


def atom(s):
    s = str(s)
    if not s or any(c in s for c in " \t\n()"):
        raise ExportError("bad atom %r" % s)
    return s


def frac(v):
    if isinstance(v, (bool, int, float)):
        try:
            fr = Fraction(v)
        except (ValueError, OverflowError):
            raise ExportError("non-finite constant")
        return "%d %d" % (fr.numerator, fr.denominator)
    raise ExportError("constant of type %s" % type(v).__name__)


def ex_e(e):
    if isinstance(e, LoopIR.Read):
        return "(Read %s (%s))" % (atom(e.name), " ".join(ex_e(i) for i in e.idx))
    if isinstance(e, LoopIR.Const):
        return "(Const %s)" % frac(e.val)
    if isinstance(e, LoopIR.USub):
        return "(USub %s)" % ex_e(e.arg)
    if isinstance(e, LoopIR.BinOp):
        return "(BinOp %s %s %s)" % (atom(e.op), ex_e(e.lhs), ex_e(e.rhs))
    if isinstance(e, LoopIR.Extern):
        return "(Extern %s (%s))" % (atom(e.f.name()), " ".join(ex_e(a) for a in e.args))
    if isinstance(e, LoopIR.WindowExpr):
        ws = []
        for w in e.idx:
            if isinstance(w, LoopIR.Interval):
                ws.append("(Interval %s %s)" % (ex_e(w.lo), ex_e(w.hi)))
            elif isinstance(w, LoopIR.Point):
                ws.append("(Point %s)" % ex_e(w.pt))
            else:
                raise ExportError("w_access %s" % type(w).__name__)
        return "(WindowExpr %s (%s))" % (atom(e.name), " ".join(ws))
    if isinstance(e, LoopIR.StrideExpr):
        return "(StrideExpr %s %d)" % (atom(e.name), e.dim)
    if isinstance(e, LoopIR.ReadConfig):
        return "(ReadConfig %s %s)" % (atom(e.config.name()), atom(e.field))
    raise ExportError("expr %s" % type(e).__name__)


def ex_s(s):
    if isinstance(s, LoopIR.Assign):
        return "(Assign %s (%s) %s)" % (atom(s.name), " ".join(ex_e(i) for i in s.idx), ex_e(s.rhs))
    if isinstance(s, LoopIR.Reduce):
        return "(Reduce %s (%s) %s)" % (atom(s.name), " ".join(ex_e(i) for i in s.idx), ex_e(s.rhs))
    if isinstance(s, LoopIR.WriteConfig):
        return "(WriteConfig %s %s %s)" % (atom(s.config.name()), atom(s.field), ex_e(s.rhs))
    if isinstance(s, LoopIR.Pass):
        return "(Pass)"
    if isinstance(s, LoopIR.If):
        return "(If %s (%s) (%s))" % (ex_e(s.cond), " ".join(ex_s(x) for x in s.body), " ".join(ex_s(x) for x in s.orelse))
    if isinstance(s, LoopIR.For):
        return "(For %s %s %s (%s))" % (atom(s.iter), ex_e(s.lo), ex_e(s.hi), " ".join(ex_s(x) for x in s.body))
    if isinstance(s, LoopIR.Alloc):
        if isinstance(s.type, LoopIR.Tensor):
            return "(AllocT %s (%s))" % (atom(s.name), " ".join(ex_e(h) for h in s.type.hi))
        return "(AllocS %s)" % atom(s.name)
    if isinstance(s, LoopIR.Call):
        return "(Call %s (%s))" % (atom(s.f.name), " ".join(ex_e(a) for a in s.args))
    if isinstance(s, LoopIR.WindowStmt):
        return "(WindowStmt %s %s)" % (atom(s.name), ex_e(s.rhs))
    raise ExportError("stmt %s" % type(s).__name__)


def ex_proc(p):
    return "(proc (%s) (%s))" % (" ".join(atom(a.name) for a in p.args), " ".join(ex_s(s) for s in p.body))


def ex_pe(e):
    if isinstance(e, PAST.E_Hole):
        return "(EHole)"
    if isinstance(e, PAST.Read):
        return "(PRead %s (%s))" % (atom(e.name), " ".join(ex_pe(i) for i in e.idx))
    if isinstance(e, PAST.StrideExpr):
        return "(PStride %s %s)" % (atom(e.name), "none" if e.dim is None else "%d" % e.dim)
    if isinstance(e, PAST.Const):
        return "(PConst %s)" % frac(e.val)
    if isinstance(e, PAST.USub):
        return "(PUSub %s)" % ex_pe(e.arg)
    if isinstance(e, PAST.BinOp):
        return "(PBinOp %s %s %s)" % (atom(e.op), ex_pe(e.lhs), ex_pe(e.rhs))
    if isinstance(e, PAST.Extern):
        return "(PExtern %s (%s))" % (atom(e.f), " ".join(ex_pe(a) for a in e.args))
    if isinstance(e, PAST.ReadConfig):
        return "(PReadConfig %s %s)" % (atom(e.config), atom(e.field))
    raise ExportError("pexpr %s" % type(e).__name__)


def ex_ps(s):
    if isinstance(s, PAST.S_Hole):
        return "(SHole)"
    if isinstance(s, PAST.Assign):
        return "(PAssign %s (%s) %s)" % (atom(s.name), " ".join(ex_pe(i) for i in s.idx), ex_pe(s.rhs))
    if isinstance(s, PAST.Reduce):
        return "(PReduce %s (%s) %s)" % (atom(s.name), " ".join(ex_pe(i) for i in s.idx), ex_pe(s.rhs))
    if isinstance(s, PAST.Pass):
        return "(PPass)"
    if isinstance(s, PAST.If):
        return "(PIf %s (%s) (%s))" % (ex_pe(s.cond), " ".join(ex_ps(x) for x in s.body), " ".join(ex_ps(x) for x in s.orelse))
    if isinstance(s, PAST.For):
        return "(PFor %s %s %s (%s))" % (atom(s.iter), ex_pe(s.lo), ex_pe(s.hi), " ".join(ex_ps(x) for x in s.body))
    if isinstance(s, PAST.Alloc):
        return "(PAlloc %s (%s))" % (atom(s.name), " ".join(ex_pe(x) for x in s.sizes))
    if isinstance(s, PAST.Call):
        return "(PCall %s (%s))" % (atom(s.f), " ".join(ex_pe(a) for a in s.args))
    if isinstance(s, PAST.WriteConfig):
        return "(PWriteConfig %s %s)" % (atom(s.config), atom(s.field))
    raise ExportError("pstmt %s" % type(s).__name__)


def ex_past(p):
    if isinstance(p, list):
        return "(S (%s))" % " ".join(ex_ps(s) for s in p)
    return "(E %s)" % ex_pe(p)


# --------------------------------------------------------------------------------------------------
# canonical printing of real cursors / results (same format as driver.ml)
def path_str(path):
    return "(" + " ".join("(%s %s)" % (a, "none" if i is None else "%d" % i) for a, i in path) + ")"


def cur_str(c):
    if isinstance(c, AC.InvalidCursor):
        return "invalid"
    if isinstance(c, AC.Cursor):
        c = c._impl
    if isinstance(c, IC.Node):
        return "(N %s)" % path_str(c._path)
    if isinstance(c, IC.Block):
        return "(B %s %s %d %d)" % (path_str(c._anchor._path), c._attr, c._range.start, c._range.stop)
    if isinstance(c, IC.Gap):
        return "(G %s %d)" % (path_str(c._anchor._path), 0 if c._type == IC.GapType.Before else 1)
    raise ExportError("cursor %r" % (c,))


def val_str(v):
    if isinstance(v, bool):
        return "true" if v else "false"
    if isinstance(v, int):
        return "%d" % v
    if isinstance(v, list):
        return "(" + " ".join(val_str(x) for x in v) + ")"
    return cur_str(v)


def run(fn):
    """canonical result of a real call"""
    try:
        return "(ok %s)" % val_str(fn())
    except ExportError:
        raise
    except RecursionError:
        raise
    except BaseException as e:  # noqa: BLE001  (the exception class IS the observation)
        return "(err %s)" % type(e).__name__


def codes(s):
    return "(s" + "".join(" %d" % ord(c) for c in s) + ")"


# --------------------------------------------------------------------------------------------------
# observation of the glue: pattern text + PAST handed over by match_pattern, and match_no
OBS = {}
_orig_pattern = pyparser.pattern
_orig_find = PM.PatternMatch.find


def _pattern(s, *a, **kw):
    OBS["pattern_str"] = s
    r = _orig_pattern(s, *a, **kw)
    OBS["past"] = r
    return r


def _find(self, cur, pat, match_no=None, use_sym_id=False):
    OBS["match_no"] = match_no
    OBS["ctx"] = cur
    OBS["called"] = True
    return _orig_find(self, cur, pat, match_no=match_no, use_sym_id=use_sym_id)


pyparser.pattern = _pattern
PM.PatternMatch.find = _find


# --------------------------------------------------------------------------------------------------
# pattern text derived from the IR (so that most patterns have matches)
class PatPrinter:
    def __init__(self, rng, hole_p):
        self.r = rng
        self.hp = hole_p

    def e(self, e, top=False):
        r = self.r
        if not top and r.random() < self.hp:
            return "_"
        if isinstance(e, LoopIR.Read):
            nm = "_" if r.random() < 0.08 else str(e.name)
            if not e.idx:
                return nm if nm != "_" or not top else str(e.name)
            k = r.random()
            idx = e.idx if k > 0.15 else e.idx[: r.randrange(0, len(e.idx) + 1)]  # zip truncation
            if not idx:
                return nm if nm != "_" else str(e.name)
            return "%s[%s]" % (nm, ", ".join(self.e(i) for i in idx))
        if isinstance(e, LoopIR.Const):
            return repr(e.val)
        if isinstance(e, LoopIR.USub):
            return "-%s" % self.e(e.arg)
        if isinstance(e, LoopIR.BinOp):
            op = e.op if r.random() > 0.07 else r.choice(["+", "*", "-", "<", "=="])
            return "(%s %s %s)" % (self.e(e.lhs), op, self.e(e.rhs))
        if isinstance(e, LoopIR.Extern):
            args = e.args if r.random() > 0.15 else e.args[:1]
            return "%s(%s)" % (e.f.name(), ", ".join(self.e(a) for a in args))
        if isinstance(e, LoopIR.WindowExpr):
            return "%s[_]" % e.name if r.random() < 0.8 else "%s[_, _]" % e.name
        if isinstance(e, LoopIR.StrideExpr):
            return "stride(%s, %s)" % (e.name, r.choice([str(e.dim), "_", "0", "1"]))
        if isinstance(e, LoopIR.ReadConfig):
            return "%s.%s" % (e.config.name(), e.field)
        raise ExportError("pat expr")

    def lhs(self, s):
        r = self.r
        nm = "_" if r.random() < 0.1 else str(s.name)
        k = r.random()
        if not s.idx or k < 0.3:
            return nm
        idx = s.idx if k > 0.45 else s.idx[:1]
        return "%s[%s]" % (nm, ", ".join(self.e(i) for i in idx))

    def s(self, s, ind=0, top=False):
        r = self.r
        pad = "    " * ind
        if not top and r.random() < self.hp * 0.6:
            return [pad + "_"]
        if isinstance(s, LoopIR.Assign):
            return [pad + "%s = %s" % (self.lhs(s), self.e(s.rhs))]
        if isinstance(s, LoopIR.Reduce):
            return [pad + "%s += %s" % (self.lhs(s), self.e(s.rhs))]
        if isinstance(s, LoopIR.WriteConfig):
            return [pad + "%s.%s = %s" % (s.config.name(), s.field, self.e(s.rhs))]
        if isinstance(s, LoopIR.Pass):
            return [pad + "pass"]
        if isinstance(s, LoopIR.If):
            lines = [pad + "if %s:" % self.e(s.cond)] + self.blk(s.body, ind + 1)
            if s.orelse and r.random() < 0.7:
                lines += [pad + "else:"] + self.blk(s.orelse, ind + 1)
            return lines
        if isinstance(s, LoopIR.For):
            it = "_" if r.random() < 0.1 else str(s.iter)
            if r.random() < 0.6:
                hd = "for %s in _:" % it
            else:
                hd = "for %s in seq(%s, %s):" % (it, self.e(s.lo), self.e(s.hi))
            return [pad + hd] + self.blk(s.body, ind + 1)
        if isinstance(s, LoopIR.Alloc):
            nm = "_" if r.random() < 0.1 else str(s.name)
            if isinstance(s.type, LoopIR.Tensor) and r.random() < 0.6:
                his = s.type.hi if r.random() > 0.2 else s.type.hi[:1]
                return [pad + "%s : f32[%s]" % (nm, ", ".join(self.e(h) for h in his))]
            return [pad + "%s : _" % nm]
        if isinstance(s, LoopIR.Call):
            k = r.random()
            if k < 0.5:
                args = ", ".join("_" for _ in s.args)
            elif k < 0.7:
                args = "_"
            else:
                args = ", ".join("_" if isinstance(a, LoopIR.WindowExpr) else self.e(a) for a in s.args)
            return [pad + "%s(%s)" % (s.f.name if r.random() > 0.05 else "_", args)]
        if isinstance(s, LoopIR.WindowStmt):
            return [pad + "%s = %s" % (str(s.name), "_" if r.random() < 0.6 else self.e(s.rhs, top=True))]
        raise ExportError("pat stmt")

    def blk(self, stmts, ind):
        r = self.r
        k = r.random()
        if k < 0.4:
            return ["    " * ind + "_"]
        lines = []
        # a prefix, possibly closed by a hole
        n = r.randrange(1, len(stmts) + 1)
        prev_hole = False
        for st in stmts[:n]:
            ls = self.s(st, ind)
            is_hole = len(ls) == 1 and ls[0].strip() == "_"
            if is_hole and prev_hole:
                continue
            lines += ls
            prev_hole = is_hole
        if n < len(stmts) and not prev_hole and r.random() < 0.7:
            lines.append("    " * ind + "_")
        return lines


def all_nodes(proc_ir):
    """(path, node, kind) for every node reachable through the attributes pattern_match._children follows"""
    res = []

    def ve(e, path):
        res.append((path, e, "e"))
        if isinstance(e, (LoopIR.Read, LoopIR.Extern)):
            lst = e.idx if isinstance(e, LoopIR.Read) else e.args
            at = "idx" if isinstance(e, LoopIR.Read) else "args"
            for i, x in enumerate(lst):
                ve(x, path + [(at, i)])
        elif isinstance(e, LoopIR.WindowExpr):
            for i, w in enumerate(e.idx):
                wp = path + [("idx", i)]
                res.append((wp, w, "w"))
                if isinstance(w, LoopIR.Interval):
                    ve(w.lo, wp + [("lo", None)])
                    ve(w.hi, wp + [("hi", None)])
                else:
                    ve(w.pt, wp + [("pt", None)])
        elif isinstance(e, LoopIR.USub):
            ve(e.arg, path + [("arg", None)])
        elif isinstance(e, LoopIR.BinOp):
            ve(e.lhs, path + [("lhs", None)])
            ve(e.rhs, path + [("rhs", None)])

    def vs(s, path):
        res.append((path, s, "s"))
        if isinstance(s, (LoopIR.Assign, LoopIR.Reduce)):
            for i, x in enumerate(s.idx):
                ve(x, path + [("idx", i)])
            ve(s.rhs, path + [("rhs", None)])
        elif isinstance(s, (LoopIR.WriteConfig, LoopIR.WindowStmt)):
            ve(s.rhs, path + [("rhs", None)])
        elif isinstance(s, LoopIR.If):
            ve(s.cond, path + [("cond", None)])
            for i, x in enumerate(s.body):
                vs(x, path + [("body", i)])
            for i, x in enumerate(s.orelse):
                vs(x, path + [("orelse", i)])
        elif isinstance(s, LoopIR.For):
            ve(s.lo, path + [("lo", None)])
            ve(s.hi, path + [("hi", None)])
            for i, x in enumerate(s.body):
                vs(x, path + [("body", i)])
        elif isinstance(s, LoopIR.Call):
            for i, x in enumerate(s.args):
                ve(x, path + [("args", i)])

    for i, s in enumerate(proc_ir.body):
        vs(s, [("body", i)])
    return res


def list_attrs(node):
    """list-valued attributes of a node, as the model's get_attr knows them"""
    if isinstance(node, LoopIR.proc):
        return [("args", node.args), ("body", node.body)]
    if isinstance(node, (LoopIR.Assign, LoopIR.Reduce, LoopIR.Read, LoopIR.WindowExpr)):
        return [("idx", node.idx)]
    if isinstance(node, LoopIR.If):
        return [("body", node.body), ("orelse", node.orelse)]
    if isinstance(node, LoopIR.For):
        return [("body", node.body)]
    if isinstance(node, (LoopIR.Call, LoopIR.Extern)):
        return [("args", node.args)]
    return []


def single_attrs(node):
    if isinstance(node, (LoopIR.Assign, LoopIR.Reduce, LoopIR.WriteConfig, LoopIR.WindowStmt)):
        return ["rhs"]
    if isinstance(node, LoopIR.If):
        return ["cond"]
    if isinstance(node, LoopIR.For):
        return ["lo", "hi"]
    if isinstance(node, LoopIR.USub):
        return ["arg"]
    if isinstance(node, LoopIR.BinOp):
        return ["lhs", "rhs"]
    if isinstance(node, LoopIR.Interval):
        return ["lo", "hi"]
    if isinstance(node, LoopIR.Point):
        return ["pt"]
    return []


# --------------------------------------------------------------------------------------------------
def do_find(k, p, root_sexp, argnames, api, raw, many, ctx_cursor, stream):
    """one find call on the real implementation + everything the model needs to replay it"""
    OBS.clear()
    if api == "find":
        res = run(lambda: p.find(raw, many=many))
    elif api == "find_all":
        res = run(lambda: p.find_all(raw))
    elif api == "find_loop":
        res = run(lambda: p.find_loop(raw, many=many))
    elif api == "find_alloc_or_arg":
        res = run(lambda: p.find_alloc_or_arg(raw))
    elif api == "cursor.find":
        res = run(lambda: ctx_cursor.find(raw, many=many))
    else:
        raise ExportError(api)
    rec = {"t": "find", "proc": k, "api": api, "raw": raw, "many": bool(many), "stream": stream,
           "ctx": path_str(ctx_cursor._impl._path) if ctx_cursor is not None else "()", "real": res,
           "args": argnames, "obs_pattern": OBS.get("pattern_str"), "obs_match_no": OBS.get("match_no"),
           "matcher_called": bool(OBS.get("called")), "past": None, "past_err": None}
    if "past" in OBS:
        try:
            rec["past"] = ex_past(OBS["past"])
        except ExportError as e:
            rec["past_err"] = str(e)
    emit(rec)


def law_check(k, p, nodes):
    """navigation laws checked directly on the real API / internal cursors; returns the failures"""
    fails = []
    root = p._root()

    def bad(law, c, detail):
        fails.append({"law": law, "cursor": cur_str(c), "detail": detail})

    def same(a, b):
        return cur_str(a) == cur_str(b)

    nchecked = 0
    for path, node, kind in nodes:
        n = IC.Node(root._root, list(path))
        attr, idx = path[-1]
        # parent / child
        par = n.parent()
        try:
            back = par._child_node(attr, idx)
            if not same(back, n):
                bad("child(parent c) = c", n, cur_str(back))
        except BaseException as e:  # noqa: BLE001
            bad("child(parent c) = c", n, type(e).__name__)
        nchecked += 1
        # anchor(before) / anchor(after)
        if not same(n.before().anchor(), n) or not same(n.after().anchor(), n):
            bad("anchor(before c) = c", n, "")
        if not same(n.before().parent(), par) or not same(n.after().parent(), par):
            bad("parent(before c) = parent c", n, "")
        nchecked += 2
        if not par.is_ancestor_of(n) or not n.is_ancestor_of(n):
            bad("parent c is ancestor of c", n, "")
        if idx is None:
            for name, f in (("next", lambda: n.next()), ("prev", lambda: n.prev()), ("as_block", lambda: n.as_block())):
                try:
                    f()
                    bad("%s of a non-list child is invalid" % name, n, "no exception")
                except IC.InvalidCursorError:
                    pass
                except BaseException as e:  # noqa: BLE001
                    bad("%s of a non-list child is invalid" % name, n, type(e).__name__)
            nchecked += 3
            continue
        siblings = getattr(par._node, attr)
        ln = len(siblings)
        # next / prev
        for d in (1, 2):
            try:
                nx = n.next(d)
                if idx + d >= ln:
                    bad("next beyond the end is invalid", n, cur_str(nx))
                elif not same(nx.prev(d), n):
                    bad("prev(next c) = c", n, "d=%d" % d)
                elif nx._path[-1] != (attr, idx + d):
                    bad("next moves by dist", n, cur_str(nx))
            except IC.InvalidCursorError:
                if idx + d < ln:
                    bad("next inside the block is valid", n, "d=%d" % d)
            try:
                pv = n.prev(d)
                if idx - d < 0:
                    bad("prev before the start is invalid", n, cur_str(pv))
                elif not same(pv.next(d), n):
                    bad("next(prev c) = c", n, "d=%d" % d)
            except IC.InvalidCursorError:
                if idx - d >= 0:
                    bad("prev inside the block is valid", n, "d=%d" % d)
            nchecked += 2
        # as_block
        b = n.as_block()
        if len(b) != 1 or not same(b[0], n) or not same(b[-1], n) or n not in b:
            bad("(as_block c)[0] = c", n, cur_str(b))
        if not same(b.expand(0, 0), b):
            bad("expand 0 0 b = b", n, cur_str(b.expand(0, 0)))
        full = b.expand()
        if not same(full, par._child_block(attr)) or len(full) != ln:
            bad("expand() = whole block", n, cur_str(full))
        if not same(full[idx], n):
            bad("whole[i] = c", n, "")
        if not same(b.before(), n.before()) or not same(b.after(), n.after()):
            bad("block before/after", n, "")
        if not same(b.parent(), par):
            bad("parent(as_block c) = parent c", n, "")
        nchecked += 6
        # slicing laws on the whole block, anchored at this index
        for j in range(idx, min(ln, idx + 3) + 1):
            sl = full[idx:j]
            if len(sl) != j - idx:
                bad("len(b[i:j]) = j - i", n, cur_str(sl))
            for kk in range(j - idx):
                if not same(sl[kk], full[idx + kk]):
                    bad("b[i:j][k] = b[i+k]", n, "j=%d k=%d" % (j, kk))
            if j > idx:
                if not same(sl.expand(idx, ln - j), full):
                    bad("expand undoes slicing", n, cur_str(sl))
                if not same(list(sl)[0], n):
                    bad("iter(b)[0] = b[0]", n, "")
                if not (sl in full and n in sl):
                    bad("slice containment", n, cur_str(sl))
            try:
                sl[j - idx]
                bad("b[len b] raises IndexError", n, cur_str(sl))
            except IndexError:
                pass
            nchecked += 3
        # API level
        if kind == "s":
            c = AC.lift_cursor(n, p)
            nx = c.next()
            if idx + 1 < ln:
                if isinstance(nx, AC.InvalidCursor) or not same(nx.prev(), c):
                    bad("API prev(next c) = c", n, cur_str(nx))
            elif not isinstance(nx, AC.InvalidCursor):
                bad("API next at the block end is InvalidCursor", n, cur_str(nx))
            pv = c.prev()
            if idx > 0:
                if isinstance(pv, AC.InvalidCursor) or not same(pv.next(), c):
                    bad("API next(prev c) = c", n, cur_str(pv))
            elif not isinstance(pv, AC.InvalidCursor):
                bad("API prev at the block start is InvalidCursor", n, cur_str(pv))
            if not same(c.before().anchor(), c) or not same(c.after().anchor(), c):
                bad("API anchor(before c) = c", n, "")
            if not same(c.as_block()[0], c) or not same(c.expand(0, 0), c.as_block()):
                bad("API (as_block c)[0] = c", n, "")
            cp = c.parent()
            if len(path) == 1:
                if not isinstance(cp, AC.InvalidCursor):
                    bad("API parent of a top-level statement is InvalidCursor", n, cur_str(cp))
            elif not same(cp, par):
                bad("API parent", n, cur_str(cp))
            nchecked += 5
        # clamping of expand, and containment across different lists
        if kind == "s":
            big = b.expand(99, 99)
            if not same(big, full):
                bad("expand clamps at the ends of the enclosing block", n, cur_str(big))
            e11 = b.expand(1, 1)
            if (e11._range.start, e11._range.stop) != (max(0, idx - 1), min(ln, idx + 2)):
                bad("expand(1, 1) adds one statement on each side, clamped", n, cur_str(e11))
            if isinstance(node, LoopIR.If) and node.orelse:
                bb, ob = n._child_block("body"), n._child_block("orelse")
                if (bb[0] in ob) or (ob[0] in bb) or (bb in ob) or not (bb[0] in bb) or not (ob[-1] in ob):
                    bad("a block only contains cursors of its own attribute", n, "")
            if len(path) > 1:
                top = IC.Node(root._root, [])._child_block("body")
                if n in top or b in top or n.before() in top:
                    bad("a block does not contain nested statements", n, "")
            nchecked += 4
    # ---- '#n' and shorthand laws on the real find (no model involved)
    RANK = {"cond": 0, "lo": 1, "hi": 2, "idx": 3, "lhs": 4, "rhs": 5, "args": 6, "arg": 7, "pt": 8, "body": 9, "orelse": 10}

    def start(c):
        i = c._impl
        if isinstance(i, IC.Node):
            return [(RANK[a], -1 if k is None else k) for a, k in i._path]
        return [(RANK[a], -1 if k is None else k) for a, k in i._anchor._path] + [(RANK[i._attr], i._range.start)]

    def findlaw(pat, shorthand=None):
        nonlocal nchecked
        try:
            L = p.find_all(pat)
        except BaseException:  # noqa: BLE001
            L = []
        keys = [start(c) for c in L]
        nchecked += 1
        if any(not (keys[i] < keys[i + 1]) for i in range(len(keys) - 1)):
            fails.append({"kind": "findlaw", "law": "find_all is strictly increasing in program order", "cursor": pat, "detail": str([cur_str(c) for c in L])[:300]})
        for k in range(len(L) + 1):
            calls = [("find(pat #k)", lambda k=k: p.find("%s #%d" % (pat, k))), ("find(pat #k, many)", lambda k=k: p.find("%s#%d " % (pat, k), many=True)[0])]
            if shorthand is not None:
                fn, nm = shorthand
                calls.append(("%s(name #k)" % fn.__name__, lambda k=k: fn("%s #%d" % (nm, k))))
            for what, f in calls:
                nchecked += 1
                try:
                    r = f()
                    if k >= len(L) or cur_str(r) != cur_str(L[k]):
                        fails.append({"kind": "findlaw", "law": "'#n' selects the n-th element of find_all: " + what, "cursor": pat, "detail": "k=%d got %s" % (k, cur_str(r))})
                except AC.SchedulingError:
                    if k < len(L):
                        fails.append({"kind": "findlaw", "law": "'#n' selects the n-th element of find_all: " + what, "cursor": pat, "detail": "k=%d raised" % k})
        if L and shorthand is not None:
            fn, nm = shorthand
            nchecked += 1
            if cur_str(fn(nm)) != cur_str(L[0]):
                fails.append({"kind": "findlaw", "law": "name shorthand = first match", "cursor": pat, "detail": cur_str(fn(nm))})

    loops = sorted({str(nd.iter) for _, nd, kd in nodes if kd == "s" and isinstance(nd, LoopIR.For)})
    argn = {str(a.name) for a in p._loopir_proc.args}
    allocs = sorted({str(nd.name) for _, nd, kd in nodes if kd == "s" and isinstance(nd, LoopIR.Alloc)} - argn)
    writes = sorted({str(nd.name) for _, nd, kd in nodes if kd == "s" and isinstance(nd, (LoopIR.Assign, LoopIR.Reduce))})
    for v in loops[:3]:
        findlaw("for %s in _: _" % v, (p.find_loop, v))
    for x in allocs[:3]:
        findlaw("%s: _" % x, (p.find_alloc_or_arg, x))
    for x in writes[:3]:
        findlaw("%s = _" % x)
        findlaw("%s[_] += _" % x)
    findlaw("if _: _")
    findlaw("_ + _")
    # ---- further laws of the documented interface (each is a separate finding class)
    for v in loops[:2]:
        try:
            L = p.find_all("for %s in _: _" % v)
        except BaseException:  # noqa: BLE001
            L = []
        for k in range(1, len(L)):
            nchecked += 1
            r1 = run(lambda: p.find_loop("%s #%d" % (v, k)))
            r2 = run(lambda: p.find_loop("%s # %d" % (v, k)))
            if r1 != r2:
                fails.append({"kind": "hash-space", "law": "find_loop('name # n') = find_loop('name #n')", "cursor": "%s # %d" % (v, k),
                              "detail": "%s vs %s" % (r2, r1)})
    if any(isinstance(nd, LoopIR.Extern) and nd.f.name() == "sin" for _, nd, kd in nodes if kd == "e"):
        nchecked += 1
        r1 = run(lambda: p.find("sin(_)", many=True))
        r2 = run(lambda: p.find_all("sin(_)"))
        if r1 != r2:
            fails.append({"kind": "find_all-extern", "law": "find_all(pat) = find(pat, many=True)", "cursor": "sin(_)", "detail": "%s vs %s" % (r2[:120], r1[:120])})
    if writes:
        pat = "%s = _" % writes[0]
        nchecked += 1
        r1 = run(lambda: p.find(pat, many=True))
        r2 = run(lambda: p.body().find(pat, many=True))
        if r1.startswith("(ok") and r1 != r2:
            fails.append({"kind": "block-find", "law": "p.body().find(pat) = p.find(pat)", "cursor": pat, "detail": "%s vs %s" % (r2[:120], r1[:120])})
    return fails, nchecked


def nav_queries(rng, p, nodes, budget):
    """queries (method, cursor, args...) over every cursor position; returns (query sexps, real results)"""
    root = p._root()
    R = root._root
    qs, real = [], []

    def add(q, fn):
        qs.append(q)
        real.append(run(fn))

    def N(path):
        return IC.Node(R, list(path))

    positions = [([], R, "p")] + [([("args", i)], a, "a") for i, a in enumerate(R.args)] + nodes
    allpaths = [pp for pp, _, _ in positions]
    # thin out when the procedure is large
    per_node = max(6, budget // max(1, len(positions)))
    for path, node, kind in positions:
        n = N(path)
        ns = "(N %s)" % path_str(path)
        cands = []
        cands.append(("(parent %s)" % ns, lambda n=n: n.parent()))
        for d in (-2, -1, 0, 1, 2):
            cands.append(("(next %s %d)" % (ns, d), lambda n=n, d=d: n.next(d)))
            cands.append(("(prev %s %d)" % (ns, d), lambda n=n, d=d: n.prev(d)))
        cands.append(("(before %s)" % ns, lambda n=n: n.before()))
        cands.append(("(after %s)" % ns, lambda n=n: n.after()))
        cands.append(("(as_block %s)" % ns, lambda n=n: n.as_block()))
        la = list_attrs(node)
        sa = single_attrs(node)
        for a, lst in la:
            for i in (None, -1, 0, len(lst) - 1, len(lst), 1):
                cands.append(("(child_node %s %s %s)" % (ns, a, "none" if i is None else "%d" % i),
                              lambda n=n, a=a, i=i: n._child_node(a, i)))
            cands.append(("(child_block %s %s)" % (ns, a), lambda n=n, a=a: n._child_block(a)))
        for a in sa:
            cands.append(("(child_node %s %s none)" % (ns, a), lambda n=n, a=a: n._child_node(a, None)))
            cands.append(("(child_node %s %s 0)" % (ns, a), lambda n=n, a=a: n._child_node(a, 0)))
            cands.append(("(child_block %s %s)" % (ns, a), lambda n=n, a=a: n._child_block(a)))
        if kind in ("s", "e") and not la and not sa:
            cands.append(("(child_node %s body 0)" % ns, lambda n=n: n._child_node("body", 0)))
        for _ in range(3):
            op = rng.choice(allpaths)
            o = N(op)
            which = rng.randrange(3)
            if which == 0 or not op:
                cands.append(("(is_ancestor_of %s (N %s))" % (ns, path_str(op)), lambda n=n, o=o: n.is_ancestor_of(o)))
            elif which == 1:
                cands.append(("(is_ancestor_of %s (G %s 1))" % (ns, path_str(op)), lambda n=n, o=o: n.is_ancestor_of(o.after())))
            elif op[-1][1] is not None:
                cands.append(("(is_ancestor_of %s (B %s %s %d %d))" % (ns, path_str(op[:-1]), op[-1][0], op[-1][1], op[-1][1] + 1),
                              lambda n=n, o=o: n.is_ancestor_of(o.as_block())))
        # gaps
        for t, mk in ((0, lambda n=n: n.before()), (1, lambda n=n: n.after())):
            gs = "(G %s %d)" % (path_str(path), t)
            cands.append(("(parent %s)" % gs, lambda mk=mk: mk().parent()))
            cands.append(("(anchor %s)" % gs, lambda mk=mk: mk().anchor()))
        # API level
        if kind in ("s", "e", "a"):
            try:
                c = AC.lift_cursor(n, p)
            except BaseException:  # noqa: BLE001
                c = None
            if c is not None:
                cands.append(("(api_parent %s)" % ns, lambda c=c: c.parent()))
                if kind == "s":
                    for d in (1, 2, -1):
                        cands.append(("(api_next %s %d)" % (ns, d), lambda c=c, d=d: c.next(d)))
                        cands.append(("(api_prev %s %d)" % (ns, d), lambda c=c, d=d: c.prev(d)))
                    cands.append(("(api_parent (G %s 0))" % path_str(path), lambda c=c: c.before().parent()))
                    if isinstance(node, LoopIR.If):
                        cands.append(("(api_orelse %s)" % ns, lambda c=c: c.orelse()))
        # blocks below this node
        for a, lst in la:
            ln = len(lst)
            ranges = [(lo, hi) for lo in range(ln + 1) for hi in range(lo, ln + 1)]
            if len(ranges) > 7:
                ranges = [(0, ln)] + rng.sample(ranges, 6)
            for lo, hi in ranges:
                b = IC.Block(R, n, a, range(lo, hi))
                bs = "(B %s %s %d %d)" % (path_str(path), a, lo, hi)
                cands.append(("(parent %s)" % bs, lambda b=b: b.parent()))
                cands.append(("(blen %s)" % bs, lambda b=b: len(b)))
                for i in sorted(set([-(hi - lo) - 1, -(hi - lo), -1, 0, 1, hi - lo - 1, hi - lo])):
                    cands.append(("(bget %s %d)" % (bs, i), lambda b=b, i=i: b[i]))
                for _ in range(5):
                    s = rng.choice([None, -2, -1, 0, 1, 2, hi - lo, hi - lo + 1])
                    e = rng.choice([None, -2, -1, 0, 1, 2, hi - lo, hi - lo + 1])
                    cands.append(("(bslice %s %s %s)" % (bs, "none" if s is None else "%d" % s, "none" if e is None else "%d" % e),
                                  lambda b=b, s=s, e=e: b[s:e]))
                    if lst and isinstance(lst[0], (LoopIR.stmt, LoopIR.expr)):
                        try:
                            ab = AC.lift_cursor(b, p) if hi > lo else None
                        except BaseException:  # noqa: BLE001
                            ab = None
                        if ab is not None:
                            cands.append(("(api_slice %s %s %s)" % (bs, "none" if s is None else "%d" % s, "none" if e is None else "%d" % e),
                                          lambda ab=ab, s=s, e=e: ab[s:e]))
                cands.append(("(bbefore %s)" % bs, lambda b=b: b.before()))
                cands.append(("(bafter %s)" % bs, lambda b=b: b.after()))
                cands.append(("(biter %s)" % bs, lambda b=b: list(b)))
                for _ in range(4):
                    dl = rng.choice([None, 0, 1, 2, -1, 7])
                    dh = rng.choice([None, 0, 1, 2, -1, 7])
                    cands.append(("(bexpand %s %s %s)" % (bs, "none" if dl is None else "%d" % dl, "none" if dh is None else "%d" % dh),
                                  lambda b=b, dl=dl, dh=dh: b.expand(dl, dh)))
                    if a in ("body", "orelse") and hi > lo:
                        ab = AC.BlockCursor(b, p)
                        cands.append(("(api_expand %s %s %s)" % (bs, "none" if dl is None else "%d" % dl, "none" if dh is None else "%d" % dh),
                                      lambda ab=ab, dl=dl, dh=dh: ab.expand(dl, dh)))
                # containment
                for _ in range(3):
                    op = rng.choice(allpaths)
                    o = N(op)
                    cands.append(("(bcontains %s (N %s))" % (bs, path_str(op)), lambda b=b, o=o: o in b))
                    cands.append(("(bcontains %s (G %s 0))" % (bs, path_str(op)), lambda b=b, o=o: o.before() in b))
                for i in range(ln):
                    if rng.random() < 0.5:
                        cands.append(("(bcontains %s (N %s))" % (bs, path_str(path + [(a, i)])), lambda b=b, n=n, a=a, i=i: n._child_node(a, i) in b))
                lo2 = rng.randrange(0, ln + 1)
                hi2 = rng.randrange(lo2, ln + 1)
                b2 = IC.Block(R, n, a, range(lo2, hi2))
                cands.append(("(bcontains %s (B %s %s %d %d))" % (bs, path_str(path), a, lo2, hi2), lambda b=b, b2=b2: b2 in b))
        if len(cands) > per_node:
            keep = cands[:1] + rng.sample(cands[1:], per_node - 1)
        else:
            keep = cands
        for q, fn in keep:
            add(q, fn)
    return qs, real


# --------------------------------------------------------------------------------------------------
PROBE = G.HEADER + """@proc
def probe(n: size, A: f32[n, n] @ DRAM, B: f32[n] @ DRAM):
    assert stride(A, 1) == 1
    Cfg.a = 1
    callee_s(n, B[0:n], stride(A, 1))
    t: f32
    t = 0.0
    scal(t)
    t = A[0, 0] + B[0]
"""


def probe_quirks():
    """which of the three known deviations does the implementation under test exhibit right now?"""
    with open(os.path.join(scratch, "m_probe.py"), "w") as f:
        f.write(PROBE)
    p = importlib.import_module("m_probe").probe

    def finds(pat):
        try:
            return len(p.find_all(pat)) > 0
        except Exception:  # noqa: BLE001
            return False

    ir = p._loopir_proc
    emit({"t": "proc", "id": -1, "src": PROBE, "sexp": ex_proc(ir), "n_nodes": 0, "n_stmts": 0})
    for pat in ("stride(A, 0)", "stride(A, 1)", "callee_s(1, 2, 3)", "callee_s(_, _, _)", "_.a = _", "Cfg._ = _", "Cfg.a = _",
                "t[0]", "A[0]", "A[0, 0]", "A[_]", "A", "B[0]", "B[0, 5]", "t[0] = 0.0"):
        do_find(-1, p, None, [str(a.name) for a in ir.args], "find_all", pat, True, None, "known-witness")
    bits = ("1" if finds("stride(A, 0)") else "0") + ("1" if finds("callee_s(1, 2, 3)") else "0") + ("0" if finds("_.a = _") else "1")
    emit({"t": "quirks", "bits": bits, "src": PROBE})


def main():
    rng = random.Random(seed)
    probe_quirks()
    made = 0
    attempts = 0
    while made < n_procs and attempts < n_procs * 3:
        attempts += 1
        g = G.ProcGen(random.Random(rng.getrandbits(48)), max_depth=rng.choice([2, 3, 3]), max_len=rng.choice([2, 3, 4]))
        name = "gen_%d" % attempts
        src = G.HEADER + g.proc(name)
        with open(os.path.join(scratch, "m_%s.py" % name), "w") as f:
            f.write(src)
        try:
            importlib.invalidate_caches()
            mod = importlib.import_module("m_" + name)
            p = getattr(mod, name)
            assert isinstance(p, Procedure)
        except BaseException as e:  # noqa: BLE001
            emit({"t": "reject", "src": src, "err": "%s: %s" % (type(e).__name__, str(e)[:200])})
            continue
        try:
            ir = p._loopir_proc
            sexp = ex_proc(ir)
            nodes = all_nodes(ir)
            argnames = [str(a.name) for a in ir.args]
            k = made
            made += 1
            emit({"t": "proc", "id": k, "src": src, "sexp": sexp, "n_nodes": len(nodes),
                  "n_stmts": sum(1 for _, _, kd in nodes if kd == "s")})
            prng = random.Random(rng.getrandbits(48))
            stmt_nodes = [(pp, nn) for pp, nn, kd in nodes if kd == "s"]
            expr_nodes = [(pp, nn) for pp, nn, kd in nodes if kd == "e"]
            loops = sorted({str(nn.iter) for _, nn in stmt_nodes if isinstance(nn, LoopIR.For)})
            bufs = sorted({str(nn.name) for _, nn in stmt_nodes if isinstance(nn, (LoopIR.Assign, LoopIR.Reduce, LoopIR.Alloc, LoopIR.WindowStmt))})
            allocs = sorted({str(nn.name) for _, nn in stmt_nodes if isinstance(nn, LoopIR.Alloc)})
            scope_nodes = [(pp, nn) for pp, nn in stmt_nodes if isinstance(nn, (LoopIR.If, LoopIR.For))]
            # ---- find: patterns derived from the IR
            for _ in range(n_pats):
                kind = prng.random()
                pp_ = PatPrinter(prng, prng.choice([0.15, 0.3, 0.5]))
                if kind < 0.35 and stmt_nodes:
                    path, st = prng.choice(stmt_nodes)
                    par = IC.Node(ir, list(path)).parent()._node
                    sibs = getattr(par, path[-1][0])
                    i0 = path[-1][1]
                    ln = prng.choice([1, 1, 2, 3])
                    run_ = sibs[i0: i0 + ln]
                    lines = []
                    prev_hole = False
                    for j, s_ in enumerate(run_):
                        ls = pp_.s(s_, 0, top=(j == 0 and len(run_) == 1))
                        is_hole = len(ls) == 1 and ls[0].strip() == "_"
                        if is_hole and prev_hole:
                            continue
                        lines += ls
                        prev_hole = is_hole
                    if prng.random() < 0.15 and not prev_hole:
                        lines.append("_")
                    if prng.random() < 0.1 and lines and lines[0].strip() != "_":
                        lines.insert(0, "_")
                    if all(l.strip() == "_" for l in lines):
                        lines.append(pp_.s(run_[0], 0, top=True)[0]) if not isinstance(run_[0], (LoopIR.If, LoopIR.For)) else lines.append("pass")
                    sep = " ; " if all(not l.startswith(" ") and not l.endswith(":") for l in lines) and prng.random() < 0.5 else "\n"
                    raw = sep.join(lines)
                    stream = "find-derived-stmt"
                elif kind < 0.6 and expr_nodes:
                    path, e_ = prng.choice(expr_nodes)
                    raw = pp_.e(e_, top=True)
                    if raw.startswith("(") and raw.endswith(")"):
                        raw = raw[1:-1] if raw.count("(") == 1 else raw
                    stream = "find-derived-expr"
                else:
                    raw = G.template_pattern(prng, loops, bufs)
                    stream = "find-template"
                if stream != "find-template":
                    raw += prng.choice(G.SUFFIXES)
                api = prng.choice(["find", "find_all", "find_all", "find"])
                many = prng.random() < 0.5
                do_find(k, p, sexp, argnames, api, raw, many, None, stream)
            # ---- find from a cursor context
            for _ in range(max(2, n_pats // 4)):
                kk = prng.random()
                if kk < 0.6 and scope_nodes:
                    path, cn = prng.choice(scope_nodes)
                elif kk < 0.85 or not expr_nodes:
                    path, cn = prng.choice(stmt_nodes)
                else:
                    path, cn = prng.choice(expr_nodes)
                inside = [(pp, nn, kd) for pp, nn, kd in nodes if kd != "w" and pp[: len(path)] == list(path)]
                pp_ = PatPrinter(prng, prng.choice([0.15, 0.3, 0.5]))
                if prng.random() < 0.7 and inside:
                    _p, tn, kd = prng.choice(inside)
                    if kd == "s":
                        raw = "\n".join(pp_.s(tn, 0, top=True))
                        if prng.random() < 0.2:
                            raw += "\n_"
                    else:
                        raw = pp_.e(tn, top=True)
                        if raw.startswith("(") and raw.endswith(")") and raw.count("(") == 1:
                            raw = raw[1:-1]
                    raw += prng.choice(G.SUFFIXES)
                else:
                    raw = G.template_pattern(prng, loops, bufs)
                ctx = AC.lift_cursor(IC.Node(ir, list(path)), p)
                do_find(k, p, sexp, argnames, "cursor.find", raw, prng.random() < 0.6, ctx, "find-context")
            # ---- shorthands
            for _ in range(max(2, n_pats // 8)):
                do_find(k, p, sexp, argnames, "find_loop", G.loop_shorthand(prng, loops), prng.random() < 0.4, None, "find-loop")
                do_find(k, p, sexp, argnames, "find_alloc_or_arg", G.alloc_shorthand(prng, allocs), False, None, "find-alloc-or-arg")
            # ---- malformed stream
            for _ in range(max(1, n_pats // 10)):
                do_find(k, p, sexp, argnames, prng.choice(["find", "find_all"]), G.malformed_pattern(prng, loops, bufs), prng.random() < 0.5, None, "find-malformed")
            # ---- navigation
            qs, real = nav_queries(prng, p, nodes, nav_budget)
            emit({"t": "nav", "proc": k, "queries": qs, "real": real})
            fails, nchecked = law_check(k, p, nodes)
            emit({"t": "law", "proc": k, "checked": nchecked, "fails": fails[:20]})
        except ExportError as e:
            emit({"t": "export_error", "src": src, "err": str(e)})
        except RecursionError:
            raise
        except BaseException as e:  # noqa: BLE001
            emit({"t": "driver_error", "src": src, "err": traceback.format_exc()[-1500:]})
    emit({"t": "done", "made": made, "attempts": attempts})
    out.close()


main()
