"""C15 corpus: minimal reproducers of the invalid-C / accepted-inconsistent-annotation defects, run first on every
check (stream "corpus"), plus consistent and inconsistent controls.  (name, module source, top procedure)"""
from c15_gen import HEADER

CASES = [
    # D2: a window argument written by the caller, passed BY NAME to a callee that only reads its window formal
    ("d2_window_by_name", HEADER + """
@proc
def rd(s: R, src: [R][4]):
    s = src[0]

@proc
def foo(y: [R][4], s: R):
    y[0] = 1.0
    rd(s, y)
""", "foo"),
    # D2 with a window VARIABLE
    ("d2_window_var_by_name", HEADER + """
@proc
def rd(s: R, src: [R][4]):
    s = src[0]

@proc
def foo(x: R[8], s: R):
    w = x[2:6]
    w[0] = 1.0
    rd(s, w)
""", "foo"),
    # D3: scalar allocation in DRAM_STACK / DRAM_STATIC
    ("d3_scalar_dram_stack", HEADER + """
@proc
def foo(x: R[4]):
    t: R
    t = 1.0
    x[0] = t
foo = set_memory(foo, "t", DRAM_STACK)
""", "foo"),
    ("d3_scalar_dram_static", HEADER + """
@proc
def foo(x: R[4]):
    t: R @ DRAM_STATIC
    t = 1.0
    x[0] = t
""", "foo"),
    # D4: window of a window variable after inline: src_buf is the intermediate window
    ("d4_window_of_window_after_inline", HEADER + """
@proc
def sub(dst: [R][4, 3]):
    w = dst[0:4, 1]
    w[2] = 5.0

@proc
def foo(y: R[4, 3]):
    sub(y[0:4, 0:3])
foo = inline(foo, "sub(_)")
""", "foo"),
    # D5: set_window leaves the recorded (non-window) type on the reads of the argument: WindowAnalysis does not see
    # that a window is now passed where a dense tensor is required
    ("d5_set_window_stale_flag", HEADER + """
@proc
def dn(a: R[4]):
    a[0] = 1.0

@proc
def foo(x: R[4]):
    dn(x)
foo = set_window(foo, "x", True)
""", "foo"),
    # D6: a window of an AVX2 buffer passed to an ordinary (non-instr) procedure
    ("d6_avx2_window_to_proc", HEADER + """
@proc
def g(a: [f32][8] @ AVX2):
    pass

@proc
def foo(z: f32[8]):
    y: f32[8] @ AVX2
    g(y)
""", "foo"),
    # D7: an extern nested in an argument of another extern: its definition is not emitted
    ("d7_nested_extern", HEADER + """
@proc
def foo(x: f32[4]):
    x[0] = relu(select(x[0], x[1], x[2], x[3]))
""", "foo"),
    # D8: nested unary minus is printed as the C pre-decrement operator (wrong value; an error only when x is const)
    ("d8_double_unary_minus", HEADER + """
@proc
def foo(x: f32[4], y: f32[4]):
    y[0] = -(-(x[0]))
""", "foo"),
    # controls: consistent
    ("ok_chain_f64", HEADER + """
@proc
def leaf(s: f64, src: [f64][4], dst: [f64][4]):
    dst[0] = src[1] * 2.0 + s

@proc
def mid(a: f64[4, 4], s: f64):
    t: f64[4] @ DRAM_STACK
    t[0] = 0.0
    leaf(s, a[1, 0:4], t)
    leaf(s, t, a[2, 0:4])

@proc
def foo(a: f64[4, 4]):
    s: f64
    s = 1.0
    mid(a, s)
""", "foo"),
    ("ok_setprec_all", HEADER + """
@proc
def leaf(dst: [R][8], src: [R][8]):
    for i in seq(0, 8):
        dst[i] += src[i] * 0.5

@proc
def foo(x: R[8], y: R[8]):
    t: R[8]
    for i in seq(0, 8):
        t[i] = -x[i]
    leaf(y, t)
leaf = set_precision(leaf, "dst", "f64")
leaf = set_precision(leaf, "src", "f64")
""", "foo"),
    # controls: each rejection clause
    ("rej_mixed_binop", HEADER + """
@proc
def foo(x: f32[4], y: f64[4]):
    x[0] = x[1] + y[1]
""", "foo"),
    ("rej_call_prec", HEADER + """
@proc
def leaf(a: f32[4]):
    a[0] = 1.0

@proc
def foo(y: f64[4]):
    leaf(y)
""", "foo"),
    ("rej_call_mem", HEADER + """
@proc
def leaf(a: f32[4] @ DRAM_STACK):
    a[0] = 1.0

@proc
def foo(y: f32[4]):
    leaf(y)
""", "foo"),
    ("rej_window_for_dense", HEADER + """
@proc
def leaf(a: f32[4]):
    a[0] = 1.0

@proc
def foo(y: f32[8]):
    leaf(y[2:6])
""", "foo"),
    ("rej_read_avx2", HEADER + """
@proc
def foo(y: f32[8] @ AVX2, z: f32[8]):
    z[0] = y[0]
""", "foo"),
    ("rej_write_ro", HEADER + """
@proc
def foo(y: f32[8] @ C15_RO, z: f32[8]):
    y[0] = z[0]
""", "foo"),
    ("rej_reduce_acc", HEADER + """
@proc
def foo(y: f32[8] @ C15_ACC, z: f32[8]):
    y[0] += z[0]
""", "foo"),
    # silent coercion across a call would look like this if the call-site check were missing
    ("rej_silent_coercion_scalar", HEADER + """
@proc
def leaf(s: f64, a: f64[4]):
    a[0] = s

@proc
def foo(y: f64[4], t: f32):
    leaf(t, y)
""", "foo"),
]
