"""Failing-input search shared by C01 / C04 / C10 / C19: apply REAL scheduling operations to generated
procedures and compare source and result in the extracted Coq reference semantics.

One `Finding` per failing (operation, site) instance; the property modules decide which kinds they own."""
from __future__ import annotations

import random
import re
import signal
import time
import traceback

import common
import export
import progen
import sched
import semcheck
from exo.core.LoopIR import LoopIR, T

CONFIG_OPS = {"bind_config", "write_config", "delete_config", "call_eqv"}
SIG_OPS = {"partial_eval", "transpose", "add_assertion", "rename", "set_precision", "set_precision_arg",
           "set_memory", "set_window", "parallelize_loop"}

# hand-written seed programs (the shapes behind the defects repaired in /repo and those still open);
# they always run first so that a regression of a repaired defect is found at once.
CORPUS = [
    ("remove_loop_nonzero_lo", """
@proc
def foo(n: size, x: R[4]):
    assert n >= 3
    for i in seq(3, n):
        x[0] = 1.0
    for j in seq(0, n):
        x[1] = 2.0
"""),
    ("simplify_mod_negative", """
@proc
def foo(x: R[4], y: R[4]):
    x[0] = 3.0 / 2.0
    for i in seq(0, 4):
        x[(i - 3) % 4] = y[i]
        if i == 0:
            for i in seq(0, 4):
                y[i] = 1.0
            y[i] = 2.0
"""),
    ("config_facts", """
@config
class CfgK:
    a: index
    flag: bool

@proc
def foo(x: R[4]):
    if CfgK.a == 0:
        CfgK.a = 1
        x[CfgK.a] = 1.0
    for i in seq(0, 2):
        if CfgK.a == 0:
            CfgK.a = 1
            x[0] += 1.0
"""),
    ("windows_and_decls", """
@proc
def foo(n: size, x: R[8], y: R[8]):
    if n > 2:
        x[0] = 1.0
    t: R
    t = x[0]
    w = y[2:6]
    x[1] = w[0] + t
    for i in seq(0, 2):
        w3 = x[4:6]
        w3[i] = 2.0
    t2: R
    t2 = 1.0
    y[0] = t2
    x[2] = 5.0 + y[1] * x[2]
    for j in seq(3, 6):
        y[j] = x[j]
"""),
    ("names_shared_with_arguments", """
@proc
def callee(x: R[8]):
    for kk in seq(0, 4):
        x[kk] = x[kk] * 2.0

@proc
def foo(n: size, kk: index, x: R[8], y: R[8]):
    assert kk >= 0
    assert kk < 4
    callee(x)
    for n in seq(0, 3):
        y[n] = x[kk] + 1.0
    for kk in seq(4, 6):
        y[kk] = 3.0
"""),
    ("window_of_window_same_cell", """
@proc
def setz(z: [R][4]):
    z[0] = 1.0

@proc
def setrow(y: [R][3, 4], r: index):
    assert r >= 0
    assert r < 3
    row = y[r, 0:4]
    row[0] = 2.0 * row[0]
    setz(y[1, 0:4])

@proc
def foo(x: R[6, 6], u: R[6]):
    y = x[2:5, 1:5]
    z = y[1, 0:4]
    z[0] = 1.0
    x[3, 1] = 2.0
    w = u[1:5]
    v = w[2:4]
    v[1] = 3.0
    u[4] += 4.0
    for i in seq(0, 3):
        setrow(x[1:4, 2:6], i)
        x[2, 2] = 5.0
"""),
    ("config_write_read_overwrite", """
@config
class CfgW:
    a: index
    flag: bool

@proc
def rdcfg(x: [R][4]):
    if CfgW.a == 1:
        x[1] = 1.0

@proc
def foo(x: R[8], y: R[4]):
    CfgW.a = 1
    if CfgW.a == 1:
        x[0] = 1.0
    CfgW.a = 2
    rdcfg(x[0:4])
    CfgW.a = 1
    for i in seq(0, 4):
        if CfgW.a == 1:
            y[i] = 2.0
    CfgW.a = 0
    CfgW.flag = True
"""),
    ("config_in_loop_bounds", """
@config
class CfgB:
    a: index

@proc
def foo(n: size, x: R[16], y: R[1]):
    assert n > 4
    assert n <= 8
    CfgB.a = 2
    for i in seq(CfgB.a, CfgB.a + n):
        CfgB.a = 3
        if i < 5:
            y[0] += 1.0
    for j in seq(0, n):
        x[j] = 2.0
        CfgB.a = 1
    for k in seq(0, 4):
        x[k + CfgB.a] = 3.0
        CfgB.a = 2
"""),
    ("padded_extents_divisibility", """
@proc
def foo(n: size, x: R[n]):
    assert n <= 6
    t: R[n + 4]
    u: R[n + 8]
    v: R[4 * n]
    for i in seq(0, n + 4):
        t[i] = 1.0
    for i in seq(0, n + 8):
        u[i] = 2.0
    for i in seq(0, 4 * n):
        v[i] = 3.0
    for i in seq(0, n):
        x[i] = t[i + 4] + u[i + 8] + v[4 * i + 3]
"""),
    ("config_written_only_in_else", """
@config
class CfgE:
    i: index
    j: index

@proc
def seti(k: index):
    CfgE.i = k

@proc
def foo(n: size, x: R[4], y: R[4]):
    CfgE.i = 0
    CfgE.j = 0
    if n < 3:
        pass
    else:
        CfgE.i = 1
    CfgE.i = 0
    if CfgE.i == 0:
        x[0] = 1.0
    if n < 2:
        y[1] = 1.0
    else:
        if n < 3:
            seti(2)
        else:
            CfgE.j = 3
    CfgE.j = 0
    if CfgE.j == 0:
        y[0] = 2.0
    CfgE.i = 0
"""),
    ("mult_dim_transposes", """
@proc
def foo(n: size, m: size, a: [R][n, m], b: R[n, m], c: R[4]):
    assert stride(a, 1) == 1
    t: R[n, 4]
    for i in seq(0, n):
        for j in seq(0, 4):
            t[i, j] = c[j]
    for i in seq(0, n):
        for j in seq(0, m):
            a[i, j] = b[i, j] + t[i, 1]
"""),
]


# deterministic witnesses: (name, source, function(module) -> list of (op, descr, thunk)).  They replay the specific
# inputs behind every OPEN known finding (so the KNOWN-FINDING line is printed on every run while the defect
# exists) and behind every defect REPAIRED in /repo (so that a regression is reported as a violation).
def _w_stage_mem(m):
    import exo.stdlib.scheduling as S
    p = m.foo
    return [("stage_mem", "B[]:body:(0, 1) win=x[0:n]", lambda: S.stage_mem(p, p.body()[0], "x[0:n]", "stg"))]


def _w_lift_scope(m):
    import exo.stdlib.scheduling as S
    p = m.foo
    return [("lift_scope", "N[('body', 0), ('body', 0)]", lambda: S.lift_scope(p, p.body()[0].body()[0]))]


def _w_inline_assign(m):
    import exo.stdlib.scheduling as S
    p = m.foo
    return [("inline_assign", "N[('body', 0)]", lambda: S.inline_assign(p, p.body()[0]))]


def _w_repaired(m):
    import exo.stdlib.scheduling as S
    p = m.foo
    b = p.body()
    return [
        ("remove_loop", "N[('body', 0)]", lambda: S.remove_loop(p, b[0])),
        ("fuse", "N[('body', 0)]", lambda: S.fuse(p, b[0], b[1])),
        ("simplify", "", lambda: S.simplify(p)),
        ("split_write", "N[('body', 2)]", lambda: S.split_write(p, b[2])),
        ("divide_with_recompute", "N[('body', 0)]", lambda: S.divide_with_recompute(p, b[0], 1, 1, ["a", "b"])),
        ("resize_dim_fold", "N[('body', 3)]", lambda: S.resize_dim(p, b[3], 0, 4, 0, fold=True)),
    ]


def _w_stage_overrun(m):
    import exo.stdlib.scheduling as S
    p = m.foo
    lp = p.find_loop("i")
    blk = lp.body()
    return [
        ("stage_mem", "B[('body', 0)]:body:(0, 1) win=x[i-1:i+1]", lambda: S.stage_mem(p, blk, "x[i-1:i+1]", "stg")),
        ("stage_mem", "B[('body', 0)]:body:(0, 1) win=x[i-1:i+2]", lambda: S.stage_mem(p, blk, "x[i-1:i+2]", "stg")),
        ("stage_mem", "B[('body', 0)]:body:(0, 1) win=x[i:i+2]", lambda: S.stage_mem(p, blk, "x[i:i+2]", "stg")),
    ]


def _w_fission_shortcut(m):
    import exo.stdlib.scheduling as S
    p = m.foo
    lp = p.find_loop("i")
    return [("fission", "G[('body', 0), ('body', 1)]:GapType.Before n=1", lambda: S.fission(p, lp.body()[1].before()))]


def _w_stage_callee(m):
    import exo.stdlib.scheduling as S
    p = m.foo
    return [("stage_mem", "B[]:body:(0, 1) win=y[0:4]", lambda: S.stage_mem(p, p.body()[0], "y[0:4]", "stg"))]


def _w_stage_alias(m):
    import exo.stdlib.scheduling as S
    p = m.foo
    blk = p.body()[1:3]
    return [("stage_mem", "B[]:body:(1, 3) win=x[0:4]", lambda: S.stage_mem(p, blk, "x[0:4]", "stg"))]


def _w_sink_alloc(m):
    import exo.stdlib.scheduling as S
    p = m.foo
    return [("sink_alloc", "N[('body', 0)]", lambda: S.sink_alloc(p, p.body()[0]))]


def _w_inline_scalar(m):
    import exo.stdlib.scheduling as S
    p = m.foo
    return [("inline_assign", "N[('body', 1)]", lambda: S.inline_assign(p, p.body()[1]))]


def _w_recompute(m):
    import exo.stdlib.scheduling as S
    p = m.foo
    return [("divide_with_recompute", "N[('body', 0)]", lambda: S.divide_with_recompute(p, p.body()[0], 2, 1, ["a", "b"]))]


WITNESSES = [
    ("divide_with_recompute_loop_carried", """
@proc
def foo(y: R[2], u: R[6]):
    for j in seq(0, 6):
        if j <= 2:
            y[1] = u[3] + u[4]
        else:
            u[j] = 1.0
""", _w_recompute),
    ("inline_assign_scalar_passed_to_call", """
@proc
def sub(s: R, y: R[2]):
    y[0] = s

@proc
def foo(x: R[2], y: R[2]):
    a: R
    a = x[0] + x[1]
    sub(a, y)
""", _w_inline_scalar),
    ("stage_mem_window_alias", """
@proc
def foo(x: R[4], y: R[4]):
    w2 = x[2:3]
    w2[0] = 5.0
    y[0] = x[2]
""", _w_stage_alias),
    ("sink_alloc_into_if_else", """
@proc
def foo(bb: bool, y: R[4]):
    a: R[10]
    if bb:
        a[1] = 0.0
        y[0] = a[1]
    else:
        a[1] = 1.0
        y[0] = a[1]
""", _w_sink_alloc),
    ("stage_mem_callee_writes_through_window", """
@proc
def setz(dst: [R][2]):
    dst[0] = 7.0
    dst[1] = 8.0

@proc
def foo(y: R[4], x: R[4]):
    setz(y[0:2])
    x[0] = y[0]
""", _w_stage_callee),
    ("fission_idempotent_prefix_reduced_into", """
@proc
def foo(n: size, y: R[8]):
    for i in seq(0, n):
        y[3] = 4.0
        y[3] += 9.0
""", _w_fission_shortcut),
    ("stage_mem_window_overruns_source", """
@proc
def foo(n: size, x: R[n], y: R[n]):
    for i in seq(0, n):
        if i >= 1:
            x[i] += x[i - 1] * y[i]
""", _w_stage_overrun),
    ("stage_mem_write_only", """
@proc
def foo(n: size, x: R[n], y: R[n]):
    assert n >= 2
    x[0] = y[0]
    y[1] = x[1]
""", _w_stage_mem),
    ("lift_scope_config_guard", """
@config
class CfgL:
    a: index

@proc
def foo(x: R[4]):
    for i in seq(0, 2):
        if CfgL.a == 0:
            CfgL.a = 1
            x[0] += 1.0
""", _w_lift_scope),
    ("inline_assign_observable", """
@proc
def foo(x: R[6], y: R[6]):
    y[0] = x[3]
    x[1] = y[0]
""", _w_inline_assign),
    ("repaired_defects", """
@proc
def foo(n: size, x: R[8], y: R[2]):
    assert n >= 3
    for i in seq(3, n):
        x[0] = 1.0
    for j in seq(0, n):
        x[(j - 3) % 4] = 3.0 / 2.0
    x[2] = 5.0 + y[1] * x[2]
    t: R[12]
    for k in seq(0, 8):
        t[k] = 1.0
        t[k + 3] = 2.0
    y[0] = t[4]
""", _w_repaired),
]


class OpTimeout(Exception):
    pass


def _alarm(signum, frame):
    raise OpTimeout()


class Finding:
    def __init__(self, op, kind, site, detail, replay):
        self.op, self.kind, self.site, self.detail, self.replay = op, kind, site, detail, replay

    @property
    def key(self):
        return "%s|%s|%s" % (self.op, self.kind, self.site)


def site_signature(p, descr: str) -> str:
    """syntactic shape of the targeted statement(s), used to identify a call site in finding keys"""
    m = re.match(r"([NBG])(\[.*?\])(?::(\w+):\((\d+), (\d+)\))?", descr)
    if not m:
        return "-"
    try:
        path = eval(m.group(2))
        node = p._loopir_proc
        stmts = None
        for attr, i in path:
            lst = getattr(node, attr)
            node = lst[i] if i is not None else lst
        if m.group(1) == "B":
            lst = getattr(node, m.group(3))
            stmts = lst[int(m.group(4)): int(m.group(5))]
            return "B:" + ",".join(type(s).__name__ for s in stmts)
        extra = ""
        if isinstance(node, (LoopIR.If,)):
            extra = cfg_dep(node)
        if isinstance(node, LoopIR.For):
            extra = ("lo0" if isinstance(node.lo, LoopIR.Const) and node.lo.val == 0 else "lo!0") + cfg_dep(node)
        if isinstance(node, LoopIR.Assign):
            extra = "scalar" if not node.idx else "tensor"
        return type(node).__name__ + (":" + extra if extra else "")
    except Exception:
        return "?"


def op_tag(p, op, descr) -> str:
    """operation-specific facts about the call site that identify a known finding"""
    if op == "stage_mem":
        m = re.search(r"win=(\w+)\[", descr)
        if m:
            buf = m.group(1)
            aliased = []

            def walk(ss):
                for s in ss:
                    if isinstance(s, LoopIR.WindowStmt):
                        if str(s.rhs.name) == buf or str(s.rhs.name) in aliased or str(s.name) == buf:
                            aliased.append(str(s.name))
                    for attr in ("body", "orelse"):
                        if hasattr(s, attr):
                            walk(getattr(s, attr))

            walk(p._loopir_proc.body)
            passed = []

            def calls(ss):
                for s in ss:
                    if isinstance(s, LoopIR.Call):
                        for a in s.args:
                            if isinstance(a, (LoopIR.WindowExpr, LoopIR.Read)) and str(a.name) in [buf] + aliased \
                                    and a.type.is_numeric() and (isinstance(a, LoopIR.WindowExpr) or not a.idx):
                                passed.append(str(a.name))
                    for attr in ("body", "orelse"):
                        if hasattr(s, attr):
                            calls(getattr(s, attr))

            calls(p._loopir_proc.body)
            tag = ""
            if aliased:
                tag += ":staged-buffer-has-window-alias"
            if passed:
                tag += ":staged-buffer-passed-to-call"
            return tag
    if op == "fission":
        # known finding C01-fission-idempotent-shortcut: the part before the gap does not mention the loop variable,
        # contains no reduction, and writes a buffer that the part after the gap reduces into
        import ast
        from exo.core.LoopIR import get_writes_of_stmts, get_reads_of_stmts
        m = re.match(r"G(\[.*?\]):GapType\.(Before|After)", descr)
        if m:
            try:
                path = ast.literal_eval(m.group(1))
                node = p._loopir_proc
                for attr, idx in path[:-1]:
                    node = getattr(node, attr)[idx]
                attr, idx = path[-1]
                k = idx + (1 if m.group(2) == "After" else 0)
                # with several lifts the gap may sit inside ifs below the loop: gather what precedes / follows the gap
                # at every level up to the innermost enclosing loop
                chain = [p._loopir_proc]
                for a_, i_ in path[:-1]:
                    chain.append(getattr(chain[-1], a_)[i_])
                pre, post, loop = [], [], None
                kk = k
                for depth in range(len(path) - 1, -1, -1):
                    holder = chain[depth]
                    a_ = path[depth][0]
                    blk = getattr(holder, a_)
                    pre = list(blk[:kk]) + pre
                    post = post + list(blk[kk:])
                    if isinstance(holder, LoopIR.For):
                        loop = holder
                        break
                    if depth == 0:
                        break
                    kk = path[depth - 1][1]  # position of `holder` in its own block: it belongs to neither side
                    post = post  # statements after the holder at the outer level are added in the next round
                    # exclude the holder itself from both sides
                    outer_blk = getattr(chain[depth - 1], path[depth - 1][0])
                    pre = list(outer_blk[:kk]) + pre
                    post = post + list(outer_blk[kk + 1:])
                    if isinstance(chain[depth - 1], LoopIR.For):
                        loop = chain[depth - 1]
                        break
                    break
                node = loop
                if isinstance(node, LoopIR.For):

                    def reduces(ss, acc):
                        for st in ss:
                            if isinstance(st, LoopIR.Reduce):
                                acc.add(st.name)
                            for a in ("body", "orelse"):
                                if hasattr(st, a):
                                    reduces(getattr(st, a), acc)
                            if isinstance(st, LoopIR.Call):
                                reduces(st.f.body, acc)  # conservative: formal names differ, so only local reduces count
                        return acc

                    pre_red = reduces(pre, set())
                    post_red = reduces(post, set())
                    pre_w = {nm for nm, _ in get_writes_of_stmts(pre)}

                    def assigned(ss, acc, wd):
                        for st in ss:
                            if isinstance(st, LoopIR.WindowStmt):
                                wd[st.name] = wd.get(st.rhs.name, st.rhs.name)
                            if isinstance(st, LoopIR.Assign):
                                acc.add(wd.get(st.name, st.name))
                            for a in ("body", "orelse"):
                                if hasattr(st, a):
                                    assigned(getattr(st, a), acc, wd)
                        return acc

                    wd = {}
                    pre_assigned = assigned(pre, set(), wd)
                    post_red = {wd.get(nm, nm) for nm in post_red}
                    pre_mentions = {nm for nm, _ in get_reads_of_stmts(pre)}
                    # (reductions of the first part that a later assignment of the same part shadows do not count for
                    # the implementation's idempotence test, so they are not excluded here)
                    if node.iter not in pre_mentions and (pre_assigned & post_red):
                        return ":idempotent-prefix-written-then-reduced-into"
            except Exception:
                pass
    return ""


def cfg_dep(node) -> str:
    """does a condition/bound read a configuration field that the nested statements write?"""
    from exo.core.LoopIR import get_readconfigs, get_writeconfigs, GetReadConfigs

    def reads_of(e):
        g = GetReadConfigs()
        g.do_e(e)
        return set((c.name(), f) for c, f in g.readconfigs)

    rd = set()
    for s in [node] + [b for b in getattr(node, "body", []) if isinstance(b, (LoopIR.If, LoopIR.For))]:
        if isinstance(s, LoopIR.If):
            rd |= reads_of(s.cond)
        if isinstance(s, LoopIR.For):
            rd |= reads_of(s.lo) | reads_of(s.hi)
    try:
        wr = set((c.name(), f) for c, f in get_writeconfigs(node.body + getattr(node, "orelse", [])))
    except Exception:
        wr = set()
    return ":cfg-guard-written-inside" if rd & wr else ""


def relation_of(op, descr):
    if op == "partial_eval":
        nm, v = descr.split("=")
        v = {"True": True, "False": False}[v] if v in ("True", "False") else int(v)
        return ("partial_eval", nm, v)
    if op == "transpose":
        return ("transpose", descr)
    if op == "add_assertion":
        return ("narrow",)
    return None


class Search:
    def __init__(self, ck: common.Check, ops=None, exclude=None, features=None, n_inputs=None, chain=2,
                 stream="rewrite-search", max_cands=None, prefix_ops=None):
        self.ck = ck
        self.ops, self.exclude = ops, exclude or set()
        self.features = features
        self.chain = chain
        self.stream = stream
        self.sc = semcheck.SemChecker(ck.rng, n_inputs=n_inputs or ck.n(4, 8))
        self.findings: list[Finding] = []
        self.stats = {"programs": 0, "rejected_by_frontend": 0, "applied": 0, "refused": 0, "crashed": 0,
                      "compared": 0, "per_op": {}}
        self.crashes: list[dict] = []
        self.prefix_ops = prefix_ops  # ops applied (unchecked here) before the explored ones, to vary the starting point
        self.max_cands = max_cands or ck.n(30, 80)
        self.deadline = None
        self.on_program = None  # callback (tag, src, procedure) for per-program checks
        self.after_apply = []  # callbacks (old, new, op, descr, src) -> None, used by C04's static checks

    def want(self, op):
        base = op.replace("resize_dim_fold", "resize_dim").replace("set_precision_arg", "set_precision")
        if base in self.exclude or op in self.exclude:
            return False
        return self.ops is None or base in self.ops or op in self.ops

    def programs(self, n):
        for name, body in CORPUS:
            yield "corpus:" + name, progen.HEADER + body
        for k in range(n):
            seed = self.ck.rng.randrange(1 << 30)
            g = progen.ProgGen(random.Random(seed), uid=str(k), features=self.features)
            yield "gen:%d" % seed, g.module()

    def run_witnesses(self):
        for name, body, fn in WITNESSES:
            src = progen.HEADER + body
            mod, err = progen.load_module(src)
            if mod is None:
                self.ck.broken_obligation("witness:" + name, "the front end rejects the witness program: %s" % err)
                continue
            self.sc.reset()
            cands = [c for c in fn(mod) if self.want(c[0])]
            self.apply_all("witness:" + name, src, mod.foo, cands, [], 1, ())

    def run(self, n_programs, budget_s):
        t0 = time.time()
        self.deadline = None
        self.run_witnesses()
        self.deadline = t0 + budget_s
        for tag, src in self.programs(n_programs):
            if time.time() - t0 > budget_s:
                self.ck.log("time budget reached after %d programs" % self.stats["programs"])
                break
            mod, err = progen.load_module(src)
            if mod is None:
                self.stats["rejected_by_frontend"] += 1
                continue
            self.stats["programs"] += 1
            self.sc.reset()
            cfgs = [v for v in vars(mod).values() if type(v).__name__ == "Config"]
            p, hist = mod.foo, []
            if self.on_program:
                try:
                    self.on_program(tag, src, p)
                except Exception:
                    traceback.print_exc()
            if self.prefix_ops and self.ck.rng.random() < 0.6:
                pre = [c for c in sched.candidates(p, random.Random(self.ck.rng.randrange(1 << 30)), configs=cfgs)
                       if c[0] in self.prefix_ops]
                self.ck.rng.shuffle(pre)
                for op, descr, thunk in pre[:6]:
                    try:
                        p = thunk()
                        hist = [(op, descr)]
                        break
                    except Exception:
                        continue
            self.explore(tag, src, p, cfgs, self.chain, history=hist)
        self.sc.close()
        return self.findings

    def explore(self, tag, src, p, cfgs, depth, history=()):
        rng = self.ck.rng
        try:
            allc = sched.candidates(p, random.Random(rng.randrange(1 << 30)), configs=cfgs)
            if tag.startswith("corpus:"):  # sample the argument choices several times for the hand-written corpus
                seen = {(c[0], c[1]) for c in allc}
                for _ in range(3):
                    for c in sched.candidates(p, random.Random(rng.randrange(1 << 30)), configs=cfgs):
                        if (c[0], c[1]) not in seen:
                            seen.add((c[0], c[1]))
                            allc.append(c)
        except Exception as e:  # e.g. a procedure whose body became empty (unroll of a zero-trip loop): nothing to explore
            self.stats["unexplorable"] = self.stats.get("unexplorable", 0) + 1
            return
        cands = [c for c in allc if self.want(c[0])]
        rng.shuffle(cands)
        if not tag.startswith("corpus:"):  # the hand-written corpus is explored completely
            cands = cands[: self.max_cands]
        self.apply_all(tag, src, p, cands, cfgs, depth, history)

    def apply_all(self, tag, src, p, cands, cfgs, depth, history):
        rng = self.ck.rng
        accepted = []
        for op, descr, thunk in cands:
            if self.deadline and time.time() > self.deadline:
                break
            po = self.stats["per_op"].setdefault(op, {"applied": 0, "refused": 0, "crashed": 0, "failed": 0})
            try:
                signal.signal(signal.SIGALRM, _alarm)
                signal.alarm(20)
                try:
                    q = thunk()
                finally:
                    signal.alarm(0)
            except OpTimeout:
                po["crashed"] += 1
                self.stats["timeouts"] = self.stats.get("timeouts", 0) + 1
                continue
            except sched.REFUSALS:
                po["refused"] += 1
                self.stats["refused"] += 1
                continue
            except Exception as e:  # an internal error is a refusal too, but we keep a record
                po["crashed"] += 1
                self.stats["crashed"] += 1
                if len(self.crashes) < 20:
                    self.crashes.append({"op": op, "descr": descr, "exc": "%s: %s" % (type(e).__name__, str(e)[:120])})
                continue
            po["applied"] += 1
            self.stats["applied"] += 1
            site = site_signature(p, descr) + op_tag(p, op, descr)
            steps = list(history) + [(op, descr)]
            replay = {"program": tag, "source": src, "schedule": steps}
            for cb in self.after_apply:
                try:
                    cb(p, q, op, descr, site, replay)
                except Exception:
                    traceback.print_exc()
            try:
                r = self.sc.compare(p, q, op, descr, relation=relation_of(op, descr))
            except Exception as e:
                traceback.print_exc()
                r = {"kind": "harness-error", "detail": "%s: %s" % (type(e).__name__, e)}
            self.stats["compared"] += 1
            nontriv = r is None or r.get("kind") not in ("unsupported", "harness-error")
            self.ck.case(self.stream, (tag, tuple(steps)), nontrivial=nontriv,
                         sample={"program": tag, "op": op, "at": descr, "site": site, "result": "same" if r is None else r["kind"]},
                         tag=op)
            if r is None:
                accepted.append((op, descr, q))
                continue
            if r["kind"] == "unsupported":
                continue
            if r["kind"] == "harness-error":
                self.ck.broken_obligation("harness:semcheck", r["detail"])
                continue
            po["failed"] += 1
            replay = dict(replay, result=common.safe_str(q), **{k: v for k, v in r.items() if k != "kind"})
            self.findings.append(Finding(op, r["kind"], site, r["detail"], replay))
        if depth > 1 and accepted:
            op, descr, q = rng.choice(accepted)
            self.explore(tag, src, q, cfgs, depth - 1, history=list(history) + [(op, descr)])
