"""C12 corpus: minimised cases that once failed; they run first (worker 0, stream "corpus") through the same
pipeline as generated cases (real simplify, model comparison, brute-force search)."""

CORPUS = [
    {   # is_quotient_remainder compared printed operands: two distinct `i` were identified (fixed in /repo by
        # "fix: simplify's quotient-remainder rule must not identify distinct variables by name")
        "name": "quotient-remainder-same-name",
        "src": (
            "@proc\n"
            "def callee(k: index, x: R[32]):\n"
            "    assert k >= 0\n"
            "    assert k < 8\n"
            "    for i in seq(0, 8):\n"
            "        x[k % 4 + 4 * (i / 4)] = 1.0\n"
            "\n"
            "@proc\n"
            "def p(x: R[32]):\n"
            "    for i in seq(0, 8):\n"
            "        callee(i, x)\n"
            "\n"
            "p = inline(p, 'callee(_)')\n"
        ),
    },
    {   # (i - 3) % 4 with i in [0, 4): the modulo may only be dropped when 0 <= operand is known
        "name": "mod-negative-operand",
        "src": (
            "@proc\n"
            "def sink2(a: index, b: index):\n"
            "    pass\n"
            "\n"
            "@proc\n"
            "def p(x: R[8]):\n"
            "    for i in seq(0, 4):\n"
            "        x[(i - 3) % 4] = 1.0\n"
            "        sink2((i - 3) % 4, (i - 3) / 4)\n"
        ),
    },
    {   # a fact about `i == 0` must not apply to a shadowing inner i, nor survive a write to a config field
        "name": "facts-shadow-and-config",
        "src": (
            "@config\n"
            "class Cfg:\n"
            "    a: index\n"
            "    f: bool\n"
            "\n"
            "@proc\n"
            "def sink2(a: index, b: index):\n"
            "    pass\n"
            "\n"
            "@proc\n"
            "def p(n: size, x: R[8]):\n"
            "    if Cfg.a == 0:\n"
            "        Cfg.a = 1\n"
            "        sink2(Cfg.a, 0)\n"
            "    for i in seq(0, n):\n"
            "        if i == 0:\n"
            "            for i in seq(0, 4):\n"
            "                x[i] = 1.0\n"
            "                sink2(i, i / 4)\n"
        ),
    },
    {   # R-typed constant quotient must fold as real division
        "name": "real-constant-division",
        "src": (
            "@proc\n"
            "def p(x: R[8]):\n"
            "    x[0] = 3.0 / 2.0\n"
            "    x[7 / 2] = 1.0 / 4.0\n"
        ),
    },
]
