"""C12 corpus: minimised cases that once failed; they run first (worker 0, stream "corpus") through the same
pipeline as generated cases (real simplify, model comparison, brute-force search)."""

CORPUS = [
    {   # is_quotient_remainder compared printed operands: two distinct `i` were identified (fixed in /repo by
        # "fix: simplify's quotient-remainder rule must not identify distinct variables by name")
        "name": "quotient-remainder-same-name",
        "src": (
            "@proc\n"
            "def callee(k: index, x: R[32]):\n"
            "    assert k >= 0\n"
            "    assert k < 8\n"
            "    for i in seq(0, 8):\n"
            "        x[k % 4 + 4 * (i / 4)] = 1.0\n"
            "\n"
            "@proc\n"
            "def p(x: R[32]):\n"
            "    for i in seq(0, 8):\n"
            "        callee(i, x)\n"
            "\n"
            "p = inline(p, 'callee(_)')\n"
        ),
    },
    {   # (i - 3) % 4 with i in [0, 4): the modulo may only be dropped when 0 <= operand is known
        "name": "mod-negative-operand",
        "src": (
            "@proc\n"
            "def sink2(a: index, b: index):\n"
            "    pass\n"
            "\n"
            "@proc\n"
            "def p(x: R[8]):\n"
            "    for i in seq(0, 4):\n"
            "        x[(i - 3) % 4] = 1.0\n"
            "        sink2((i - 3) % 4, (i - 3) / 4)\n"
        ),
    },
    {   # a fact about `i == 0` must not apply to a shadowing inner i, nor survive a write to a config field
        "name": "facts-shadow-and-config",
        "src": (
            "@config\n"
            "class Cfg:\n"
            "    a: index\n"
            "    f: bool\n"
            "\n"
            "@proc\n"
            "def sink2(a: index, b: index):\n"
            "    pass\n"
            "\n"
            "@proc\n"
            "def p(n: size, x: R[8]):\n"
            "    if Cfg.a == 0:\n"
            "        Cfg.a = 1\n"
            "        sink2(Cfg.a, 0)\n"
            "    for i in seq(0, n):\n"
            "        if i == 0:\n"
            "            for i in seq(0, 4):\n"
            "                x[i] = 1.0\n"
            "                sink2(i, i / 4)\n"
        ),
    },
    {   # loop bound (i + 3) % 4 with i in [0, 3): the range [3, 5] straddles a multiple of 4, so the bound is [0, 3],
        # not [3 % 4, 5 % 4]; the inner j / 2 and j % 2 must stay
        "name": "mod-range-straddles-multiple",
        "src": (
            "@proc\n"
            "def sink2(a: index, b: index):\n"
            "    pass\n"
            "\n"
            "@proc\n"
            "def p(x: R[3, 3], y: R[3], z: R[3]):\n"
            "    for i in seq(0, 3):\n"
            "        for j in seq(0, (i + 3) % 4):\n"
            "            y[j % 2] += x[i, j]\n"
            "            z[j / 2] += x[i, j]\n"
            "            sink2(j % 2, j / 2)\n"
        ),
    },
    {   # bounds that are / and % of outer iterators and sizes, lower bound non-zero
        "name": "divmod-loop-bounds",
        "src": (
            "@proc\n"
            "def sink2(a: index, b: index):\n"
            "    pass\n"
            "\n"
            "@proc\n"
            "def p(n: size, x: R[64]):\n"
            "    for i in seq(2, 7):\n"
            "        for j in seq(i / 2, i / 2 + (2 * i + 5) % 8):\n"
            "            sink2(j % 4, j / 4)\n"
            "            x[(8 * (j / 3) + j % 3) % 64] = 1.0\n"
            "        for q in seq(i % 2, i % 2 + (i + n) % 3):\n"
            "            sink2(q % 2, (q + i) / 3)\n"
        ),
    },
    {   # shifted loop: (4*io + ii - 1) / 4 with ii in seq(1, 5) is io (the constant -1 is not a multiple of 4, its
        # floor quotient -1 must NOT be added); mirrored loop: (4*io + 7 - ii) / 4 with ii in seq(4, 8) is io
        "name": "division-shifted-and-mirrored-iterator",
        "src": (
            "@proc\n"
            "def sink2(a: index, b: index):\n"
            "    pass\n"
            "\n"
            "@proc\n"
            "def p(n: size, x: R[64]):\n"
            "    for io in seq(0, n):\n"
            "        for ii in seq(1, 5):\n"
            "            sink2((4 * io + ii - 1) / 4, (4 * io + ii - 1) % 4)\n"
            "            x[(4 * io + ii - 1) % 64] = 1.0\n"
            "        for ii in seq(4, 8):\n"
            "            sink2((4 * io + 7 - ii) / 4, (4 * io + 7 - ii) % 4)\n"
            "        for ii in seq(3, 6):\n"
            "            sink2((8 * io + ii + 5 - 8) / 8, (8 * io - ii + 13) / 8)\n"
            "            sink2((8 * io + ii + 5) / 8, (8 * io - ii + 13) % 8)\n"
        ),
    },
    {   # R-typed constant quotient must fold as real division
        "name": "real-constant-division",
        "src": (
            "@proc\n"
            "def p(x: R[8]):\n"
            "    x[0] = 3.0 / 2.0\n"
            "    x[7 / 2] = 1.0 / 4.0\n"
        ),
    },
]
