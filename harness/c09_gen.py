"""Generators of Exo source for property C09: procedures with `par` loops at every nesting position.

Two families (both are real Exo source pushed through the real front end):

  systematic(...)   one par loop whose body is a two-access pattern  (kindA at i+da , kindB at i+db),
                    kinds in {W,R,P}, shifts in {0,1}, placed at one of the POSITIONS below.  da == db is
                    race-free by construction, da != db races as soon as the loop has two iterations.
  ParGen(rng)       random modules: 1-3 loop nests at random positions, bodies of 1-3 statements drawn from
                    access templates (shifted / reversed / strided / constant / halved indices, scalars,
                    private and shared allocations, window aliases, configuration reads and writes, guards),
                    optional sub-procedures containing par loops, optional `parallelize_loop` directives.

(ParGen also builds triangular nests: inner bounds depending on the outer par variable.)
POSITIONS: top | inseq (inside a seq loop) | inif | inelse | inpar (inside another par loop) | insub (in a
sub-procedure called from the main procedure) | insubseq (sub-procedure, inside a seq loop) | deep
(seq > if > par) | sched (written `seq`, made parallel with parallelize_loop) | schednest (same, nested in a
seq loop).
"""
from __future__ import annotations

import random

HEADER = (
    "from __future__ import annotations\n"
    "from exo import proc, config, DRAM\n"
    "from exo.stdlib.scheduling import *\n"
)

POSITIONS = ["top", "inseq", "inif", "inelse", "inpar", "insub", "insubseq", "deep", "sched", "schednest"]
KINDS = [("W", "R"), ("P", "R"), ("W", "W"), ("P", "P"), ("W", "P"), ("R", "W")]


def _idx(v, d):
    return v if d == 0 else "%s + %d" % (v, d)


def pattern_body(ka, kb, da, db, buf="x", other="y", v="i"):
    """statements realising (ka at v+da) and (kb at v+db) on buffer `buf`"""
    a, b = "%s[%s]" % (buf, _idx(v, da)), "%s[%s]" % (buf, _idx(v, db))
    o = "%s[%s]" % (other, v)
    if (ka, kb) == ("W", "R"):
        return ["%s = %s + 1.0" % (a, b)]
    if (ka, kb) == ("R", "W"):
        return ["%s = %s" % (o, a), "%s = 2.0" % b]
    if (ka, kb) == ("P", "R"):
        return ["%s += 1.0" % a, "%s = %s" % (o, b)]
    if (ka, kb) == ("W", "W"):
        return ["%s = 1.0" % a, "%s = 2.0" % b]
    if (ka, kb) == ("P", "P"):
        return ["%s += 1.0" % a, "%s += 2.0" % b]
    if (ka, kb) == ("W", "P"):
        return ["%s = 1.0" % a, "%s += 2.0" % b]
    raise ValueError((ka, kb))


def place(position, body, uid="", mode="par"):
    """-> (module source, name of main proc, meta)   body: statements over i in [0,n), x,y : R[n+2]"""
    ind = lambda ls, k: ["    " * k + l for l in ls]
    sub = ""
    sched = ""
    main = "foo" + uid
    loop = lambda m, var="i", hi="n": "for %s in %s(0, %s):" % (var, m, hi)
    if position == "top":
        lines = [loop(mode)] + ind(body, 1)
    elif position == "inseq":
        lines = ["for j in seq(0, 2):"] + ind([loop(mode)] + ind(body, 1), 1)
    elif position == "inif":
        lines = ["if n > 1:"] + ind([loop(mode)] + ind(body, 1), 1)
    elif position == "inelse":
        lines = ["if n > 6:", "    pass", "else:"] + ind([loop(mode)] + ind(body, 1), 1)
    elif position == "inpar":
        # outer par loop over rows of 2-d buffers; the pattern runs along the inner (par) loop
        b2 = [l.replace("x[", "x2[j, ").replace("y[", "y2[j, ") for l in body]
        lines = ["for j in par(0, 2):"] + ind([loop(mode)] + ind(b2, 1), 1)
    elif position in ("insub", "insubseq"):
        inner = [loop(mode)] + ind([l.replace("x[", "dst[").replace("y[", "aux[") for l in body], 1)
        if position == "insubseq":
            inner = ["for j in seq(0, 2):"] + ind(inner, 1)
        sub = "@proc\ndef sub%s(n: size, dst: [R][n + 2], aux: [R][n + 2]):\n%s\n\n" % (uid, "\n".join(ind(inner, 1)))
        lines = ["sub%s(n, x, y)" % uid]
    elif position == "deep":
        lines = ["for j in seq(0, 2):"] + ind(["if j == 0:"] + ind([loop(mode)] + ind(body, 1), 1), 1)
    elif position == "sched":
        lines = ["for ip in seq(0, n):"] + ind(_rename(body, "i", "ip"), 1)
        sched = "%s = parallelize_loop(%s, %s.find_loop('ip'))\n" % (main, main, main)
    elif position == "schednest":
        lines = ["for j in seq(0, 2):"] + ind(["for ip in seq(0, n):"] + ind(_rename(body, "i", "ip"), 1), 1)
        sched = "%s = parallelize_loop(%s, %s.find_loop('ip'))\n" % (main, main, main)
    else:
        raise ValueError(position)
    sig = "n: size, x: R[n + 2], y: R[n + 2], x2: R[2, n + 2], y2: R[2, n + 2]"
    src = HEADER + "\n" + sub + "@proc\ndef %s(%s):\n%s\n\n%s" % (main, sig, "\n".join(ind(lines, 1)), sched)
    return src, main


def _rename(body, a, b):
    import re
    return [re.sub(r"\b%s\b" % a, b, l) for l in body]


def systematic(uid=""):
    """yields (tag, position, race_free_by_construction, source, main)"""
    for (ka, kb) in KINDS:
        for da in (0, 1):
            for db in (0, 1):
                for pos in POSITIONS:
                    src, main = place(pos, pattern_body(ka, kb, da, db), uid)
                    yield ("%s%s:%d%d:%s" % (ka, kb, da, db, pos), pos, da == db, src, main)


# canonical programs that every version of the analysis must accept / reject (from tests/test_parallel.py and
# the statement of the property); a change of verdict here means the analysis no longer decides what it
# decided, whatever the generated population looks like
CANONICAL = [
    ("accept", "pointwise", "for i in par(0, n):\n        x[i] = y[i] + 1.0"),
    ("accept", "private-scalar", "for i in par(0, n):\n        t: R\n        t = x[i]\n        x[i] = t * 2.0"),
    ("accept", "nested-par", "for j in par(0, 2):\n        for i in par(0, n):\n            x2[j, i] = y2[j, i]"),
    ("accept", "in-seq", "for j in seq(0, 2):\n        for i in par(0, n):\n            x[i] += y[i]"),
    ("accept", "strided", "for i in par(0, n):\n        v[2 * i] = v[2 * i + 1]"),
    ("reject", "scalar-reduce", "for i in par(0, n):\n        y[0] += x[i]"),
    ("reject", "shift-up", "for i in par(0, n):\n        x[i + 1] = x[i]"),
    ("reject", "shift-down", "for i in par(0, n):\n        x[i] = x[i + 1]"),
    ("reject", "same-cell-write", "for i in par(0, n):\n        x[0] = y[i]"),
    ("reject", "nested-racy", "for j in seq(0, 2):\n        for i in par(0, n):\n            x[0] = y[i]"),
    ("reject", "nested-in-else", "if n > 6:\n        pass\n    else:\n        for i in par(0, n):\n            x[i + 1] += x[i]"),
    ("reject", "window-chain-shift",
     "a = x[1:n + 2]\n    b = a[0:n]\n    for i in par(0, n):\n        b[i] = x[i] + 1.0"),
    ("reject", "window-chain3-read-inner",
     "a = x[0:n + 2]\n    b = a[1:n + 2]\n    c = b[0:n]\n    for i in par(0, n):\n        x[i] = c[i]"),
    ("accept", "window-chain-same-cell",
     "a = x[1:n + 2]\n    b = a[0:n]\n    for i in par(0, n):\n        b[i] = x[i + 1] + 1.0"),
    ("reject", "outer-par-racy", "for j in par(0, 2):\n        for i in par(0, n):\n            x[i] = y[i]"),
]


def canonical(uid=""):
    sig = "n: size, x: R[n + 2], y: R[n + 2], x2: R[2, n + 2], y2: R[2, n + 2], v: R[2 * n + 2]"
    for k, (verdict, name, body) in enumerate(CANONICAL):
        main = "can%s_%d" % (uid, k)
        yield verdict, name, HEADER + "\n@proc\ndef %s(%s):\n    %s\n" % (main, sig, body), main


# ============================================================================ chains of windows before a par loop
# x : R[2 * n + 4].  A chain of 2 or 3 WindowStmts placed BEFORE the parallel loop (same block or an enclosing
# block) ends in a window w with  w[i] == x[i + off];  the loop body touches the same cells through w and through
# the root x (or an intermediate window, or the end of a second chain).  off = 1 makes iterations i and i+1 collide;
# the controls use the same cell (off matched) or disjoint halves (off = n + 2).
WIN_CHAINS = [
    # (name, statements, innermost window, total offset (string), intermediate (name, offset) or None)
    ("d2a", ["a = x[1:n + 2]", "b = a[0:n]"], "b", "1", ("a", "1")),
    ("d2b", ["a = x[0:n + 2]", "b = a[1:n + 1]"], "b", "1", ("a", "0")),
    ("d3a", ["a = x[0:n + 3]", "b = a[1:n + 2]", "c = b[0:n]"], "c", "1", ("b", "1")),
    ("d3b", ["a = x[1:n + 3]", "b = a[0:n + 1]", "c = b[0:n]"], "c", "1", ("a", "1")),
    ("d3c", ["a = x[0:n + 3]", "b = a[1:n + 3]", "c = b[1:n + 1]"], "c", "2", ("b", "1")),
    ("half2", ["a = x[n + 2:2 * n + 4]", "b = a[0:n]"], "b", "n + 2", ("a", "n + 2")),
    ("half3", ["a = x[2:2 * n + 4]", "b = a[n:2 * n + 2]", "c = b[0:n]"], "c", "n + 2", ("b", "n + 2")),
]


def _root(v, off, shift=0):
    """x index of w[v] shifted by `shift` (as source text)"""
    try:
        k = int(off) + shift
        return v if k == 0 else "%s + %d" % (v, k)
    except ValueError:
        return "%s + %s" % (v, off) if shift == 0 else "%s + %s + %d" % (v, off, shift)


def winchain_bodies(w, off, inter, v="i"):
    """(tag, race_free, statements): accesses through the innermost window w (w[v] is x[v+off]) and through the
    root / an intermediate window"""
    same = "x[%s]" % _root(v, off)            # the very cell w[v]
    prev = "x[%s]" % _root(v, off, -1)        # the cell of iteration v-1
    nxt = "x[%s]" % _root(v, off, 1)          # the cell of iteration v+1
    out = [
        ("Winner-Rroot", False, ["%s[%s] = %s + 1.0" % (w, v, prev)]),
        ("Rinner-Wroot", False, ["%s = %s[%s]" % (prev, w, v)]),
        ("Pinner-Rroot", False, ["%s[%s] += 1.0" % (w, v), "y[%s] = %s" % (v, prev)]),
        ("Rinner-Proot", False, ["%s += 1.0" % prev, "y[%s] = %s[%s]" % (v, w, v)]),
        ("Winner-Wroot", False, ["%s[%s] = 1.0" % (w, v), "%s = 2.0" % nxt]),
        ("Pinner-Proot", False, ["%s[%s] += 1.0" % (w, v), "%s += 2.0" % nxt]),
        ("same-cell", True, ["%s[%s] = %s + 1.0" % (w, v, same)]),
        ("same-cell-reduce", True, ["%s += %s[%s]" % (same, w, v)]),
    ]
    if inter is not None:
        iw, ioff = inter
        try:
            d = int(off) - int(ioff)         # w[v] == iw[v + d]
            cell_prev = "%s[%s]" % (iw, v if d - 1 == 0 else "%s + %d" % (v, d - 1))
            if d - 1 >= 0:
                out.append(("Winner-Rinter", False, ["%s[%s] = %s + 1.0" % (w, v, cell_prev)]))
        except ValueError:
            pass
    return out


def winchains(uid=""):
    """yields (tag, race_free_by_construction, source, main)"""
    sig = "n: size, x: R[2 * n + 4], y: R[n + 2]"
    k = 0
    for (cname, wins, w, off, inter) in WIN_CHAINS:
        halves = cname.startswith("half")
        for (btag, rf, body) in winchain_bodies(w, off, inter):
            if halves:
                # disjoint halves: w lives in x[n+2 ..), the root accesses stay in x[0 .. n+1]: race-free
                if btag.startswith("same") or btag == "Winner-Rinter":
                    continue
                body = [l.replace("x[i + %s + -1]" % off, "x[i]").replace("x[i + %s + 1]" % off, "x[i + 1]") for l in body]
                assert not any(off in l for l in body), body
                rf = True
            for pos in ("top", "inseq", "inif", "winouter", "sched"):
                k += 1
                main = "wch%s_%d" % (uid, k)
                ind = "    "
                lines = []
                sched = ""
                if pos == "top":
                    lines = wins + ["for i in par(0, n):"] + [ind + l for l in body]
                elif pos == "inseq":      # windows in the enclosing block, loop inside a seq loop
                    lines = wins + ["for j in seq(0, 2):", ind + "for i in par(0, n):"] + [ind * 2 + l for l in body]
                elif pos == "inif":       # first window outside, the rest inside the if, before the loop
                    lines = wins[:1] + ["if n > 1:"] + [ind + l for l in wins[1:]] + [ind + "for i in par(0, n):"] \
                        + [ind * 2 + l for l in body]
                elif pos == "winouter":   # all windows outside, loop in the else branch
                    lines = wins + ["if n > 6:", ind + "pass", "else:", ind + "for i in par(0, n):"] \
                        + [ind * 2 + l for l in body]
                else:                     # written seq, made parallel by parallelize_loop
                    lines = wins + ["for ip in seq(0, n):"] + [ind + l for l in _rename(body, "i", "ip")]
                    sched = "%s = parallelize_loop(%s, %s.find_loop('ip'))\n" % (main, main, main)
                src = HEADER + "\n@proc\ndef %s(%s):\n%s\n\n%s" % (main, sig, "\n".join(ind + l for l in lines), sched)
                yield ("%s:%s:%s" % (cname, btag, pos), rf, src, main)
    # two different chains ending in windows one cell apart
    for pos_par in ("par", "sched"):
        k += 1
        main = "wch%s_%d" % (uid, k)
        lv = "i" if pos_par == "par" else "ip"
        mode = "par" if pos_par == "par" else "seq"
        lines = ["a = x[1:n + 2]", "b = a[0:n]", "c = x[0:n + 2]", "d = c[0:n]",
                 "for %s in %s(0, n):" % (lv, mode), "    b[%s] = d[%s] + 1.0" % (lv, lv)]
        sched = "" if pos_par == "par" else "%s = parallelize_loop(%s, %s.find_loop('ip'))\n" % (main, main, main)
        src = HEADER + "\n@proc\ndef %s(%s):\n%s\n\n%s" % (main, sig, "\n".join("    " + l for l in lines), sched)
        yield ("twochains:Winner-Rinner:%s" % pos_par, False, src, main)


# ============================================================================ random modules
class ParGen:
    def __init__(self, rng: random.Random, uid: str = ""):
        self.rng = rng
        self.uid = uid
        self.cfg = None
        self.fresh = 0
        self.fixed = None       # per-nest index maps under `discipline`
        self.fixed_names = set()
        self.subs = []          # (name, kind)
        self.sched = []         # loop variable names to parallelize after definition

    def name(self, b):
        self.fresh += 1
        return "%s%d" % (b, self.fresh)

    # ---------------------------------------------------------------- index expressions over loop var v in [lo, n)
    def index1(self, v, ext):
        """index into a 1-d buffer of extent ext in {"n+2", "2n+2", 8}; v ranges within [0, n) (or [0,4) for 8)"""
        r = self.rng
        if ext == "n":
            return r.choice([v, v, "n - 1 - %s" % v, "0"])
        if ext == "n+2":
            return r.choice([v, v, v, "%s + 1" % v, "%s + 2" % v, "n - 1 - %s" % v, "n - %s" % v, "n + 1 - %s" % v,
                             "0", "1", "n", "n + 1", "%s / 2" % v, "(%s + 1) / 2" % v, "%s %% 2" % v])
        if ext == "2n+2":
            return r.choice(["2 * %s" % v, "2 * %s + 1" % v, "2 * %s + 2" % v, v, "%s + n" % v, "2 * %s" % v,
                             "2 * n - 2 * %s" % v, "0", "n"])
        return r.choice([v, "%s + 1" % v, "%s + 4" % v, "7 - %s" % v, "2 * %s" % v, "2 * %s + 1" % v, "0", "3",
                         "%s / 2" % v, "%s %% 2" % v])

    INJECTIVE = {"n": ["{v}", "n - 1 - {v}"],
                 "n+2": ["{v}", "{v} + 1", "{v} + 2", "n - 1 - {v}", "n - {v}", "n + 1 - {v}"],
                 "2n+2": ["2 * {v}", "2 * {v} + 1", "2 * {v} + 2", "{v}", "{v} + n"],
                 8: ["{v}", "{v} + 1", "{v} + 4", "7 - {v}", "2 * {v}", "2 * {v} + 1"]}

    def access(self, b, vs):
        """b = (name, [extents]); vs = loop variables in scope, innermost first.
        Under `discipline` every access of one nest to a buffer the nest may write uses ONE index map that is
        injective in the par variables (race-free by construction); other buffers are indexed freely."""
        nm, exts = b
        if self.fixed is not None and nm in self.fixed_names:
            if nm not in self.fixed:
                self.fixed[nm] = self.access_injective(b, vs)
            return self.fixed[nm]
        return self.access_free(b, vs)

    def access_injective(self, b, vs):
        nm, exts = b
        if not exts:
            return nm   # a scalar: racy if written in a par loop (kept out of the write set under discipline)
        idx = []
        for e in exts:
            if e == "2":
                outer = [v for v in vs if v[1] == "2"]
                idx.append(outer[0][0] if outer else self.rng.choice(["0", "1"]))
            else:
                cands = [v for v in vs if v[1] == ("4" if e == 8 else "n")]
                if cands:
                    idx.append(self.rng.choice(self.INJECTIVE[e]).format(v=cands[0][0]))
                else:
                    idx.append("0")
        return "%s[%s]" % (nm, ", ".join(idx))

    def access_free(self, b, vs):
        nm, exts = b
        if not exts:
            return nm
        idx = []
        for e in exts:
            if e == "2":
                outer = [v for v in vs if v[1] == "2"]
                idx.append(self.rng.choice([outer[0][0]] * 3 + ["0", "1"]) if outer else self.rng.choice(["0", "1"]))
            else:
                cands = [v for v in vs if v[1] == ("4" if e == 8 else "n")]
                if cands and self.rng.random() < 0.9:
                    idx.append(self.index1(self.rng.choice(cands[:2])[0], e))
                else:
                    idx.append(self.rng.choice(["0", "1"]))
        return "%s[%s]" % (nm, ", ".join(idx))

    def rhs(self, bufs, vs, depth=1):
        r = self.rng
        k = r.random()
        if k < 0.25:
            return "%d.0" % r.randint(0, 3)
        if k < 0.75 or depth == 0:
            return self.access(r.choice(bufs), vs)
        return "%s %s %s" % (self.rhs(bufs, vs, depth - 1), r.choice(["+", "*"]), self.rhs(bufs, vs, depth - 1))

    def stmts(self, bufs, wbufs, vs, ind, budget, ctx):
        r = self.rng
        out = []
        bufs = list(bufs)
        wbufs = list(wbufs)
        for _ in range(r.randint(1, 3)):
            if budget[0] <= 0:
                break
            budget[0] -= 1
            k = r.random()
            if k < 0.42:
                out.append("%s%s = %s" % (ind, self.access(r.choice(wbufs), vs), self.rhs(bufs, vs)))
            elif k < 0.64:
                out.append("%s%s += %s" % (ind, self.access(r.choice(wbufs), vs), self.rhs(bufs, vs)))
            elif k < 0.74:
                t = self.name("t")
                out.append("%s%s: R" % (ind, t))
                out.append("%s%s = %s" % (ind, t, self.rhs(bufs, vs)))
                bufs.append((t, []))
                wbufs.append((t, []))
            elif k < 0.86 and vs:
                v = r.choice(vs)[0]
                c = r.choice(["%s == 0" % v, "%s < 2" % v, "%s > 0" % v, "%s == 1" % v] +
                             (["bb"] if ctx["bool"] else []) +
                             (["%s.a == %d" % (self.cfg, r.randint(0, 2)), "%s.flag" % self.cfg] if self.cfg else []))
                out.append("%sif %s:" % (ind, c))
                body = self.stmts(bufs, wbufs, vs, ind + "    ", budget, ctx)
                out += body or [ind + "    pass"]
                if r.random() < 0.3:
                    out.append(ind + "else:")
                    body = self.stmts(bufs, wbufs, vs, ind + "    ", budget, ctx)
                    out += body or [ind + "    pass"]
            elif k < 0.92 and self.cfg and not ctx.get("discipline"):
                if r.random() < 0.6:
                    out.append("%s%s.a = %d" % (ind, self.cfg, r.randint(0, 2)))
                else:
                    out.append("%s%s.flag = %s" % (ind, self.cfg, r.choice(["True", "False"])))
            elif ctx["subs"] and not ctx["insub"] and (not ctx.get("discipline") or r.random() < 0.3):
                s = r.choice(ctx["subs"])
                args = self.call_args(s, wbufs, vs)
                if args:
                    out.append("%s%s(%s)" % (ind, s["name"], args))
            else:
                out.append("%s%s = %s" % (ind, self.access(r.choice(wbufs), vs), self.rhs(bufs, vs)))
        return out

    def call_args(self, s, wbufs, vs):
        r = self.rng
        names = {b[0]: b for b in wbufs}
        if s["kind"] == "vec":   # (n, dst: [R][n+2], aux: [R][n+2])
            c = [b for b in ("x", "y", "u") if b in names]
            if len(c) < 2:
                return None
            a, b = r.sample(c, 2)
            return "n, %s, %s" % (a, b)
        if s["kind"] == "row":   # (n, dst: [R][n+2]) applied to a row of a 2-d buffer or to a vector
            c = [b for b in ("x", "y") if b in names]
            outer = [v for v in vs if v[1] == "2"]
            if "x2" in names and r.random() < 0.6:
                row = outer[0][0] if outer and r.random() < 0.8 else r.choice(["0", "1"])
                return "n, %s[%s, 0:n + 2]" % (r.choice(["x2", "y2"]), row)
            return "n, %s" % r.choice(c) if c else None
        if s["kind"] == "cell":  # (n, s: R, src: [R][n+2]); scalar actuals must be plain variable names
            sc = [b[0] for b in wbufs if not b[1]]
            src = [b for b in ("x", "y", "u") if b in names]
            if not sc or not src:
                return None
            return "n, %s, %s" % (r.choice(sc), r.choice(src))
        return None

    # ---------------------------------------------------------------- loop nests
    def nest(self, bufs, wbufs, ind, ctx, allow_sched=True):
        r = self.rng
        pos = r.choice(["top", "top", "inseq", "inif", "inelse", "inpar", "deep", "seqpar", "sched", "schednest",
                        "const", "tri"])
        if ctx["insub"] and pos in ("sched", "schednest"):
            pos = "top"
        if not allow_sched and pos in ("sched", "schednest"):
            pos = "inseq"
        lines = []
        vs = []
        budget = [r.randint(2, 5)]
        if r.random() < 0.6:
            self.fixed = {}
            wbufs = [b for b in wbufs if b[1]] or [b for b in bufs if b[1]][:1]
            self.fixed_names = {b[0] for b in wbufs}
            if "wx" in self.fixed_names or "x" in self.fixed_names:   # wx aliases x: keep one of them writable
                self.fixed_names |= {"x", "wx"}
            ctx = dict(ctx, discipline=True)
        else:
            self.fixed = None
            ctx = dict(ctx, discipline=False)

        def loop(var, mode, lo, hi, ind):
            return "%sfor %s in %s(%s, %s):" % (ind, var, mode, lo, hi)

        iv = self.name("i")
        lo = r.choice(["0", "0", "0", "1"])
        if pos == "const":
            lines.append(loop(iv, "par", "0", "4", ind))
            vs = [(iv, "4")]
            body = self.stmts(bufs, wbufs, vs, ind + "    ", budget, ctx)
            return lines + (body or [ind + "    pass"])
        if pos == "top":
            lines.append(loop(iv, "par", lo, "n", ind))
            cur = ind + "    "
            vs = [(iv, "n")]
        elif pos == "inseq":
            jv = self.name("j")
            lines.append(loop(jv, "seq", "0", "2", ind))
            lines.append(loop(iv, "par", lo, "n", ind + "    "))
            cur = ind + "        "
            vs = [(iv, "n"), (jv, "2")]
        elif pos == "seqpar":   # par loop around a seq loop around statements
            jv = self.name("j")
            lines.append(loop(iv, "par", lo, "n", ind))
            lines.append(loop(jv, "seq", "0", "2", ind + "    "))
            cur = ind + "        "
            vs = [(jv, "2"), (iv, "n")]
        elif pos == "inif":
            c = r.choice(["n > 1", "n > 2"] + (["bb"] if ctx["bool"] else []) +
                         (["%s.a == 1" % self.cfg, "%s.flag" % self.cfg] if self.cfg else []))
            lines.append("%sif %s:" % (ind, c))
            lines.append(loop(iv, "par", lo, "n", ind + "    "))
            cur = ind + "        "
            vs = [(iv, "n")]
        elif pos == "inelse":
            c = r.choice(["n > 6", "n == 1"] + (["bb"] if ctx["bool"] else []))
            lines.append("%sif %s:" % (ind, c))
            lines.append("%s    pass" % ind)
            lines.append("%selse:" % ind)
            lines.append(loop(iv, "par", lo, "n", ind + "    "))
            cur = ind + "        "
            vs = [(iv, "n")]
        elif pos == "inpar":
            jv = self.name("j")
            lines.append(loop(jv, "par", "0", "2", ind))
            lines.append(loop(iv, r.choice(["par", "par", "seq"]), lo, "n", ind + "    "))
            cur = ind + "        "
            vs = [(iv, "n"), (jv, "2")]
        elif pos == "tri":      # triangular nest: the inner bounds depend on the outer par variable
            jv = self.name("j")
            lines.append(loop(jv, "par", "0", "n", ind))
            lo2, hi2 = r.choice([("0", jv), (jv, "n"), ("0", "%s + 1" % jv)])
            lines.append(loop(iv, r.choice(["seq", "par"]), lo2, hi2, ind + "    "))
            cur = ind + "        "
            vs = [(iv, "n"), (jv, "n")]
        elif pos == "deep":
            jv = self.name("j")
            lines.append(loop(jv, "seq", "0", "2", ind))
            lines.append("%s    if %s == 0:" % (ind, jv))
            lines.append(loop(iv, "par", lo, "n", ind + "        "))
            cur = ind + "            "
            vs = [(iv, "n"), (jv, "2")]
        elif pos == "sched":
            lines.append(loop(iv, "seq", lo, "n", ind))
            cur = ind + "    "
            vs = [(iv, "n")]
            self.sched.append(iv)
        else:  # schednest
            jv = self.name("j")
            lines.append(loop(jv, "seq", "0", "2", ind))
            lines.append(loop(iv, "seq", lo, "n", ind + "    "))
            cur = ind + "        "
            vs = [(iv, "n"), (jv, "2")]
            self.sched.append(iv)
        body = self.stmts(bufs, wbufs, vs, cur, budget, ctx)
        return lines + (body or [cur + "pass"])

    def call_nest(self, bufs):
        """a call of a sub-procedure from the main procedure: plain, inside a seq loop, inside an if/else, or
        (row-wise) inside a par loop"""
        r = self.rng
        s = r.choice(self.subs)
        self.fixed = None
        where = r.choice(["plain", "plain", "seq", "if", "else", "par"])
        jv = self.name("j")
        vs = [(jv, "2")] if where in ("seq", "par") else []
        args = self.call_args(s, bufs, vs)
        if not args:
            return []
        call = "%s(%s)" % (s["name"], args)
        if where == "plain":
            return ["    " + call]
        if where == "seq":
            return ["    for %s in seq(0, 2):" % jv, "        " + call]
        if where == "par":
            return ["    for %s in par(0, 2):" % jv, "        " + call]
        if where == "if":
            return ["    if n > 1:", "        " + call]
        return ["    if n > 6:", "        pass", "    else:", "        " + call]

    # ---------------------------------------------------------------- procedures
    def subproc(self):
        r = self.rng
        kind = r.choice(["vec", "vec", "row", "cell"])
        nm = self.name("sub" + self.uid + "_")
        ctx = {"bool": False, "subs": [], "insub": True}
        if kind == "vec":
            sig = "n: size, dst: [R][n + 2], aux: [R][n + 2]"
            bufs = [("dst", ["n+2"]), ("aux", ["n+2"])]
            wb = [("dst", ["n+2"])] + ([("aux", ["n+2"])] if r.random() < 0.4 else [])
        elif kind == "row":
            sig = "n: size, dst: [R][n + 2]"
            bufs = [("dst", ["n+2"])]
            wb = list(bufs)
        else:
            sig = "n: size, s: R, src: [R][n + 2]"
            bufs = [("s", []), ("src", ["n+2"])]
            wb = [("s", [])]
        if kind == "cell" and r.random() < 0.5:
            body = ["    s = src[0] + 1.0"] if r.random() < 0.5 else ["    s += src[1]"]
        else:
            body = self.nest(bufs, wb, "    ", ctx, allow_sched=False)
        src = "@proc\ndef %s(%s):\n%s\n" % (nm, sig, "\n".join(body))
        self.subs.append({"name": nm, "kind": kind})
        return src

    def module(self, name="foo"):
        r = self.rng
        parts = [HEADER]
        if r.random() < 0.3:
            self.cfg = "Cfg" + self.uid
            parts.append("@config\nclass %s:\n    a: index\n    flag: bool\n" % self.cfg)
        for _ in range(r.choice([0, 1, 1, 2])):
            parts.append(self.subproc())
        has_bool = r.random() < 0.3
        sig = ["n: size"] + (["bb: bool"] if has_bool else [])
        bufs = [("x", ["n+2"]), ("y", ["n+2"]), ("u", ["n+2"]), ("v", ["2n+2"]), ("z", [8]), ("x2", ["2", "n+2"]),
                ("y2", ["2", "n+2"]), ("sc", [])]
        sig += ["x: R[n + 2]", "y: R[n + 2]", "u: R[n + 2]", "v: R[2 * n + 2]", "z: R[8]", "x2: R[2, n + 2]",
                "y2: R[2, n + 2]", "sc: R"]
        pre = []
        if r.random() < 0.3:
            pre += ["    assert n >= 2"]
        body = []
        # shared allocation and window alias declared before the nests
        if r.random() < 0.25:
            body += ["    tmp: R[n + 2]", "    for q in seq(0, n + 2):", "        tmp[q] = 0.0"]
            bufs.append(("tmp", ["n+2"]))
        if r.random() < 0.25:
            body += ["    wx = x[1:n + 1]"]          # wx[i] aliases x[i + 1]; extent n
            bufs.append(("wx", ["n"]))
        ctx = {"bool": has_bool, "subs": list(self.subs), "insub": False}
        for _ in range(r.randint(1, 3)):
            if self.subs and r.random() < 0.45:
                body += self.call_nest(bufs)
                continue
            sel = r.sample(bufs, min(len(bufs), r.randint(2, 4)))
            wsel = [b for b in sel if r.random() < 0.7] or [sel[0]]
            # extents "n" (window of size n): index with the plain loop variable only
            body += self.nest([b if b[1] != ["n"] else b for b in sel], wsel, "    ", ctx)
        src = "@proc\ndef %s(%s):\n%s%s\n" % (name, ", ".join(sig), "".join(p + "\n" for p in pre), "\n".join(body))
        parts.append(src)
        for iv in self.sched:
            parts.append("%s = parallelize_loop(%s, %s.find_loop('%s'))" % (name, name, name, iv))
        return "\n".join(parts) + "\n"
