"""LoopIR -> s-expression skeleton read by the extracted C15 model (coq/Annot/driver.ml).

What is exported is exactly what the three backend analyses and the const/window-struct decisions consult:
declared precision / memory / shape of arguments and allocations, numeric expression trees (reads, constants with
their recorded type, unary minus, binary operators, externs, numeric config reads), window statements with the
RECORDED `src_buf` of their type, and calls with, per actual, the syntactic form (name read with the RECORDED
window flag of the read's type | window expression | control value).  Control expressions (indices, sizes, bools,
strides) carry no information for C15 and are dropped.  Procedures are numbered callees-first; `order` is the order in
which compile_to_strings analyses them (sorted by name)."""
from __future__ import annotations

from exo.core.LoopIR import LoopIR, T
from exo.core.memory import DRAM
from exo.backend.LoopIR_compiler import find_all_subprocs

import c15_mems

PREC = {T.Num: "R", T.F16: "f16", T.F32: "f32", T.F64: "f64", T.INT8: "i8", T.UINT8: "ui8", T.UINT16: "ui16",
        T.INT32: "i32"}


class Unsupported(Exception):
    pass


def prec_of(t):
    n = PREC.get(type(t))
    if n is None:
        raise Unsupported("precision %r" % (t,))
    return n


class Exporter:
    def __init__(self):
        self.syms = {}
        self.mems = []
        self.feat = set()

    def sym(self, s):
        if s not in self.syms:
            self.syms[s] = len(self.syms)
        return str(self.syms[s])

    def mem(self, m):
        if m is None:
            m = DRAM
        if m not in self.mems:
            self.mems.append(m)
        self.feat.add("mem=" + m.name())
        return str(self.mems.index(m))

    def shape(self, t):
        if t.is_real_scalar():
            return "s"
        n = len(t.shape())
        if isinstance(t, T.Tensor):
            return "(w %d)" % n if t.is_window else "(d %d)" % n
        raise Unsupported("argument type %r" % (t,))

    def e(self, x):
        if isinstance(x, LoopIR.Const):
            return "(const %s)" % prec_of(x.type)
        if isinstance(x, LoopIR.Read):
            return "(read %s)" % self.sym(x.name)
        if isinstance(x, LoopIR.USub):
            return "(usub %s)" % self.e(x.arg)
        if isinstance(x, LoopIR.BinOp):
            return "(bin %s %s)" % (self.e(x.lhs), self.e(x.rhs))
        if isinstance(x, LoopIR.Extern):
            self.feat.add("extern")
            return "(ext %s)" % " ".join(self.e(a) for a in x.args)
        if isinstance(x, LoopIR.ReadConfig):
            self.feat.add("rcfg")
            return "(rcfg %s)" % prec_of(x.type)
        raise Unsupported("numeric expression %s" % type(x).__name__)

    def stmts(self, ss, procidx):
        return "(" + " ".join(self.s(s, procidx) for s in ss) + ")"

    def s(self, s, procidx):
        if isinstance(s, LoopIR.Pass):
            return "(pass)"
        if isinstance(s, (LoopIR.Assign, LoopIR.Reduce)):
            return "(%s %s %s)" % ("assign" if isinstance(s, LoopIR.Assign) else "reduce", self.sym(s.name), self.e(s.rhs))
        if isinstance(s, LoopIR.WriteConfig):
            lt = s.config.lookup_type(s.field)
            if lt.is_real_scalar():
                self.feat.add("wcfg")
                return "(wcfg %s %s)" % (prec_of(lt), self.e(s.rhs))
            return "(pass)"
        if isinstance(s, LoopIR.If):
            return "(if %s %s)" % (self.stmts(s.body, procidx), self.stmts(s.orelse, procidx))
        if isinstance(s, LoopIR.For):
            return "(for %s)" % self.stmts(s.body, procidx)
        if isinstance(s, LoopIR.Alloc):
            self.feat.add("prec=" + prec_of(s.type.basetype()))
            return "(alloc %s %s %s %d)" % (self.sym(s.name), prec_of(s.type.basetype()), self.mem(s.mem), len(s.type.shape()))
        if isinstance(s, LoopIR.WindowStmt):
            if not isinstance(s.rhs, LoopIR.WindowExpr):
                raise Unsupported("window statement rhs")
            t = s.rhs.type
            self.feat.add("winstmt")
            return "(win %s %s %d %s)" % (self.sym(s.name), self.sym(s.rhs.name), len(t.shape()), self.sym(t.src_buf))
        if isinstance(s, LoopIR.Call):
            if s.f.instr is not None:
                raise Unsupported("instr call")
            args = []
            for a in s.args:
                if isinstance(a, LoopIR.WindowExpr):
                    args.append("(wn %s %d)" % (self.sym(a.name), len(a.type.shape())))
                elif isinstance(a, LoopIR.Read) and a.type.is_numeric():
                    if a.idx:
                        raise Unsupported("indexed read as call argument")
                    args.append("(rd %s %d %d)" % (self.sym(a.name), 1 if a.type.is_win() else 0, len(a.type.shape())))
                elif a.type.is_numeric():
                    raise Unsupported("numeric call argument %s" % type(a).__name__)
                else:
                    args.append("(ctl)")
            return "(call %d (%s))" % (procidx[id(s.f)], " ".join(args))
        raise Unsupported("statement %s" % type(s).__name__)

    def proc(self, p, procidx):
        args = []
        for a in p.args:
            if a.type.is_numeric():
                self.feat.add("prec=" + prec_of(a.type.basetype()))
                if a.type.is_win():
                    self.feat.add("winarg")
                args.append("(num %s %s %s %s)" % (self.sym(a.name), prec_of(a.type.basetype()), self.mem(a.mem), self.shape(a.type)))
            else:
                args.append("(ctrl %s)" % self.sym(a.name))
        return "(proc (%s) %s)" % (" ".join(args), self.stmts(p.body, procidx))


def callees(p):
    out = []

    def walk(ss):
        for s in ss:
            if isinstance(s, LoopIR.Call):
                out.append(s.f)
            elif isinstance(s, LoopIR.If):
                walk(s.body)
                walk(s.orelse)
            elif isinstance(s, LoopIR.For):
                walk(s.body)

    walk(p.body)
    return out


def export_case(cid: str, top_procs):
    """top_procs: list of LoopIR.proc.  Returns (sexp_line, info) or raises Unsupported."""
    allp = list(sorted(find_all_subprocs(list(top_procs)), key=lambda x: x.name))  # compile order
    if any(p.instr is not None for p in allp):
        raise Unsupported("instr procedure")
    topo, seen = [], set()

    def visit(p):
        if id(p) in seen:
            return
        seen.add(id(p))
        for q in callees(p):
            visit(q)
        topo.append(p)

    for p in allp:
        visit(p)
    procidx = {id(p): i for i, p in enumerate(topo)}
    ex = Exporter()
    procs = [ex.proc(p, procidx) for p in topo]
    order = [procidx[id(p)] for p in allp]
    d = c15_mems.describe(ex.mems)
    sub = "(" + " ".join("(" + " ".join("1" if b else "0" for b in row) + ")" for row in d["sub"]) + ")"
    caps = "(" + " ".join("(%d %d %d)" % tuple(int(x) for x in c) for c in d["caps"]) + ")"
    line = "(case %s (mems %s %s) (order (%s)) (procs (%s)))" % (cid, sub, caps, " ".join(map(str, order)), " ".join(procs))
    info = {"mems": d["names"], "procs": [p.name for p in topo], "order": [p.name for p in allp],
            "features": sorted(ex.feat), "nprocs": len(topo)}
    return line, info
