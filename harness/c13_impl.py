#!/venv/bin/python
"""C13 implementation driver: runs the REAL exo range analysis on a JSON list of cases.

    c13_impl.py CASES.json OUT.json        (PYTHONPATH=<EXO_REPO>/src, see common.exo_env)

Every result is canonicalised to the s-expression syntax the OCaml model driver prints
(coq/Range/extract/driver.ml):  (int n) | (range BASE lo hi) | errv | (err ExceptionClass) | (lo hi) | true/false.
Symbols are exchanged as (name-index, id) pairs; one exo `Sym` object is created per distinct pair and per case.
"""
import json
import sys
from collections import ChainMap

from exo.core.LoopIR import LoopIR, T
from exo.core.prelude import Sym, SrcInfo
from exo.core.memory import DRAM
from exo.rewrite import range_analysis as RA

SI = SrcInfo("c13", 1)
OPS = {"add": "+", "sub": "-", "mul": "*", "div": "/", "mod": "%"}
ROPS = {v: k for k, v in OPS.items()}
CMP = {"lt": RA.IndexRangeEnvironment.lt, "leq": RA.IndexRangeEnvironment.leq, "eq": RA.IndexRangeEnvironment.eq}


class Syms:
    def __init__(self):
        self.fwd = {}
        self.bwd = {}

    def get(self, n, i):
        k = (n, i)
        if k not in self.fwd:
            s = Sym("v%d" % n)
            self.fwd[k] = s
            self.bwd[id(s)] = k
        return self.fwd[k]

    def key(self, s):
        return self.bwd[id(s)]


def mk_expr(j, sy, typ=None):
    tag = j[0]
    if tag == "v":
        return LoopIR.Read(sy.get(j[1], j[2]), [], T.index, SI)
    if tag == "c":
        return LoopIR.Const(j[1], T.int, SI)
    if tag == "neg":
        return LoopIR.USub(mk_expr(j[1], sy), T.index, SI)
    if tag == "b":
        return LoopIR.BinOp(OPS[j[1]], mk_expr(j[2], sy), mk_expr(j[3], sy), T.index, SI)
    raise ValueError(j)


def sx_expr(e, sy):
    if isinstance(e, LoopIR.Read):
        n, i = sy.key(e.name)
        return "(v %d %d)" % (n, i)
    if isinstance(e, LoopIR.Const):
        return "(c %d)" % e.val
    if isinstance(e, LoopIR.USub):
        return "(neg %s)" % sx_expr(e.arg, sy)
    if isinstance(e, LoopIR.BinOp):
        return "(b %s %s %s)" % (ROPS[e.op], sx_expr(e.lhs, sy), sx_expr(e.rhs, sy))
    return "(unknown-node %s)" % type(e).__name__


def sx_opt(x):
    return "N" if x is None else "%d" % x


def sx_val(v, sy):
    if isinstance(v, bool):
        return "true" if v else "false"
    if isinstance(v, int):
        return "(int %d)" % v
    if isinstance(v, RA.IndexRange):
        return "(range %s %s %s)" % (sx_expr(v.base, sy), sx_opt(v.lo), sx_opt(v.hi))
    if isinstance(v, ValueError):
        return "errv"
    if v is None:
        return "none"
    if isinstance(v, tuple) and len(v) == 2:
        return "(%s %s)" % (sx_opt(v[0]), sx_opt(v[1]))
    return "(unknown-value %s)" % type(v).__name__


def guarded(f, sy):
    try:
        return sx_val(f(), sy)
    except Exception as e:  # noqa: BLE001 - the exception class IS the observation
        return "(err %s)" % type(e).__name__


def mk_env(scopes, sy, as_dict=False):
    maps = [{sy.get(n, i): (lo, hi) for (n, i, lo, hi) in reversed(sc)} for sc in scopes]
    if as_dict:
        d = {}
        for m in reversed(maps):
            d.update(m)
        return d
    return ChainMap(*maps) if maps else ChainMap()


def mk_arg(a, sy):
    return a[1] if a[0] == "int" else mk_expr(a[1], sy)


def mk_rv(v, sy):
    if v == "errv":
        return ValueError("Cannot divide by 0.")
    if v[0] == "int":
        return v[1]
    return RA.IndexRange(mk_expr(v[1], sy), v[2], v[3])


def empty_proc(size_syms):
    args = [LoopIR.fnarg(s, T.size, None, SI) for s in size_syms]
    return LoopIR.proc("c13p", args, [], [LoopIR.Pass(SI)], None, SI)


def range_env(scopes, sy):
    env = RA.IndexRangeEnvironment(empty_proc([]))
    env.env = mk_env(scopes, sy)
    return env


def extract_tree(stmts, names, sy_ids):
    """independent walker: LoopIR statements -> JSON tree of for-loops and accesses to any buffer"""
    out = []

    def symkey(s):
        nm = s.name()
        if nm not in names:
            names.append(nm)
        return [names.index(nm), s._id]

    def ex(e):
        if isinstance(e, LoopIR.Read):
            return ["v"] + symkey(e.name)
        if isinstance(e, LoopIR.Const):
            return ["c", e.val]
        if isinstance(e, LoopIR.USub):
            return ["neg", ex(e.arg)]
        if isinstance(e, LoopIR.BinOp):
            return ["b", ROPS[e.op], ex(e.lhs), ex(e.rhs)]
        raise ValueError("unsupported node %s" % type(e).__name__)

    for s in stmts:
        if isinstance(s, LoopIR.For):
            out.append(["for"] + symkey(s.iter) + [ex(s.lo), ex(s.hi), extract_tree(s.body, names, sy_ids)])
        elif isinstance(s, (LoopIR.Assign, LoopIR.Reduce)):
            out.append(["acc", str(s.name), [ex(i) for i in s.idx]])
        elif isinstance(s, LoopIR.If):
            out.append(["if", extract_tree(s.body, names, sy_ids), extract_tree(s.orelse, names, sy_ids)])
        elif isinstance(s, (LoopIR.Pass, LoopIR.Alloc)):
            pass
        else:
            raise ValueError("unsupported stmt %s" % type(s).__name__)
    return out


def run_user(c):
    """infer_range / bounds_inference on a Procedure (built from source text through the real front end, or
    from a LoopIR tree wrapped in API.Procedure)."""
    from exo.API import Procedure
    from exo.stdlib.range_analysis import infer_range, bounds_inference
    res = {"kind": "user"}
    sy = Syms()
    try:
        if c["mode"] == "src":
            glb = {}
            import importlib.util
            import os
            import tempfile
            d = tempfile.mkdtemp(prefix="c13src")
            path = os.path.join(d, "c13_user_case.py")
            with open(path, "w") as f:
                f.write(c["src"])
            spec = importlib.util.spec_from_file_location("c13_user_case", path)
            mod = importlib.util.module_from_spec(spec)
            spec.loader.exec_module(mod)
            proc = getattr(mod, "p")
        else:
            def build(nodes):
                out = []
                for nd in nodes:
                    if nd[0] == "for":
                        out.append(LoopIR.For(sy.get(nd[1], nd[2]), mk_expr(nd[3], sy), mk_expr(nd[4], sy),
                                              build(nd[5]), LoopIR.Seq(), SI))
                    else:
                        out.append(LoopIR.Assign(xs, T.R, [mk_expr(nd[2][0], sy)], LoopIR.Const(0.0, T.R, SI), SI))
                return out or [LoopIR.Pass(SI)]
            xs = Sym("x")
            args = [LoopIR.fnarg(sy.get(n, i), T.size, None, SI) for n, i in c["sizes"]]
            args.append(LoopIR.fnarg(xs, T.Tensor([LoopIR.Const(1000, T.int, SI)], False, T.R), DRAM, SI))
            proc = Procedure(LoopIR.proc("p", args, [], build(c["tree"]), None, SI))
    except Exception as e:  # noqa: BLE001
        res["rejected"] = "%s: %s" % (type(e).__name__, str(e)[:200])
        return res
    ir = proc._loopir_proc
    names = []
    tree = extract_tree(ir.body, names, None)
    res["tree"] = tree
    res["names"] = names
    res["sizes"] = [[names.index(a.name.name()) if a.name.name() in names else -1, a.name._id]
                    for a in ir.args if isinstance(a.type, T.Size)]
    # symbol table for printing result bases with the SAME (name-index, id) keys as the extracted tree
    psy = Syms()

    def reg(stmts):
        for s in stmts:
            if isinstance(s, LoopIR.For):
                psy.bwd[id(s.iter)] = (names.index(s.iter.name()), s.iter._id)
                reg(s.body)
            elif isinstance(s, LoopIR.If):
                reg(s.body)
                reg(s.orelse)
    reg(ir.body)
    for a in ir.args:
        nm = a.name.name()
        if nm not in names:
            names.append(nm)
        psy.bwd[id(a.name)] = (names.index(nm), a.name._id)
    # scope = the outermost loop of the body (first For statement)
    scope = None
    for st in proc.body():
        if isinstance(st._impl._node, LoopIR.For):
            scope = st
            break
    if scope is None:
        res["rejected"] = "no loop"
        return res
    outs = []

    def walk(block):
        for st in block:
            nd = st._impl._node
            if isinstance(nd, LoopIR.For):
                walk(st.body())
            elif isinstance(nd, LoopIR.If):
                walk(st.body())
                if len(nd.orelse) > 0:
                    walk(st.orelse())
            elif isinstance(nd, (LoopIR.Assign, LoopIR.Reduce)) and str(nd.name) == c.get("buf", "x"):
                outs.append(guarded(lambda: infer_range(st.idx()[0], scope), psy))
    walk(scope.body())
    res["infer"] = outs
    inc = c.get("include", ["W"])
    res["bounds"] = guarded(lambda: bounds_inference(scope, c.get("buf", "x"), 0, include=inc), psy)
    return res


def run_case(c):
    k = c["kind"]
    sy = Syms()
    if k == "analyze":
        env = mk_env(c["env"], sy, as_dict=c.get("envtype") == "dict")
        e = mk_expr(c["expr"], sy)
        return guarded(lambda: RA.index_range_analysis(e, env), sy)
    if k == "cbound":
        env = mk_env(c["env"], sy)
        a = mk_arg(c["arg"], sy)
        return guarded(lambda: RA.constant_bound(a, env), sy)
    if k == "check":
        env = range_env(c["env"], sy)
        a, b = mk_arg(c["a"], sy), mk_arg(c["b"], sy)
        return guarded(lambda: env.check_expr_bound(a, CMP[c["op"]], b), sy)
    if k == "checks":
        env = range_env(c["env"], sy)
        a, b, d = mk_arg(c["a"], sy), mk_arg(c["b"], sy), mk_arg(c["c"], sy)
        return guarded(lambda: env.check_expr_bounds(a, CMP[c["op"]], b, CMP[c["op2"]], d), sy)
    if k == "crange":
        return guarded(lambda: RA.IndexRangeEnvironment._check_range(tuple(c["r0"]), CMP[c["op"]], tuple(c["r1"])), sy)
    if k == "envseq":
        def f():
            env = RA.IndexRangeEnvironment(empty_proc([sy.get(n, i) for n, i in c["sizes"]]))
            for o in c["ops"]:
                if o[0] == "enter":
                    env.enter_scope()
                elif o[0] == "exit":
                    env.exit_scope()
                else:
                    env.add_loop_iter(sy.get(o[1], o[2]), mk_arg(o[3], sy), mk_arg(o[4], sy))
            looks = []
            for n, i in c["keys"]:
                s = sy.get(n, i)
                looks.append(sx_val(env.env[s], sy) if s in env.env else "none")
            q = sx_val(RA.constant_bound(mk_arg(c["q"], sy), env.env), sy)
            return "(" + " ".join(looks + [q]) + ")"
        try:
            return f()
        except Exception as e:  # noqa: BLE001
            return "(err %s)" % type(e).__name__
    if k == "binop":
        a, b = mk_rv(c["a"], sy), mk_rv(c["b"], sy)
        import operator
        f = {"add": operator.add, "sub": operator.sub, "mul": operator.mul, "div": operator.floordiv,
             "mod": operator.mod}[c["op"]]
        return guarded(lambda: f(a, b), sy)
    if k == "uneg":
        a = mk_rv(c["a"], sy)
        return guarded(lambda: -a, sy)
    if k == "orchain":
        rs = [mk_rv(r, sy) for r in c["rs"]]

        def f():
            acc = rs[0]
            for r in rs[1:]:
                acc = acc | r
            return acc
        return guarded(f, sy)
    if k == "stride":
        r = mk_rv(c["r"], sy)
        return _stride(r, sy.get(*c["sym"]))
    if k == "peval":
        r, g = mk_rv(c["r"], sy), mk_rv(c["g"], sy)
        return guarded(lambda: r.partial_eval_with_range(sy.get(*c["sym"]), g), sy)
    if k == "size":
        r = mk_rv(c["r"], sy)
        try:
            return sx_opt(r.get_size())
        except Exception as e:  # noqa: BLE001
            return "(err %s)" % type(e).__name__
    if k == "wrapper":
        from exo.rewrite.LoopIR_scheduling import index_range_analysis_wrapper
        e = mk_expr(c["expr"], sy)
        return guarded(lambda: index_range_analysis_wrapper(e), sy)
    if k == "user":
        return run_user(c)
    if k == "fold":
        return run_fold(c)
    raise ValueError(k)


def run_fold(c):
    """resize_dim(p, alloc x, 0, size, 0, fold=True) on a real @proc: "accepted" or (err Class)"""
    import importlib.util
    import os
    import tempfile
    d = tempfile.mkdtemp(prefix="c13fold")
    path = os.path.join(d, "c13_fold_case.py")
    with open(path, "w") as f:
        f.write(c["src"])
    spec = importlib.util.spec_from_file_location("c13_fold_case", path)
    mod = importlib.util.module_from_spec(spec)
    spec.loader.exec_module(mod)
    from exo.stdlib.scheduling import resize_dim
    try:
        resize_dim(mod.p, mod.p.find("x: _"), 0, c["size"], 0, fold=True)
        return "accepted"
    except Exception as e:  # noqa: BLE001
        return "(err %s)" % type(e).__name__


def _stride(r, s):
    try:
        return "%d" % r.get_stride_of(s)
    except Exception as e:  # noqa: BLE001
        return "(err %s)" % type(e).__name__


def main():
    cases = json.load(open(sys.argv[1]))
    out = []
    for c in cases:
        try:
            out.append(run_case(c))
        except Exception as e:  # noqa: BLE001 - a crash of the driver itself must be visible, not fatal
            import traceback
            out.append("(impl-driver-error %s %s)" % (type(e).__name__, traceback.format_exc()[-300:].replace("\n", " | ")))
    json.dump(out, open(sys.argv[2], "w"))


if __name__ == "__main__":
    main()
