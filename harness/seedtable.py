#!/venv/bin/python
"""seedtable.py: (re)writes section 10 of DESIGN.md (between the markers) from seeded/<id>/{meta.json,check_result.json}."""
import json, os, re

DESCR = {
    "C01a": ("remove_loop proves/guards `hi > 0` instead of `hi > lo`", "a loop with non-zero lower bound that can be zero-trip"),
    "C01b": ("AWin.__add__ (window of a window in the effect analysis) drops the outer offset for point coordinates", "two names for one cell through a window chain, then reorder/fission"),
    "C01c": ("remove_loop: `Check_IsPositiveExpr(hi)` instead of `hi > lo` (same idea as C01a, found independently)", "zero-trip loop with non-zero lower bound"),
    "C02a": ("Compiler.new_varname bumps the suffix once instead of until free", "a user name of the form x_1 together with shadowing"),
    "C02b": ("literal written to a config field is coerced to f32 instead of the field's precision", "f64/i32 config field, literal not representable in f32"),
    "C03a": ("Check_Aliasing resolves only one level of window aliases", "window of a window passed together with another view of the same buffer"),
    "C03b": ("boundscheck asserts `n == e` before checking that the size argument is positive (vacuous check)", "call with a size argument that can be 0"),
    "C04a": ("Check_IsDivisible fast path ignores the operator (n + 8 'divisible' by 8)", "divide_dim / divide_loop(perfect) on padded symbolic extents"),
    "C04b": ("stage_mem safety guards: lower bound never checked when the upper bound is provable", "staged window that leaves the source on the low side"),
    "C05a": ("loop unification uses one trip-count equation instead of lo and hi equations", "block loop with non-zero (or symbolic) lower bound"),
    "C05b": ("unify_e lets `==` unify with inequalities", "callee guard `i == k` against block guard `i < m`"),
    "C06a": ("Block._forward_move tests membership with the wrong list attribute", "move between a `body` list and an `orelse` list"),
    "C06b": ("Block._forward_move compares (attr, index) tuples, so 'body' < 'orelse' decides", "cursor in the else branch while statements move within the then branch"),
    "C10b": ("globenv merges config values after an if only over fields written in the then branch", "config field written only in an else/elif branch, then delete_config / write_config"),
    "C15b": ("MemoryAnalysis returns early for procedures without allocations, skipping the call-site memory check", "memory mismatch at a call inside an allocation-free wrapper"),
    "C16b": ("Block.expand takes the list length from the body (same idea as C16a, found independently)", "block cursor in an else branch"),
    "C19b": ("partial_eval keyed by name string (same idea as C19a, found independently)", "loop iterator named like the fixed argument"),
    "C07a": ("DoLiftAlloc.idx_mode extends the input node's index list in place in col mode", "autolift_alloc(mode='col')"),
    "C08a": ("MemoryAnalysis follows only one level of window aliases when placing free()", "window of a window of a local heap buffer used last"),
    "C09a": ("Disjoint_Memory drops the mirrored queries (only earlier-modifies-later is asked)", "purely backward loop-carried dependence"),
    "C09b": ("AEnv.translate_win looks the parent window up in the stale map", "two window statements before a par loop"),
    "C10a": ("Check_DeleteConfigWrite skips the read-later test for fields whose write is 'invisible'", "config value read later in the procedure but overwritten at the end"),
    "C11a": ("proc_eqv shares one union-find object between config fields introduced in the same step", "one step introducing two unseen config fields"),
    "C12a": ("IndexRange.__mod__: `size <= c` instead of `lo // c == hi // c`", "short range straddling a multiple of the modulus, used by simplify"),
    "C12b": ("division_simplification returns `+ c // d` in the non-multiple case", "iterator with non-zero lower bound or negative coefficient"),
    "C13a": ("IndexRange.__mod__ as in C12a, observed through the range analysis itself", "short range straddling a multiple"),
    "C13b": ("IndexRange.__mul__ by a negative constant does not flip half-open ranges", "(-3) * i with i unbounded above"),
    "C14a": ("mm256_storeu_ps asserts stride(src,0)==1 twice instead of stride(dst,0)==1", "non-unit-stride destination window"),
    "C15a": ("precision analysis trusts the type cached on a Read unless it is R", "set_precision after a window alias was created"),
    "C16a": ("Block.expand clamps against the `body` list even for blocks in `orelse`", "block cursor in an else branch"),
    "C17a": ("PrintEnv.get_name bumps the suffix once instead of until free", "a symbol literally named t_1 printed before a second t"),
    "C18a": ("Sym.__lt__ compares repr strings (decimal ids) instead of (name, id)", "two same-named Syms whose ids straddle a power of ten"),
    "C19a": ("partial_eval resolves arguments by name string instead of by Sym", "a loop variable named like the argument"),
}

rows = []
for name in sorted(os.listdir("/verif/seeded")):
    d = "/verif/seeded/" + name
    if not os.path.exists(d + "/patch.diff"):
        continue
    meta = json.load(open(d + "/meta.json")) if os.path.exists(d + "/meta.json") else {}
    res = json.load(open(d + "/check_result.json")) if os.path.exists(d + "/check_result.json") else {}
    what, needs = DESCR.get(name, ("?", "?"))
    conf = []
    if meta:
        conf.append("demo %s/%s" % (meta.get("demo_with_change_rc"), meta.get("demo_without_change_rc")))
        conf.append("suite " + ("686/686 stable pass" if meta.get("suite_baseline_ok") else "NOT CONFIRMED"))
    else:
        conf.append("confirmation pending")
    if res.get("caught"):
        det = "caught, " + ("concrete replay" if res.get("concrete_replay") else "no-failing-input-found (broken proof/correspondence)")
        ks = [re.sub(r"^\[C\d\d\]\s+(violation key|no longer checks): ", "", k) for k in res.get("keys", [])]
        if ks:
            det += ": `" + ks[0].split(" | ")[0][:70].replace("|", "\\|") + "`"
    elif res:
        det = "MISSED" if res.get("patch_applies_to_head") else "patch does not apply to HEAD"
    else:
        det = "not run"
    rows.append("| %s | %s | %s | %s | %s |" % (name, what, needs, "; ".join(conf), det))

table = ("| seed | change | needs, to manifest | confirmed by me (demo rc with/without, unedited suite) | quick check of the property on HEAD + patch |\n"
         "|------|--------|--------------------|------------------------|------------------------|\n" + "\n".join(rows))
p = "/verif/DESIGN.md"
s = open(p).read()
a, b = "<!-- SEEDTABLE BEGIN -->", "<!-- SEEDTABLE END -->"
if a in s:
    s = s[:s.index(a) + len(a)] + "\n" + table + "\n" + s[s.index(b):]
    open(p, "w").write(s)
print(table)
