"""C15 — Compile output is valid C; inconsistent annotations are rejected.

Engine coq/Annot: executable model of PrecisionAnalysis / WindowAnalysis / MemoryAnalysis call rule / can_read-write-
reduce gating / const-ness of buffers and window structs, with the theorems of Props_C15.v.

1. build the engine (Props_C15.v re-checked every run) and the extracted OCaml driver;
2. correspondence: corpus + generated call chains (c15_gen: depth <= 3, annotations in the source text and through the
   REAL set_precision / set_memory / set_window; progen programs with random annotations and inline) are pushed through
   the real front end and `compile_procs_to_strings`; accept / error class is compared with the extracted
   `backend_checks`; for every successful compile the model's verdict on the C typing judgment (cwt) is compared with
   what gcc says;
3. search, oracle = a real C compiler: every successful compile (quick: a bounded number) goes to
   `gcc -std=c11 -fsyntax-only -Wall -Werror=...`; any diagnostic is a violation `invalid-c:<class>:<tags>:<case>`;
4. negative oracle: the real compiler accepting what the model (proved to reject inconsistent annotations) rejects is
   `annot-accepted:<clause>:<case>`; a declared window reaching a dense formal is `annot-accepted:window-for-dense`."""
from __future__ import annotations

import json
import os
import re
import subprocess
import time

import common

ENGINE = "Annot"
DRIVER = common.COQ / ENGINE / "_build" / "c15_driver"
WORKER = common.VERIF / "harness" / "c15_worker.py"
NPROC = 12

# gcc diagnostic class -> model tag (cwt failure kind) or source feature that explains it
EXPLAINS = {
    "const-window-arg": ["win-by-name-nonconst"],
    "const-window-arg-rev": ["win-by-name-const"],
    "window-for-pointer": ["window-for-pointer"],
    "pointer-for-window": ["pointer-for-window"],
    "const-window-write": ["const-lvalue", "const-init"],
    "discarded-qualifier": ["const-init", "const-pointer-arg", "const-lvalue"],
    "unsized-array": ["scalar-in-array-memory"],
    "implicit-decl": ["nested-extern"],
    "decrement-operator": ["double-usub"],
    "sequence-point": ["double-usub"],
    "incompatible-pointer": ["avx2-window-arg"],
}
# model tag -> gcc classes that confirm it
CONFIRMS = {
    "win-by-name-nonconst": {"const-window-arg"},
    "win-by-name-const": {"const-window-arg-rev"},
    "window-for-pointer": {"window-for-pointer"},
    "pointer-for-window": {"pointer-for-window"},
    "const-lvalue": {"const-window-write"},
    "const-init": {"discarded-qualifier", "const-window-write"},
    "const-pointer-arg": {"discarded-qualifier"},
}


def source_features(rec) -> list:
    """features of a case that explain a gcc diagnostic outside the Coq model (memory / extern code strings)"""
    ex = rec.get("export") or ""
    feats = []
    mems = (rec.get("info") or {}).get("mems", [])
    for m in re.finditer(r"\(alloc \d+ \w+ (\d+) 0\)", ex):
        if int(m.group(1)) < len(mems) and mems[int(m.group(1))] in ("DRAM_STACK", "DRAM_STATIC", "C15_STK2"):
            feats.append("scalar-in-array-memory")
    if _nested_ext(ex):
        feats.append("nested-extern")
    if "(usub (usub " in ex:
        feats.append("double-usub")
    if "AVX2" in mems and ex:
        # a buffer living in AVX2 (or a window of one) handed to a callee
        av = str(mems.index("AVX2"))
        try:
            tree = common.parse_sexp(ex)
            for proc in tree[4][1]:
                inav = set(a[1] for a in proc[1] if a[0] == "num" and a[3] == av)

                def walk(ss):
                    hit = False
                    for s in ss:
                        if s[0] == "alloc" and s[3] == av:
                            inav.add(s[1])
                        elif s[0] == "win" and s[2] in inav:
                            inav.add(s[1])
                        elif s[0] == "call":
                            hit |= any(a[0] in ("rd", "wn") and a[1] in inav for a in s[2])
                        elif s[0] == "if":
                            hit |= walk(s[1]) | walk(s[2])
                        elif s[0] == "for":
                            hit |= walk(s[1])
                    return hit

                if walk(proc[2]):
                    feats.append("avx2-window-arg")
        except Exception:
            pass
    return sorted(set(feats))


def _nested_ext(ex: str) -> bool:
    """an extern call inside an argument of another extern call"""
    toks = re.findall(r"\(|\)|[^\s()]+", ex)
    open_ext, depth = [], 0
    for k, t in enumerate(toks):
        if t == "(":
            depth += 1
            if k + 1 < len(toks) and toks[k + 1] == "ext":
                if open_ext:
                    return True
                open_ext.append(depth)
        elif t == ")":
            if open_ext and open_ext[-1] == depth:
                open_ext.pop()
            depth -= 1
    return False


def nontrivial(rec) -> bool:
    """a case is non-trivial when it has a call, a window, or any annotation off the default (precision other than R,
    a memory other than DRAM); distinctness is by the exported skeleton"""
    ex = rec.get("export") or ""
    feats = (rec.get("info") or {}).get("features", [])
    return ("(call " in ex or "(win " in ex or any(f.startswith("prec=") and f != "prec=R" for f in feats)
            or any(f.startswith("mem=") and f != "mem=DRAM" for f in feats) or "winarg" in feats)


def run_workers(ck, jobs, timeout):
    env = common.exo_env()
    procs = []
    t0 = time.time()
    pending = list(jobs)
    running = []
    while pending or running:
        while pending and len(running) < NPROC:
            j = pending.pop(0)
            jf = j["out"] + ".job.json"
            with open(jf, "w") as f:
                json.dump(j, f)
            p = subprocess.Popen([common.PY, str(WORKER), jf], env=env, stdout=subprocess.PIPE, stderr=subprocess.STDOUT, text=True)
            running.append((p, j))
        time.sleep(0.5)
        still = []
        for p, j in running:
            if p.poll() is None:
                if time.time() - t0 > timeout:
                    p.kill()
                    ck.broken_obligation("worker-timeout:%s" % os.path.basename(j["out"]), "no result after %ds" % timeout)
                else:
                    still.append((p, j))
            else:
                out = p.stdout.read()
                if p.returncode != 0:
                    ck.broken_obligation("worker-failed:%s" % os.path.basename(j["out"]), out[-500:])
        running = still
    recs = []
    gcc_s = n_gcc = 0
    trunc = {"cases_not_run": 0, "compiled_but_not_gcc_checked": 0}
    for j in jobs:
        if not os.path.exists(j["out"]):
            continue
        for l in open(j["out"]):
            r = json.loads(l)
            if r.get("summary"):
                gcc_s += r["gcc_s"]
                n_gcc += r["n_gcc"]
                trunc["cases_not_run"] += r.get("not_run", 0)
                trunc["compiled_but_not_gcc_checked"] += r.get("gcc_unchecked", 0)
            else:
                recs.append(r)
    return recs, gcc_s, n_gcc, trunc


def run_model(ck, recs):
    lines = [r["export"] for r in recs if "export" in r]
    if not lines:
        return {}
    p = subprocess.run([str(DRIVER)], input="\n".join(lines) + "\n", capture_output=True, text=True, timeout=900)
    out = {}
    for l in p.stdout.splitlines():
        f = l.split()
        if len(f) < 2:
            continue
        d = {"verdict": f[1]}
        if f[1] == "ok":
            for kv in f[2:]:
                k, _, v = kv.partition("=")
                d[k] = v
            d["tags"] = [t for t in d.get("tags", "").split(",") if t]
        elif f[1] == "err":
            d["class"] = f[2]
            d["pos"] = int(f[3])
        else:
            d["msg"] = " ".join(f[2:])
        out[f[0]] = d
    if p.returncode != 0 or len(out) != len(lines):
        ck.broken_obligation("model-driver", "rc=%s answers=%d/%d %s" % (p.returncode, len(out), len(lines), p.stderr[-300:]))
    return out


def replay_of(rec, model=None, extra=None):
    d = {"case": rec["id"], "exo_source": rec.get("src"), "top": rec.get("top"),
         "how": "exec the module text with PYTHONPATH=$EXO_REPO/src:/verif/harness; "
                "exo.compile_procs_to_strings([<top>], 'c15.h'); gcc -std=c11 -fsyntax-only -Wall -Werror=... u.c",
         "annotation_ops": [l for l in (rec.get("src") or "").splitlines() if re.search(r"= (set_precision|set_memory|set_window|inline)\(|_c15_try_inline", l)],
         "impl": rec.get("impl"), "model": model, "model_input": rec.get("export")}
    if "gcc" in rec:
        d["gcc"] = rec["gcc"]
        d["c_source"] = rec.get("c")
        d["c_header"] = rec.get("h")
    if extra:
        d.update(extra)
    return d


def run(ck: common.Check):
    # ------------------------------------------------------------------ 1. proofs + extracted model
    ck.gen(ENGINE)  # Gen_Rules.v from the CURRENT prec/win/mem_analysis.py (fail closed)
    built = ck.coq_build(ENGINE, props=["Props_C15", "Props_C15_tie"])
    ck.extract(ENGINE)
    have_model = DRIVER.exists()
    if not have_model:
        ck.broken_obligation("model-driver", "extracted driver missing")

    # ------------------------------------------------------------------ 2./3. cases
    wd = common.scratch_dir("c15_%s" % ck.tier)
    n_annot = ck.n(132, 9000)
    n_progen = ck.n(36, 2400)
    import c15_corpus
    ncorp = len(c15_corpus.CASES)
    nw = NPROC - 1
    per_a, per_p = -(-n_annot // nw), -(-n_progen // nw)
    # quick: 18 corpus + 11 * (4 + 1) = 73 gcc checks
    lim_a, lim_p = (4, 1) if not ck.thorough else (None, None)
    # the corpus (witnesses of the known defects + one control per rejection clause) always runs completely
    jobs = [{"seed": ck.seed, "parts": [{"stream": "corpus", "start": 0, "count": ncorp, "gcc_limit": None}],
             "header_every": 1, "out": str(wd / "corpus.jsonl"), "workdir": str(wd / "gcc_corpus")}]
    for w in range(nw):
        parts = [{"stream": "annot", "start": w * per_a, "count": per_a, "gcc_limit": lim_a},
                 {"stream": "progen", "start": w * per_p, "count": per_p, "gcc_limit": lim_p}]
        jobs.append({"seed": ck.seed, "parts": parts, "header_every": 4, "out": str(wd / ("w%d.jsonl" % w)),
                     "workdir": str(wd / ("gcc%d" % w)), "gen_budget_s": ck.n(70, 600), "gcc_budget_s": ck.n(40, 330)})
    for j in jobs:
        os.makedirs(j["workdir"], exist_ok=True)
    t0 = time.time()
    recs, gcc_s, n_gcc, trunc = run_workers(ck, jobs, timeout=ck.n(600, 1700))
    ck.log("workers: %d cases, %d gcc checks in %.0fs wall (gcc wall sum %.0fs); not run within the time budget: %s"
           % (len(recs), n_gcc, time.time() - t0, gcc_s, trunc))
    model = run_model(ck, recs) if have_model else {}

    stats = {"load_err": 0, "worker_crash": 0, "export_unsupported": 0, "impl_crash": 0, "impl_opaque": 0,
             "accepted": 0, "rejected": {}, "gcc_checked": n_gcc, "time_budget_truncation": trunc, "gcc_diagnosed": 0, "hyp_true": 0, "hyp_false": 0,
             "cwt_fail_predicted": 0, "features": {}}
    sig_seen = {}

    def report(key_sig, cid, rec, what, mdl, extra=None):
        """one violation per signature (class + tags); further cases of the same signature are counted"""
        if key_sig in sig_seen:
            sig_seen[key_sig]["more"].append(cid)
            return
        sig_seen[key_sig] = {"more": []}
        rp = replay_of(rec, mdl, extra)
        rp["same_signature_cases"] = sig_seen[key_sig]["more"]
        ck.violation("%s:%s" % (key_sig, cid), rp, what)

    for rec in sorted(recs, key=lambda r: (r["stream"] != "corpus", r["stream"], r.get("index", 0))):
        cid, stream = rec["id"], rec["stream"]
        mid = re.sub(r"[^A-Za-z0-9_\-]", "_", cid)
        if "worker_crash" in rec:
            stats["worker_crash"] += 1
            ck.broken_obligation("worker-case-crash", rec["worker_crash"])
            continue
        if "load_err" in rec:  # front end / scheduling operator refused: the malformed stream
            stats["load_err"] += 1
            ck.case("malformed", cid, False, None, rec["load_err"].split(":")[0])
            if stream == "corpus":
                ck.broken_obligation("corpus-load:" + cid, rec["load_err"])
            continue
        im = rec["impl"]
        iv = "ok" if im["verdict"] == "ok" else im["class"]
        for ft in (rec.get("info") or {}).get("features", []):
            stats["features"][ft] = stats["features"].get(ft, 0) + 1
        if "export" not in rec:
            stats["export_unsupported"] += 1
            ck.case("unsupported", cid, False, None, rec.get("export_err", "?")[:40])
            mdl = None
        else:
            mdl = model.get(mid)
        # ---------------- correspondence on the verdict
        if iv.startswith("crash") or iv.startswith("opaque-mem"):
            stats["impl_crash"] += 1
            stats.setdefault("impl_crashes", [])
            if len(stats["impl_crashes"]) < 5:
                stats["impl_crashes"].append({"case": cid, "class": iv, "msg": im.get("msg"), "tb": im.get("tb", "")[-400:]})
        if iv.startswith("crash") and mdl is not None:
            # an internal error of the backend (assert, KeyError): only fine where the model predicts one too
            mv = "crash" if (mdl["verdict"] == "err" and mdl.get("class") == "crash") else mdl["verdict"] + ":" + str(mdl.get("class", ""))
            ck.case(stream, rec["export"], True, None, "impl-" + iv)
            if mv == "crash":
                ck.corr_agree(stream)
            else:
                ck.corr_diverge(stream, {"case": cid, "impl": iv, "impl_msg": im.get("msg"), "tb": im.get("tb", "")[-500:],
                                         "model": mdl, "model_input": rec["export"], "src": rec["src"][-1500:]})
        elif iv.startswith("crash"):
            ck.case(stream, cid, True, None, "impl-" + iv)
        elif iv.startswith("opaque-mem") or iv in ("alloc", "static", "par", "dupname"):
            stats["impl_opaque"] += 1  # raised by memory-specific code strings etc.: outside the model
            ck.case(stream, cid, False, None, "impl-" + iv)
        elif mdl is not None:
            mv = "ok" if mdl["verdict"] == "ok" else (mdl.get("class") if mdl["verdict"] == "err" else "bad")
            sample = {"case": cid, "impl": iv, "model": mdl, "procs": (rec.get("info") or {}).get("procs"),
                      "exo_source": rec["src"][rec["src"].find("@proc"):][:900], "model_input": rec["export"][:600]}
            ck.case(stream, rec["export"], nontrivial(rec), sample, iv)
            if mv == iv:
                ck.corr_agree(stream)
            else:
                ck.corr_diverge(stream, {"case": cid, "impl": iv, "impl_msg": im.get("msg"), "model": mdl,
                                         "model_input": rec["export"], "src": rec["src"][-1500:]})
                if iv == "ok" and mdl["verdict"] == "err" and mdl.get("class") != "crash":
                    # negative oracle: the compiler accepted what the verified checks reject
                    report("annot-accepted:%s" % mdl["class"], cid, rec,
                           "compile succeeded although the annotations are inconsistent (%s)" % mdl["class"], mdl)
        if iv == "ok":
            stats["accepted"] += 1
        else:
            stats["rejected"][iv] = stats["rejected"].get(iv, 0) + 1
        # ---------------- accepted: declared window reaching a dense formal; cwt vs gcc
        if iv == "ok" and mdl is not None and mdl["verdict"] == "ok":
            stats["hyp_true" if mdl.get("hyp") == "1" else "hyp_false"] += 1
            if mdl.get("declwin") == "1":
                report("annot-accepted:window-for-dense:stale-window-flag", cid, rec,
                       "a buffer declared as a window is passed where a dense tensor is required and the compile succeeds", mdl)
            if mdl.get("cwtp") != "1" or mdl.get("mem") != "1":
                # contradicts C15_accept_welltyped_prec / C15_accept_mem_consistent: the extracted model disagrees with its theorem
                ck.broken_obligation("model-self-consistency", "%s: %s" % (cid, mdl))
            if mdl.get("hyp") == "1" and (mdl.get("cwtk") != "1" or mdl.get("cwtc") != "1"):
                ck.broken_obligation("model-self-consistency", "%s: hyp holds but cwt fails %s" % (cid, mdl))
        if "gcc" in rec:
            g = rec["gcc"]
            classes = list(g["classes"])
            feats = source_features(rec)
            tags = (mdl or {}).get("tags", []) if (mdl or {}).get("verdict") == "ok" else []
            if classes:
                stats["gcc_diagnosed"] += 1
            if tags:
                stats["cwt_fail_predicted"] += 1
            # cwt (model) vs gcc: every predicted type error must be diagnosed, every type diagnostic predicted
            if mdl is not None and mdl.get("verdict") == "ok":
                ck.case("cwt-vs-gcc", (rec["export"], tuple(classes)), bool(tags or classes), None,
                        "both-clean" if not tags and not classes else ("both-flag" if tags and classes else ("model-only" if tags else "gcc-only")))
                unconfirmed = [t for t in tags if t in CONFIRMS and not (CONFIRMS[t] & set(classes))
                               and "unsized-array" not in classes]
                if unconfirmed:
                    ck.corr_diverge("cwt-vs-gcc", {"case": cid, "model_tags": tags, "gcc": classes, "gcc_out": g["out"][:600],
                                                   "src": rec["src"][-1200:]})
                else:
                    ck.corr_agree("cwt-vs-gcc")
            primary = classes
            if "unsized-array" in classes:
                primary = ["unsized-array"]  # `T t[];` cascades into pointer / assignment diagnostics
            for cls in primary:
                expl = [t for t in EXPLAINS.get(cls, []) if t in tags or t in feats]
                report("invalid-c:%s:%s" % (cls, "+".join(expl)), cid, rec,
                       "exo compiled this procedure without complaint; gcc: %s" % cls, mdl,
                       {"all_gcc_classes": classes, "model_tags": tags, "source_features": feats})

    # ------------------------------------------------------------------ a recorded crash (an error, not a wrong result)
    stats["set_window_false"] = probe_set_window_false()
    for k, v in sig_seen.items():
        stats.setdefault("signatures", {})[k] = 1 + len(v["more"])
    ck.cov["c15"] = stats
    n_corr = sum(st["cases"] for nm, st in ck.streams.items() if nm in ("corpus", "annot", "progen"))
    acc = stats["accepted"]
    ck.log("verdict correspondence: %s" % {k: (v["agree"], v["diverge"]) for k, v in ck.streams.items() if "agree" in v})
    ck.log("accepted %d, rejected %s, load errors %d, gcc diagnosed %d/%d, signatures %s"
           % (acc, stats["rejected"], stats["load_err"], stats["gcc_diagnosed"], n_gcc, stats.get("signatures", {})))
    if n_corr and (acc == 0 or acc == n_corr):
        ck.broken_obligation("generator-collapsed", "accepted %d of %d" % (acc, n_corr))
    ck.cov["rule"] = (
        "corpus + generated call chains (depth<=3) x annotations (source text and real set_precision/set_memory/"
        "set_window, inline): real compile_procs_to_strings verdict/error class == extracted backend_checks; every "
        "successful compile (quick: <=80) through gcc -std=c11 -fsyntax-only -Wall -Werror=incompatible-pointer-types,"
        "int-conversion,discarded-qualifiers,implicit-function-declaration (source+header, header alone for 1 in 4); "
        "model cwt verdict vs gcc diagnostics.  distinct = distinct exported skeleton; non-trivial = has a call, a window "
        "or an annotation off the default (precision other than R, memory other than DRAM, window argument)")
    ck.cov["trusted_base"] = [
        "Coq 8.16.1 kernel; Props_C15.v closed under the global context (no axioms)",
        "extraction (ExtrOcamlBasic) + coq/Annot/driver.ml (s-expression reader, printing, tag names)",
        "harness/c15_export.py (LoopIR -> skeleton; unique Sym numbering; recorded window flag / src_buf)",
        "hand-written model coq/Annot/Model.v: agreement with prec/mem/win_analysis.py and LoopIR_compiler.py is sampled",
        "one flat environment per procedure instead of the per-pass dictionaries (differs only on use-before-definition)",
        "gcc 12 as the oracle for C validity; cwt is our abstraction of C typing for pointer/window-struct/const/precision",
        "Memory / Extern C code strings are opaque to the model (DRAM-like strings assumed); c15_mems.describe probes the real classes",
    ]
    ck.assumptions = [
        "default precision f32 (get_default_prec()); c_dflt <> R in the acceptance theorems",
        "names are unique Syms; IR is well-scoped (front-end invariant)",
        "partial const/kind theorems assume hyp_proc (decidable; evaluated on every accepted case: see coverage.c15.hyp_true/false)",
    ]


def probe_set_window_false():
    """set_window(p, x, False) crashes (DoSetTypAndMem: `elif win:` is false, so the function returns None)."""
    code = ("from __future__ import annotations\nfrom exo import proc\nfrom exo.stdlib.scheduling import *\n"
            "@proc\ndef f(x: [R][4]):\n    x[0] = 1.0\n"
            "try:\n    set_window(f, 'x', False)\n    print('OK')\nexcept BaseException as e:\n    print(type(e).__name__, str(e)[:120])\n")
    d = common.SCRATCH / "c15_probe"
    d.mkdir(parents=True, exist_ok=True)
    (d / "probe.py").write_text(code)
    rc, out = common.sh([common.PY, str(d / "probe.py")], timeout=120, env=common.exo_env())
    return out.strip().splitlines()[-1] if out.strip() else "rc=%d" % rc
