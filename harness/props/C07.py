"""C07 -- scheduling operations and queries are pure: no call, successful or failing, alters any existing procedure,
sub-procedure or cursor.

Engine: coq/Purity (Model.v: PyHeap + ListProg, Proofs_PyHeap.v, Proofs_ListProg.v, Props_C07.v).
Tie:   T  translator/py2listprog.py regenerates Gen_ListProgs.v / Gen_Helpers.v from the CURRENT LoopIR_scheduling.py,
          internal_cursors.py, LoopIR.py on every run (and Gen_Fixtures.v from the pre-repair DoMultiplyDim); the property
          theorems Require them, so the reflective purity proofs are re-done about what the code says now.
       C  runtime monitor (harness/c07_monitor.py): random scheduling sessions + sweeps on real procedures with a deep
          identity fingerprint of every live procedure and cursor before/after every call.  It is both the validation of
          the abstraction (what the translator cannot see: unknown callees, C extensions, caches) and the failing-input
          search; it is cheap and runs in quick mode too.
"""
from __future__ import annotations

import json
import os
import re
import subprocess
import time

import common
import c07_corr

ENGINE = "Purity"
MON = common.VERIF / "harness" / "c07_monitor.py"


def static_report(ck):
    """names of the functions the analysis flags (diagnostics for a failing build)"""
    d = common.COQ / ENGINE
    if not (d / "Gen_ListProgs.vo").exists():
        return []
    sdir = common.SCRATCH / "c07"
    sdir.mkdir(parents=True, exist_ok=True)
    f = sdir / "Flagged.v"
    f.write_text("From Coq Require Import List NArith.\nImport ListNotations.\nFrom Purity Require Import Model Gen_ListProgs.\n"
                 "Eval vm_compute in all_flagged.\n")
    rc, out = common.sh("coqc -Q . Purity %s" % f, timeout=600, cwd=d)
    if rc != 0:
        return []
    try:
        rep = json.loads((sdir / "report.json").read_text())
    except Exception:
        rep = {"functions": []}
    funcs = {x["id"]: x for x in rep.get("functions", [])}
    txt = out.replace("\n", " ")
    res = []
    for m in re.finditer(r"\((\d+)%N,\s*\[(.*?)\]\)", txt):
        fid = int(m.group(1))
        fn = funcs.get(fid, {"qual": "?", "file": "?", "line": 0})
        lines = sorted({int(x) for x in re.findall(r"VMut \((?:Loc|Glob) \d+\) (\d+)", m.group(2))})
        res.append({"func": fn["qual"], "file": fn["file"], "def_line": fn["line"], "mutation_lines": lines,
                    "violations": re.sub(r"\s+", " ", m.group(2))[:300]})
    return res


def run(ck: common.Check):
    # ------------------------------------------------------------------ 1. translator + proofs
    ok_gen = ck.gen(ENGINE)
    ck.log("stage gen: %.0fs" % (time.time() - ck.t0))
    ok_build = ck.coq_build(ENGINE, timeout=1500)
    ck.log("stage build: %.0fs" % (time.time() - ck.t0))
    rep = {}
    try:
        rep = json.loads((common.SCRATCH / "c07" / "report.json").read_text())
    except Exception:
        pass
    if rep:
        st = rep.get("stats", {})
        ck.cov["translator"] = {
            "files": rep.get("files"),
            "functions_translated": len(rep.get("functions", [])),
            "lambdas": sum(1 for f in rep.get("functions", []) if f.get("lambda")),
            "mutation_sites": st.get("mutation_sites"),
            "allocation_sites": st.get("alloc_sites"),
            "known_calls": st.get("known_calls"),
            "unknown_calls": st.get("unknown_calls"),
            "whitelist_hits": st.get("whitelist_hits"),
            "site_whitelist": rep.get("site_whitelist_hits"),
            "site_whitelist_unused": rep.get("site_whitelist_unused"),
            "defaultdict_fields(W9)": rep.get("dd_fields"),
            "max_scope": max([f["scope_size"] for f in rep.get("functions", [])] or [0]),
        }
        ck.log("translator: %d functions, %d mutation sites, %d site-whitelisted statements"
               % (len(rep.get("functions", [])), st.get("mutation_sites", 0), len(rep.get("site_whitelist_hits", []))))
    flagged = static_report(ck) if ok_gen else []
    ck.cov["flagged_helpers"] = flagged
    for fl in flagged:
        ck.broken_obligation("analysis-flag:%s:%s:%s" % (fl["file"], fl["func"], ",".join(map(str, fl["mutation_lines"]))),
                             "may_mutate_shared = true: %s" % json.dumps(fl))
        ck.log("ANALYSIS FLAG: %s %s (def at line %s): statements at lines %s may mutate a shared object"
               % (fl["file"], fl["func"], fl["def_line"], fl["mutation_lines"]))
    # Print Assumptions output is taken from the build log: Props_C07.vo is rebuilt on every run by ck.coq_build

    ck.cov["trusted_base"] = [
        "Coq 8.16.1 kernel (coqc, full .vo build of coq/Purity; vm_compute for the reflective per-helper proofs)",
        "translator/py2listprog.py (fail-closed Python-ast -> ListProg; its whitelist W1-W9, the three SITE_WHITELIST "
        "statements and the alias-preserving ChainMap operations are listed with justifications in its header)",
        "CPython / asdl_adt / attrs: frozen ADT nodes, `update` = attrs.evolve, the generated __init__ rebuilds sequence fields",
        "hand-written PyHeap model of internal_cursors.py edits (Model.v part 1): agreement with the code is sampled by the "
        "runtime monitor (no old object ever changes), not proved",
        "harness/c07_monitor.py fingerprints (id-based) and harness/progen.py / sched.py generators",
    ]
    ck.assumptions = [
        "ListProg abstracts Python: values are references or opaque; every call into code outside the four translated files "
        "(new_eff checks, pattern_match, range_analysis, builtins, C extensions) is an unknown call that does not mutate its "
        "arguments and may return anything -- the runtime monitor is the check of this assumption",
        "parameters, attribute reads, subscript reads, loop variables and all call results are classified shared; new objects "
        "are exactly the whitelisted constructs W1-W9 of the translator",
        "`self.<field>` of all instances of a class (and of the subclasses that use the field) and variables captured by closures "
        "are flow-insensitive globals; a closure passed as a callback is verified as a helper of its own with shared parameters",
        "generator expressions are evaluated eagerly; `return` inside try/finally and `global` statements are refused (fail closed)",
        "C07_all_helpers_frame speaks about the model heap: a list object reachable from a pre-existing procedure is never "
        "edited by translated code; object identity of Procedure / Cursor wrappers and the module level caches of new_eff are "
        "covered only by the runtime monitor",
    ]

    # ------------------------------------------------------------------ 2. correspondence of the PyHeap model
    if (common.COQ / ENGINE / "Model.vo").exists():
        c07_corr.run_corr(ck, ck.n(12, 60), 8)
    else:
        ck.broken_obligation("correspondence:pyheap-not-run", "Model.vo missing")

    ck.log("stage static report + correspondence: %.0fs" % (time.time() - ck.t0))
    # ------------------------------------------------------------------ 2b. regression cases (repaired defects)
    rc, out = common.sh([common.PY, str(common.VERIF / "harness" / "c07_regress.py")], timeout=300,
                        cwd=str(common.scratch_dir("c07_regress")), env=common.exo_env())
    nreg = 0
    for line in out.splitlines():
        if not line.startswith("{"):
            continue
        r = json.loads(line)
        nreg += 1
        ck.case("regression", r["case"], True, r, tag="ok" if r["ok"] else "FAILED")
        if r["ok"]:
            ck.corr_agree("regression")
        else:
            ck.stream("regression")["diverge"] += 1
            ck.violation(r["key"], {"script": "harness/c07_regress.py", "case": r["case"], "detail": r["detail"]},
                         "regression case fails: " + r["case"])
            ck.log("REGRESSION FAILS: %s" % r["case"])
    if rc != 0 or nreg < 3:
        ck.broken_obligation("regression-driver", "rc=%s, %d cases: %s" % (rc, nreg, out[-400:]))

    ck.log("stage regression: %.0fs" % (time.time() - ck.t0))
    # ------------------------------------------------------------------ 3. runtime monitor (validation + search)
    nwork = max(4, min(12, (os.cpu_count() or 8) - 4))
    n_sessions = ck.n(22, 330)
    n_sweeps = ck.n(3, 36)
    # the machine is shared: keep the whole check inside its budget whatever the build has cost so far
    spent = time.time() - ck.t0
    cap = int(max(35, min(80, 150 - spent))) if not ck.thorough else int(max(300, min(900, 1080 - spent)))
    sdir = common.scratch_dir("c07_run")
    procs = []
    t0 = time.time()
    for w in range(nwork):
        seed = ck.rng.getrandbits(40)
        out = sdir / ("mon_%d.jsonl" % w)
        cmd = [common.PY, str(MON), str(seed), str(n_sessions), str(n_sweeps), str(cap), str(out), "w%d" % w]
        p = subprocess.Popen(cmd, cwd=str(sdir), env=common.exo_env(), stdout=subprocess.PIPE, stderr=subprocess.STDOUT, text=True)
        procs.append((w, seed, out, p))
    tot = {}
    nviol = 0
    for w, seed, out, p in procs:
        try:
            log, _ = p.communicate(timeout=cap + 400)
        except subprocess.TimeoutExpired:
            p.kill()
            log = "[timeout]"
            ck.broken_obligation("monitor-worker-timeout:%d" % w, "seed %d" % seed)
        recs = []
        if out.exists():
            for line in open(out):
                try:
                    recs.append(json.loads(line))
                except Exception:
                    pass
        stats = [r for r in recs if r.get("t") == "stats"]
        if p.returncode != 0 or not stats:
            ck.broken_obligation("monitor-worker:%d" % w, "rc=%s seed=%d %s" % (p.returncode, seed, (log or "")[-400:]))
            continue
        s = stats[0]
        for k, v in s.items():
            if isinstance(v, (int, float)) and k != "wall_s":
                tot[k] = tot.get(k, 0) + v
        tot["max_worker_wall_s"] = max(tot.get("max_worker_wall_s", 0), s.get("wall_s", 0))
        for k in ("by_op", "by_query", "chain_lengths"):
            d = tot.setdefault(k, {})
            for a, b in s.get(k, {}).items():
                if isinstance(b, list):
                    cur = d.setdefault(a, [0, 0, 0])
                    for i in range(3):
                        cur[i] += b[i]
                else:
                    d[a] = d.get(a, 0) + b
        for r in recs:
            if r.get("t") == "violation":
                nviol += 1
                r["replay"]["worker_seed"] = seed
                if ck.violation(r["key"], r["replay"], r["what"]):
                    ck.log("PURITY VIOLATION %s: %s" % (r["key"], r["what"][:300]))
            elif r.get("t") == "harness_error":
                ck.broken_obligation("monitor-harness-error", json.dumps(r)[:800])
            elif r.get("t") == "sample" and len(ck.cov["samples"]) < 6:
                ck.cov["samples"].append({"stream": "monitor", "case": r})
    # counting: one evaluation = one monitored call (operation or query) followed by a full re-fingerprint
    by_op = tot.get("by_op", {})
    st = ck.stream("monitor")
    for op, (a, b, c) in sorted(by_op.items()):
        for outcome, n in (("ok", a), ("refused", b), ("crash", c)):
            if n:
                st["distribution"]["%s:%s" % (op, outcome)] = n
    for q, n in sorted(tot.get("by_query", {}).items()):
        st["distribution"]["query:%s" % q] = n
    ncalls = int(tot.get("calls", 0) + tot.get("queries", 0))
    st["cases"] = ncalls
    st["agree"] = ncalls - nviol
    st["diverge"] = nviol
    ck.cov["evaluations"] += ncalls
    ck.cov["distinct_nontrivial"] += int(sum(v[0] for v in by_op.values()))
    ck.cov["monitor"] = {k: v for k, v in tot.items() if k not in ("by_op", "by_query")}
    ck.cov["monitor"]["workers"] = nwork
    ck.cov["monitor"]["wall_s"] = round(time.time() - t0, 1)
    ck.cov["monitor"]["ops_with_a_successful_application"] = sum(1 for v in by_op.values() if v[0] > 0)
    ck.cov["monitor"]["ops_seen"] = len(by_op)
    ck.log("monitor: %d sessions + %d sweeps, %d calls + %d queries, %d fingerprint rounds over %d objects, "
           "%d c_code_str recomputations, %d replayed ops, %d violations, %.0fs"
           % (tot.get("sessions", 0), tot.get("sweeps", 0), tot.get("calls", 0), tot.get("queries", 0),
              tot.get("fingerprint_rounds", 0), tot.get("objects_fingerprinted", 0), tot.get("ccode_recomputed", 0),
              tot.get("replayed_ops", 0), nviol, time.time() - t0))
    ck.cov["rule"] = (
        "sessions: grammar-directed Exo source (harness/progen.py) through the real @proc front end, then a chain of 3-8 calls "
        "drawn from every primitive harness/sched.py can apply to ANY procedure created so far (60% the newest) plus queries "
        "(str, find, find_all, find_loop, args, ==, c_code_str, cursor navigation, forward); sweeps: buffer-heavy templates "
        "(harness/c07_templates.py), every candidate of every primitive applied to the same base procedure and the index-list "
        "rebuilding ones again on up to 3 derived procedures; refused and crashing calls are kept in the chain; after EVERY call "
        "all live procedures and cursors are re-fingerprinted (ids of nodes, lists and list elements, field values, str); one "
        "evaluation = one monitored call; non-trivial = the call returned a new procedure"
    )
    # a monitor that exercised nothing is a harness failure, not a pass
    starved = any(k in tot for k in ("stopped_by_time_cap_after", "sweeps_stopped_by_time_cap_after", "sweeps_cut_short"))
    ck.cov["monitor"]["stopped_by_time_cap"] = starved
    if starved and tot.get("calls", 0) < ck.n(800, 8000):
        ck.log("monitor was cut short by its time cap on a loaded machine (%d calls): fewer cases than planned" % tot.get("calls", 0))
    if starved and tot.get("calls", 0) >= 100:
        return
    if tot.get("calls", 0) < ck.n(800, 8000) or ck.cov["monitor"]["ops_with_a_successful_application"] < 30:
        ck.broken_obligation("monitor-collapse", "only %d calls, %d primitives ever succeeded"
                             % (tot.get("calls", 0), ck.cov["monitor"]["ops_with_a_successful_application"]))
    for op in ("mult_dim", "divide_dim", "resize_dim", "unroll_buffer", "rearrange_dim", "stage_mem", "inline_window", "bind_expr"):
        if by_op.get(op, [0])[0] == 0:
            ck.broken_obligation("monitor-collapse:" + op, "the index-list rebuilding primitive %s never succeeded" % op)
