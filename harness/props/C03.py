"""C03 — accepted procedures are memory-safe and call-safe.

Engine coq/Bounds: VC generator over Core.Syntax with a soundness theorem against Core.Sem.run
(Props_C03.v).  Tie to /repo:
  (a) correspondence of verdicts: generated source texts (valid progen stream, boundary templates, textual
      mutations of valid programs) go through the REAL @proc and, when inside the fragment, through the extracted
      `vcgen` whose VCs z3 discharges; accept/reject is compared;
  (b) search: EVERY procedure the real front end accepts is executed by the extracted Coq reference semantics
      on a bounded input family satisfying its assertions; any `fails <err>` is a violation with the source text
      and the input as replay; plus a call-aliasing check (static on the accepted LoopIR, dynamic in Bounds.Locate).
"""
from __future__ import annotations

import hashlib
import random
import time

import common
import progen
import export
import c03_gen
import c03_search
import c03_vc

TRUSTED = [
    "Coq 8.16.1 kernel; Core.Syntax/Core.Sem (the reference semantics `run`) and its extraction (ExtrOcamlBasic only) + coq/Core/driver.ml",
    "coq/Bounds extraction (vcgen_opt, locate) + coq/Bounds/driver.ml (reader copied from Core's driver, printers of VCs)",
    "harness/export.py (LoopIR -> s-expression, 1:1 structural dump) and harness/progen.py / c03_gen.py (generators of source text)",
    "z3 4.8.12 as the oracle for validity of each VC (harness/c03_vc.py renders Bounds.VC.vc to SMT-LIB: Int/Bool constants, div/mod for / and % by positive literals)",
    "harness/c03_search.py: bounded input family, static call-aliasing scan, Bounds.Locate (locate, locate_mem) used only to tag failures and to detect aliasing dynamically",
    "exo's own oracle: pysmt + z3 inside CheckBounds (its answers are what is being tested); the harness memoises "
    "pysmt.factory.Factory per environment (performance only: same solver, exo's code untouched)",
]


def classify_reject(err: str) -> str:
    import re

    e = re.sub(r"^\[def-at-line \d+\] ", "", err)
    if e.startswith("SchedulingError") and "same buffer" in e:
        return "alias"
    if "out-of-bounds" in e:
        return "out-of-bounds"
    if "to always be positive" in e:
        return "non-positive-size"
    if "to always be non-negative" in e:
        return "negative-trip"
    if "Could not verify assertion" in e:
        return "callee-assertion"
    if "type-shape of calling argument" in e:
        return "call-shape"
    if "always unsatisfiable" in e:
        return "unsat-assertion"
    if "typechecking" in e:
        return "typecheck"
    return e.split(":")[0]


class C03:
    def __init__(self, ck):
        self.ck = ck
        self.runner = c03_search.Runner(random.Random(ck.rng.getrandbits(32)), cap=ck.n(120, 400))
        self.tool = c03_vc.Tool()
        self.z3 = c03_vc.Discharger()
        self.seen_src = set()
        self.matrix = {}
        self.reject_kinds = {}
        self.reject_examples = {}
        self.vc_stats = {"programs_in_fragment": 0, "programs_outside_fragment": 0, "vcs": 0, "invalid": 0, "unknown": 0,
                         "invalid_kinds": {}}
        self.incomplete = []      # reject(exo) /\ all VCs valid
        self.stricter = []        # accept(exo) /\ some VC invalid /\ search found nothing
        self.confirmed = 0        # accept(exo) /\ some VC invalid /\ search found a failing input
        self.locate_mismatch = 0
        self.callee_rejected = 0
        self.alias = {"static_sites": 0, "dynamic": 0, "dynamic_runs": 0}
        self.tags = {}

    # ------------------------------------------------------------------ one program
    def one(self, stream: str, family: str, src: str):
        ck = self.ck
        h = hashlib.sha1(src.encode()).hexdigest()[:10]
        if h in self.seen_src:
            return
        self.seen_src.add(h)
        mod, err = c03_gen.load_module(src, "c03")
        accepted = mod is not None and hasattr(mod, "foo")
        ir = mod.foo._loopir_proc if accepted else None
        if not accepted and self.rejected_before_foo(src, err or ""):
            # a callee (not `foo`) was rejected: nothing was decided about `foo`
            self.callee_rejected += 1
            ck.case(stream, h, False, None, "callee-rejected")
            return
        if not accepted:
            rk = classify_reject(err or "no foo")
            self.reject_kinds[rk] = self.reject_kinds.get(rk, 0) + 1
            if rk not in self.reject_examples:
                self.reject_examples[rk] = {"error": (err or "")[:300], "src": src[len(progen.HEADER):][:500]}
            if rk in ("SyntaxError", "NameError", "AttributeError", "IndentationError"):
                ck.case(stream, h, False, None, "generator-slip:" + rk)
                return
        # ---- model verdict (needs the LoopIR: for rejected programs re-run the front end without the checks)
        verdict_model, vcs, bad = None, None, []
        ir_for_vc = ir if accepted else self.loopir_unchecked(src)
        exported = None
        if ir_for_vc is not None:
            try:
                ex = export.Exporter()
                name = ex.proc_ref(ir_for_vc)
                exported = (ex, name)
                self.tool.define(ex.defs)
                vcs = self.tool.vcgen(name)
            except export.Unsupported:
                vcs = None
            if vcs is None:
                self.vc_stats["programs_outside_fragment"] += 1
            else:
                self.vc_stats["programs_in_fragment"] += 1
                res = self.z3.check(vcs)
                self.vc_stats["vcs"] += len(vcs)
                bad = [(vc, r) for vc, r in zip(vcs, res) if r != "valid"]
                self.vc_stats["invalid"] += sum(1 for _, r in bad if r == "invalid")
                self.vc_stats["unknown"] += sum(1 for _, r in bad if r == "unknown")
                for vc, r in bad:
                    k = c03_vc.goal_kind(vc[2])
                    self.vc_stats["invalid_kinds"][k] = self.vc_stats["invalid_kinds"].get(k, 0) + 1
                verdict_model = "valid" if not bad else "invalid"
        cell = ("accept" if accepted else "reject", verdict_model or "outside-fragment")
        self.matrix[cell] = self.matrix.get(cell, 0) + 1
        ck.case(stream, h, True, {"family": family, "exo": cell[0], "vcgen": cell[1], "src": src[len(progen.HEADER):][:600]},
                "%s/%s" % cell)
        # ---- search on every accepted procedure: `foo` and, when the module loads, its callees as procedures
        # in their own right
        found = []
        if accepted:
            found = self.search(stream, family, src, ir)
            from exo.API import Procedure
            for nm, obj in vars(mod).items():
                if isinstance(obj, Procedure) and nm != "foo" and obj._loopir_proc.name == nm:
                    self.search(stream + "-callee", family, src, obj._loopir_proc, procname=nm)
        # ---- correspondence bookkeeping
        if verdict_model is not None:
            if accepted and verdict_model == "invalid":
                if found:
                    self.confirmed += 1
                    ck.corr_agree(stream)  # the stricter model verdict is confirmed by a failing execution
                else:
                    # alias-only rejections are outside the VC set; anything else is a model/implementation divergence
                    detail = {"family": family, "src": src[len(progen.HEADER):], "invalid_vcs": [c03_vc.smt_of_vc(vc) for vc, _ in bad[:3]]}
                    self.stricter.append(detail)
                    ck.corr_diverge(stream, detail)
            elif (not accepted) and verdict_model == "valid":
                rk = classify_reject(err)
                if rk == "alias":
                    ck.corr_agree(stream)  # aliasing is not a VC; checked separately below
                else:
                    self.incomplete.append({"family": family, "reject": rk, "src": src[len(progen.HEADER):][:500]})
                    ck.corr_agree(stream)  # incompleteness of exo is allowed; the rate is reported
            else:
                ck.corr_agree(stream)
        # ---- a rejected-for-aliasing program must really alias (sanity of the static scan), an accepted one must not
        if ir_for_vc is not None:
            sites = c03_search.alias_sites(ir_for_vc)
            if sites:
                self.alias["static_sites"] += 1
                if accepted:
                    ck.violation("accepted-unsafe:Alias:call-alias:%s/%s" % (stream, family),
                                 {"source": src, "call_sites": sites},
                                 "accepted procedure passes one buffer to two arguments of a call: %s" % sites[0])

    @staticmethod
    def rejected_before_foo(src: str, err: str) -> bool:
        """does the error text point (file:line:col) at a line above `def foo`?"""
        import re

        lines = src.split("\n")
        foo = max([k + 1 for k, l in enumerate(lines) if l.startswith("def foo(")] or [0])
        m = re.match(r"\[def-at-line (\d+)\]", err)
        return bool(m) and 0 < int(m.group(1)) < foo - 1  # the decorator line belongs to foo

    def loopir_unchecked(self, src: str):
        """LoopIR of `foo` of a program the front end rejected in CheckBounds / Check_Aliasing (type-correct programs
        only): the same parser and type checker, with the two later checks disabled in this process."""
        import exo.API as API

        saved = (API.CheckBounds, API.Check_Aliasing)
        API.CheckBounds = lambda p: None
        API.Check_Aliasing = lambda p: None
        try:
            mod, err = c03_gen.load_module(src, "c03u")
        finally:
            API.CheckBounds, API.Check_Aliasing = saved
        if mod is None or not hasattr(mod, "foo"):
            return None
        return mod.foo._loopir_proc

    # ------------------------------------------------------------------ search + tagging
    def search(self, stream, family, src, ir, procname="foo"):
        ck = self.ck
        info, doms, fails = self.runner.search(ir, stop_after=2)
        out = []
        if info is None:
            return out
        ex, name, sx = info
        for err, desc, txt in fails:
            if err.startswith("INTERP:"):
                ck.broken_obligation("interpreter-error", err + " on " + src[-300:])
                continue
            tag, extra = self.tag(ex, name, sx, txt, err)
            self.tags[(err, tag)] = self.tags.get((err, tag), 0) + 1
            key = "accepted-unsafe:%s:%s:%s/%s" % (err, tag, stream, family)
            ck.violation(key, dict({"source": src, "procedure": procname, "input": txt, "outcome": "fails " + err,
                                    "exported": sx}, **extra),
                         "the front end accepts a procedure that the reference semantics runs into %s (%s) on an input "
                         "satisfying its assertions" % (err, tag))
            out.append((err, tag))
        # dynamic aliasing: Bounds.Locate compares the blocks of the views bound at every executed call
        if "(call " in sx and not fails:
            self.tool.define(ex.defs)
            for txt in self.runner.done_inputs:
                self.alias["dynamic_runs"] += 1
                loc = self.tool.locate(name, txt)
                if loc.startswith("fails Alias"):
                    self.alias["dynamic"] += 1
                    ck.violation("accepted-unsafe:Alias:call-alias-dynamic:%s/%s" % (stream, family),
                                 {"source": src, "procedure": procname, "input": txt, "locate": loc, "exported": sx},
                                 "an executed call of an accepted procedure binds two arguments to views of one block")
                    out.append(("Alias", "call-alias-dynamic"))
                    break
                elif not loc.startswith("done"):
                    self.locate_mismatch += 1
        return out

    @staticmethod
    def site_tag(kind, err, sym, depth, alias_syms):
        if err == "Alias":
            t = "call-alias"
        elif kind in ("trip", "alloc", "guard", "loop-bounds", "wcfg", "index-expr"):
            t = {"trip": "loop-trip"}.get(kind, kind)
        elif kind == "call-preds":
            t = "call-assert"
        elif kind == "call-bind":
            t = {"BadSize": "call-size", "ShapeMismatch": "call-shape"}.get(err, "call-bind")
        elif kind == "call-args":
            t = "call-window-extent" if err == "OOB" else "call-args"
        elif kind == "window":
            t = "window-extent"
        elif kind == "read-extern":
            t = "extern-arg-read"
        elif kind in ("assign", "reduce", "read"):
            t = "window-own-extent" if sym in alias_syms else "plain"
        else:
            t = kind
        return t + ("-in-callee" if depth != "0" else "")

    def tag(self, ex, name, sx, txt, err):
        """shape tag of a failure: Bounds.Locate.locate gives the failing site (statement kind, culprit symbol, call
        depth) under Core.Sem; Bounds.Locate.locate_mem tells whether some access also leaves the MEMORY of its
        buffer (suffix +mem:<site>) or only the declared-extent discipline of windows is broken (no suffix)."""
        tool = self.tool
        tool.define(ex.defs)
        loc = tool.locate(name, txt).split()
        extra = {"locate": " ".join(loc)}
        if len(loc) != 5 or loc[0] != "fails" or (loc[1] != err and loc[1] != "Alias"):
            self.locate_mismatch += 1
            return "unlocated", extra
        _, lerr, kind, sym, depth = loc
        alias_syms = set()

        def scan(ss):
            for s in ss:
                if s[0] == "wins":
                    alias_syms.add(s[1])
                elif s[0] == "if":
                    scan(s[2]); scan(s[3])
                elif s[0] == "for":
                    scan(s[4])

        for d in ex.defs:
            scan(common.parse_sexp(d)[2][3])
        t = self.site_tag(kind, lerr, sym, depth, alias_syms)
        if lerr == "OOB":
            mem = tool.locate_mem(name, txt).split()
            extra["locate_mem"] = " ".join(mem)
            if mem and mem[0] == "fails" and len(mem) == 5:
                t += "+mem:" + mem[2] + ("-in-callee" if mem[4] != "0" else "")
            elif not mem or mem[0] != "done":
                t += "+mem:?"
        return t, extra

    def close(self):
        self.runner.close()
        self.tool.close()


def stale(target, sources) -> bool:
    if not target.exists():
        return True
    t = target.stat().st_mtime
    return any(src.exists() and src.stat().st_mtime > t for src in sources)


def memoize_pysmt_factory():
    """Performance shim, pysmt only: exo's _get_smt_solver builds a fresh pysmt Factory for every CheckBounds just to
    list the installed solvers, which re-probes every solver module (half of the front-end time).  Memoising the
    Factory per pysmt environment leaves exo's code and the chosen solver unchanged."""
    import pysmt.factory as pf

    if getattr(pf.Factory, "_c03_memo", False):
        return
    orig, cache = pf.Factory, {}

    def factory(env, *a, **k):
        key = (id(env), a, tuple(sorted(k.items())))
        if key not in cache:
            cache[key] = orig(env, *a, **k)
        return cache[key]

    factory._c03_memo = True
    pf.Factory = factory


def build_core_deps(ck):
    """Bounds needs Core.Syntax, Core.Sem and Core.Equiv only; build exactly these (other engines add files to
    coq/Core concurrently, a half-written file there must not break this check)"""
    d = common.COQ / "Core"
    prev = []
    for stem in ("Syntax", "Sem", "Equiv"):
        vo, v = d / (stem + ".vo"), d / (stem + ".v")
        if stale(vo, [v] + prev):
            rc, out = common.sh("coqc -Q . Core %s.v" % stem, timeout=600, cwd=d)
            if rc != 0:
                ck.broken_obligation("coq-build:Core." + stem, out[-600:])
        prev.append(vo)
    ck.obligation("Core.Syntax/Sem/Equiv compiled", all((d / (s + ".vo")).exists() for s in ("Syntax", "Sem", "Equiv")))


def run(ck):
    memoize_pysmt_factory()
    build_core_deps(ck)
    if stale(common.COQ / "Core" / "_build" / "interp", [common.COQ / "Core" / "ocaml" / "interp.ml", common.COQ / "Core" / "driver.ml"]):
        ck.extract("Core")
    ck.coq_build("Bounds")
    if stale(common.COQ / "Bounds" / "_build" / "bounds", [common.COQ / "Bounds" / "_build" / "bounds.ml", common.COQ / "Bounds" / "driver.ml"]):
        ck.extract("Bounds")
    ck.log("build done at %.1fs" % (time.time() - ck.t0))
    c = C03(ck)
    rng = ck.rng
    t0 = time.time()
    # quick: the whole run stays under 3 minutes whatever the build took; thorough: under 20 minutes
    budget = max(25.0, 160.0 - (t0 - ck.t0)) if not ck.thorough else max(120.0, 1080.0 - (t0 - ck.t0))
    n_valid, n_tmpl, n_mut = ck.n(220, 6000), ck.n(900, 16000), ck.n(320, 9000)
    try:
        for fam, src in c03_gen.corpus():  # fixed witnesses first
            c.one("corpus", fam.split(":", 1)[1], src)
        # interleave the three streams so that a time cut keeps all of them populated
        k = 0
        pool = []
        while (k < max(n_valid, n_tmpl, n_mut)) and time.time() - t0 < budget:
            if k < n_tmpl:
                fam, src = c03_gen.template(rng)
                c.one("template", fam, src)
            if k < n_valid:
                g = progen.ProgGen(random.Random(rng.getrandbits(32)), uid="c%d" % k)
                src = g.module("foo")
                pool.append(src)
                c.one("valid", "progen", src)
            if k < n_mut and pool:
                m = c03_gen.mutate(rng.choice(pool), rng)
                if m:
                    c.one("mutation", m[0].split(":")[0].rstrip("+-0123456789"), m[1])
            k += 1
    finally:
        c.close()
    ck.log("streams done at %.1fs (loop %.1fs)" % (time.time() - ck.t0, time.time() - t0))
    st = c.runner.stats
    ck.cov["accept_reject_matrix"] = {"%s/%s" % k: v for k, v in sorted(c.matrix.items())}
    ck.cov["reject_kinds"] = c.reject_kinds
    ck.cov["reject_examples"] = c.reject_examples
    ck.cov["vc_stats"] = c.vc_stats
    ck.cov["z3"] = {"calls": c.z3.calls, "unknown": c.z3.unknown}
    n_rej = sum(v for k, v in c.matrix.items() if k[0] == "reject" and k[1] != "outside-fragment")
    ck.cov["exo_incompleteness"] = {"count": len(c.incomplete), "of_rejected_in_fragment": n_rej,
                                    "rate": round(len(c.incomplete) / n_rej, 4) if n_rej else 0.0,
                                    "examples": c.incomplete[:5]}
    ck.cov["accept_but_vc_invalid"] = {"confirmed_by_failing_execution": c.confirmed, "unconfirmed": len(c.stricter),
                                       "unconfirmed_examples": c.stricter[:3]}
    ck.cov["search"] = st
    ck.cov["failure_tags"] = {"%s:%s" % k: v for k, v in sorted(c.tags.items())}
    ck.cov["locate_mismatch"] = c.locate_mismatch
    ck.cov["rejected_in_a_callee_not_foo"] = c.callee_rejected
    ck.cov["aliasing"] = c.alias
    if c.locate_mismatch:
        ck.broken_obligation("locate-agrees-with-run", "%d failures were not reproduced by Bounds.Locate" % c.locate_mismatch)
    if st["programs"] and st["programs_with_valid_input"] < 0.8 * (st["programs"] - st["unsupported"]):
        ck.broken_obligation("search-coverage", "fewer than 80%% of the accepted programs had a valid input in the family: %s" % st)
    ck.cov["rule"] = ("(a) every generated source text (valid progen stream, boundary templates, textual mutations) is "
                      "submitted to the real @proc; programs inside the fragment of Bounds.VCGen are also run through the "
                      "extracted vcgen with z3 discharging the VCs; accept/reject must agree unless exo is merely incomplete "
                      "(counted) or the stricter model verdict is confirmed by a failing execution; (b) every accepted "
                      "procedure is executed by the extracted Core.Sem.run on the bounded input family (sizes 1..5 and "
                      "assertion boundary values, index arguments -3..6, both booleans, strides 1..3 for window arguments, "
                      "configuration values): `fails <err>` on a valid input is a violation; one buffer reaching two "
                      "arguments of a call in an accepted procedure is a violation")
    ck.cov["trusted_base"] = TRUSTED
    ck.assumptions = [
        "C03_vcgen_sound is a theorem about Bounds.VCGen.vcgen (a sufficient VC set), not about exo's CheckBounds; the tie to "
        "exo is the sampled agreement of verdicts and the execution of every accepted program",
        "validity of each VC is decided by z3 (oracle); inputs are bounded (sizes <= 9, index -5..9)",
        "aliasing is outside Core.Sem's error model: checked by a static scan of call sites and by Bounds.Locate",
    ]
