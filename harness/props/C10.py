"""C10 — configuration rewrites report every field they may change."""
import rwsearch
from props.C01 import TRUSTED


def run(ck):
    ck.coq_build("Core", props=["Props_C10", "Props_C01"])
    ck.extract("Core")
    feats = {"config": 1.0, "calls": 0.3}
    s = rwsearch.Search(ck, ops=rwsearch.CONFIG_OPS, features=feats, chain=ck.n(2, 3))
    findings = s.run(n_programs=ck.n(40, 500), budget_s=ck.n(80, 900))
    # rewrites AROUND configuration statements: every other primitive on config-heavy programs; here only
    # configuration differences are C10's business (buffer differences belong to C01)
    s2 = rwsearch.Search(ck, exclude=rwsearch.CONFIG_OPS | rwsearch.SIG_OPS, features=feats, chain=1,
                         stream="rewrites-around-config")
    findings2 = s2.run(n_programs=ck.n(12, 200), budget_s=ck.n(50, 600))
    for f in findings:
        ck.violation(f.key, f.replay, "%s at %s: %s" % (f.op, f.site, f.detail))
    for f in findings2:
        if f.kind == "config-mismatch":
            ck.violation(f.key, f.replay, "%s at %s: %s" % (f.op, f.site, f.detail))
    ck.cov["search"] = {"config_ops": s.stats, "around_config": s2.stats}
    ck.cov["inputs_run_in_reference_semantics"] = s.sc.runs + s2.sc.runs
    ck.cov["rule"] = ("generated procedures that read and write configuration fields (directly and in callees) x bind_config / "
                      "write_config / delete_config / call_eqv and every other primitive around configuration statements; for "
                      "all sampled inputs and initial configuration states the final buffers must agree and every configuration "
                      "field whose final value differs must be in the set proc_eqv reports for the pair")
    ck.cov["trusted_base"] = TRUSTED
