"""C18 -- Scheduling and compilation are deterministic.

Engine: coq/Determ.  Model.v makes the nondeterminism of the implementation an explicit parameter (every iteration
over a Python set is "an arbitrary enumeration"); Props_C18.v proves that the emission pipelines of
compile_to_strings, simplify's sorted(normalization_list) and the two name allocators give the same text for every
enumeration / every strictly monotone renumbering of the Sym counter -- or refutes it (memories / externs sharing a
name, the unsorted static helpers).

Tie, re-established on every run:
  1. translator/py2coq_emitorder.py scans the current source for every site where a hash order, an address or the
     Sym counter can be observed and checks it against the reviewed table coq/Determ/sites_reviewed.json (fail
     closed); Gen_Sites.v + C18_sites_all_classified.
  2. correspondence (coqc vm_compute): the model's stable sort / guards / Sym order / window-struct text / name
     allocators against the real sorted(), _compile_memories, _compile_externs, _compile_context_struct,
     compile_procs_to_strings, Sym.__lt__, window_struct, Compiler.new_varname, PrintEnv.get_name.
  3. the runtime truth no Gallina model exhibits: scripted sessions (source text + fixed schedule + print + compile)
     run in FRESH interpreters under different PYTHONHASHSEED values, prior histories (0 / 10^3 / 10^5 Syms and
     hundreds of unrelated procedures, classes, configs), gc on/off and module layouts; all texts must be
     byte-identical.  Any difference is a violation  nondet:<str|c|h|sched|err>:<varying factor>:<site hint>.
     (err:* = exception type + message of a failing print/compile, compared modulo source positions and the counter
     suffix of repr(Sym); sched = the accept/refuse log of the replayed schedule.)
  3b. one fixed kernel (inline + inline_window + simplify; two same-named symbols with equal coefficients in one index
     expression) built repeatedly in one process and in fresh processes whose prior history puts the two ids on either
     side of 10^k: the class "an ORDER depends on the absolute value of the Sym counter"
     (key nondet:<str|c|h>:prior-history:sym-counter-digit-boundary).
  4. dedicated witnesses of the known defects, with ONE factor varying: four Memory classes / four Extern objects
     sharing one name() (keys nondet:c:prior-history:memories-same-name, ...:externs-same-name, also under
     hashseed), and a procedure needing both static helpers (nondet:c:hashseed:static-helpers).
"""
from __future__ import annotations

import collections
import difflib
import json
import re
import time
from concurrent.futures import ThreadPoolExecutor

import common
import c18_sessions as S

ENGINE = "Determ"
HERE = common.VERIF / "harness"


# ---------------------------------------------------------------------------------------------------------------- children
def run_child(name: str, job: dict, hashseed: str, timeout: int, mode: str = "child"):
    d = common.SCRATCH / "c18" / name
    d.mkdir(parents=True, exist_ok=True)
    job = dict(job, scratch=str(d))
    jf, of = d / "job.json", d / "out.json"
    jf.write_text(json.dumps(job))
    if of.exists():
        of.unlink()
    t0 = time.time()
    rc, log = common.sh([common.PY, str(HERE / "c18_sessions.py"), mode, str(jf), str(of)], timeout=timeout,
                        env=common.exo_env(hashseed), cwd=str(d))
    if rc != 0 or not of.exists():
        return {"name": name, "error": "rc=%s %s" % (rc, log[-1500:]), "wall": time.time() - t0}
    r = json.loads(of.read_text())
    r["name"] = name
    r["wall"] = round(time.time() - t0, 1)
    return r


FACTORS = ["hashseed", "prior-history", "gc", "layout"]


def factor_values(v):
    return {"hashseed": v["hs"], "prior-history": v["pre_name"], "gc": v["gc"], "layout": v["layout"]}


def explain(variants, values):
    """which varied factor accounts for the differing outputs"""
    n = len(values)
    fvs = [factor_values(v) for v in variants]
    for f in FACTORS:
        if len({fv[f] for fv in fvs}) < 2:
            continue
        if all(values[i] == values[j] for i in range(n) for j in range(i) if fvs[i][f] == fvs[j][f]):
            return f
    single = set()
    for i in range(n):
        for j in range(i):
            if values[i] != values[j]:
                d = [f for f in FACTORS if fvs[i][f] != fvs[j][f]]
                if len(d) == 1:
                    single.add(d[0])
    return "+".join(sorted(single)) if single else "mixed"


HELPER_RE = re.compile(r"\nstatic int exo_floor_(?:div|mod)\(int num, int quot\) \{\n.*?\n\}\n", re.S)


def normalise_static_helpers(text: str) -> str:
    """only used AFTER a difference has been attributed to the known static-helper defect, to see whether anything
    else differs as well"""
    blocks = HELPER_RE.findall(text)
    if len(blocks) < 2:
        return text
    it = iter(sorted(blocks))
    return HELPER_RE.sub(lambda m: next(it), text)


def site_hint(sess, a: str, b: str) -> str:
    la, lb = a.splitlines(), b.splitlines()
    changed = [l[2:] for l in difflib.ndiff(la, lb) if l[:2] in ("- ", "+ ")]
    if changed and all(("exo_floor_" in l or l.strip() in ("", "}") or "int off" in l or "int rem" in l or "return" in l)
                       for l in changed) and any("exo_floor_" in l for l in changed):
        return "static-helpers"
    if sess.get("hint_id"):
        return sess["hint_id"]
    ops = "+".join(st["op"] for st in sess.get("steps", [])) or "no-schedule"
    first = changed[0].strip()[:40] if changed else ""
    return "%s[%s]:%s" % (sess["id"], ops, re.sub(r"[^A-Za-z0-9_]+", "_", first))


def compare(ck, stream, sessions, results, only=None):
    """results: list of child results (one per variant).  Reports every session output that is not byte-identical."""
    good = [r for r in results if "error" not in r]
    ndiff = 0
    for sess in sessions:
        sid = sess["id"]
        if only is not None and sid not in only:
            continue
        outs = [r["sessions"].get(sid, {}) for r in good]
        keys = sorted({k for o in outs for k in o if not k.startswith("_") and k != "steps"})
        nontrivial = sess["kind"] == "hand" or bool(sess.get("steps"))
        for r in good:
            ck.case(stream, (sid, r["name"]), nontrivial,
                    {"session": sid, "variant": r["variant"], "schedule": [s["op"] for s in sess.get("steps", [])],
                     "outputs": sorted(k for k in r["sessions"].get(sid, {}) if not k.startswith("_"))},
                    tag=(sess.get("steps") or [{"op": "hand:" + sid}])[0]["op"] if nontrivial else "no-schedule")
        reported = set()
        if all(len({o.get(k, "<missing>") for o in outs}) <= 1 for k in keys):
            for _ in good:
                ck.corr_agree(stream)  # all variants of this session agree byte for byte
        for k in keys:
            vals = [o.get(k, "<missing>") for o in outs]
            if len(set(vals)) <= 1:
                continue
            what = k.split(":")[0]
            vs = [r["variant"] for r in good]
            factor = explain(vs, vals)
            groups = collections.OrderedDict()
            for r, v in zip(good, vals):
                groups.setdefault(v, []).append(r["name"])
            reps = list(groups)
            hint = site_hint(sess, reps[0], reps[1])
            key = "nondet:%s:%s:%s" % (what, factor, hint)
            if key in reported:
                continue
            reported.add(key)
            ndiff += 1
            diff = "\n".join(list(difflib.unified_diff(reps[0].splitlines(), reps[1].splitlines(),
                                                       groups[reps[0]][0], groups[reps[1]][0], lineterm="", n=2))[:80])
            replay = {
                "session": sid, "output": k, "source": sess["src"], "schedule": sess.get("steps", []),
                "how": "run harness/c18_sessions.py child on this session under the listed variants (fresh interpreters)",
                "variants_by_output": [{"variants": names, "variant_params": [r["variant"] for r in good if r["name"] in names][:3]}
                                       for names in groups.values()],
                "diff": diff, "output_a": reps[0][:6000], "output_b": reps[1][:6000],
            }
            ck.log("DIFFERENCE %s in session %s output %s: %d distinct texts over %d variants"
                   % (key, sid, k, len(groups), len(good)))
            ck.violation(key, replay, "%s of session %s is not byte-identical across %s (%d distinct texts)"
                         % (k, sid, factor, len(groups)))
            if hint == "static-helpers":  # does anything else differ once the known defect is factored out?
                vals2 = [normalise_static_helpers(v) for v in vals]
                if len(set(vals2)) > 1:
                    factor2 = explain(vs, vals2)
                    reps2 = list(collections.OrderedDict.fromkeys(vals2))
                    key2 = "nondet:%s:%s:%s" % (what, factor2, "beyond-static-helpers@" + site_hint(dict(sess, hint_id=None), reps2[0], reps2[1]))
                    ck.violation(key2, dict(replay, diff="\n".join(list(difflib.unified_diff(
                        reps2[0].splitlines(), reps2[1].splitlines(), "a", "b", lineterm="", n=2))[:80])),
                        "%s of session %s differs beyond the static-helper order" % (k, sid))
    return ndiff


# ---------------------------------------------------------------------------------------------------------------- Sym counter
def boundary_runs(thorough: bool):
    """the Sym-counter digit-boundary stream (see c18_sessions.BOUNDARY_SRC): one process with repeated builds, then
    fresh processes whose prior history (unrelated procedures, then unrelated Syms) puts the two same-named symbols
    of the kernel on either side of 10^k"""
    pows = [2, 3, 4, 5, 6] + ([7] if thorough else [])
    builds = [{"kind": "natural"}]
    for k in pows:
        builds += [{"kind": "straddle", "pow": k}, {"kind": "inside", "pow": k}]
    first = run_child("bnd_inproc", {"builds": builds}, "0", 600, mode="boundary")
    runs = [first]
    if "error" in first:
        return runs
    offs = [b["offsets"] for b in first["builds"] if "offsets" in b]
    if not offs:
        return runs
    off = offs[0]  # offsets of the FIRST build of a process
    fresh = [("natural", 0, [{"kind": "natural"}]), ("s1", 0, [{"kind": "straddle", "pow": 1}]),
             ("s2", 0, [{"kind": "straddle", "pow": 2}]), ("s3", 0, [{"kind": "straddle", "pow": 3}]),
             ("i3", 0, [{"kind": "inside", "pow": 3}]), ("s4_procs20", 20, [{"kind": "straddle", "pow": 4}]),
             ("i4_procs20", 20, [{"kind": "inside", "pow": 4}]), ("s5_procs40", 40, [{"kind": "straddle", "pow": 5}])]
    if thorough:
        fresh += [("s6_procs100", 100, [{"kind": "straddle", "pow": 6}]), ("s3_procs5", 5, [{"kind": "straddle", "pow": 3}])]
    with ThreadPoolExecutor(max_workers=4) as ex:
        futs = [ex.submit(run_child, "bnd_fresh_" + nm, {"builds": b, "offsets": off, "pre_procs": pp}, str(i % 3), 600, "boundary")
                for i, (nm, pp, b) in enumerate(fresh)]
        runs += [f.result() for f in futs]
    return runs


def boundary_compare(ck, runs):
    rows = []
    for r in runs:
        if "error" in r:
            ck.broken_obligation("boundary:child:" + r["name"], r["error"][-500:])
            continue
        for n, b in enumerate(r["builds"]):
            if "out" not in b:
                continue
            ids = b.get("ids", [])
            rows.append({"process": r["name"], "build": n, "spec": b["spec"], "counter_at_start": b["start"], "ids_of_i": ids,
                         "straddles": len(ids) >= 2 and len(str(ids[0])) != len(str(ids[-1])), "out": b["out"],
                         "trace": b.get("_trace")})
    for row in rows:
        ck.case("sym-counter-boundary", (row["process"], row["build"]), True,
                {k: row[k] for k in ("process", "spec", "counter_at_start", "ids_of_i", "straddles")},
                tag=("straddle" if row["straddles"] else "inside") + (":fresh" if "fresh" in row["process"] else ":same-process"))
    nstr = sum(1 for r in rows if r["straddles"])
    nin = sum(1 for r in rows if not r["straddles"])
    errs = [r for r in rows if "err:session" in r["out"]]
    if errs:
        ck.broken_obligation("boundary:kernel-error", "%s %s" % (errs[0]["out"]["err:session"][:300], (errs[0]["trace"] or "")[-300:]))
    if nstr < 4 or nin < 3 or not any(r["straddles"] and "fresh" in r["process"] for r in rows):
        ck.broken_obligation("boundary:ineffective", "only %d builds straddle a digit boundary of the Sym counter, %d do not "
                                                     "(the stream cannot tell a counter-dependent order)" % (nstr, nin))
    ck.cov["sym_counter_boundary"] = {"builds": len(rows), "straddling_a_digit_boundary": nstr, "inside_one_digit_count": nin,
                                      "fresh_processes": len({r["process"] for r in rows if "fresh" in r["process"]}),
                                      "ids": [[r["process"], r["ids_of_i"]] for r in rows]}
    keys = sorted({k for r in rows for k in r["out"] if not k.startswith("_")})
    differs = False
    for k in keys:
        groups = collections.OrderedDict()
        for r in rows:
            groups.setdefault(r["out"].get(k, "<missing>"), []).append(r)
        if len(groups) <= 1:
            continue
        differs = True
        reps = list(groups)
        what = k.split(":")[0]
        key = "nondet:%s:prior-history:sym-counter-digit-boundary" % what
        diff = "\n".join(list(difflib.unified_diff(reps[0].splitlines(), reps[1].splitlines(),
                                                   "%s build %d" % (groups[reps[0]][0]["process"], groups[reps[0]][0]["build"]),
                                                   "%s build %d" % (groups[reps[1]][0]["process"], groups[reps[1]][0]["build"]),
                                                   lineterm="", n=2))[:60])
        ck.log("DIFFERENCE %s: output %s of the boundary kernel has %d distinct texts over %d builds" % (key, k, len(groups), len(rows)))
        ck.violation(key, {
            "kernel": S.HEADER + S.BOUNDARY_SRC, "output": k,
            "how": "harness/c18_sessions.py boundary <job> <out>: before a build, unrelated procedures and then unrelated "
                   "Syms are created until the process-global counter reaches counter_at_start; ids_of_i are the ids of the "
                   "caller's loop variable i and of the inlined callee's i, which meet in one index expression",
            "builds_by_output": [[{kk: r[kk] for kk in ("process", "build", "spec", "counter_at_start", "ids_of_i", "straddles")}
                                  for r in g] for g in groups.values()],
            "diff": diff, "output_a": reps[0][:4000], "output_b": reps[1][:4000],
        }, "%s of one fixed kernel (inline, inline_window, simplify) depends on how many symbols were created earlier in the "
           "process: it changes when the ids of two same-named symbols straddle a power of ten" % k)
    if not differs:
        for _ in rows:
            ck.corr_agree("sym-counter-boundary")


MODEL_FILES = ["ModelSites", "Model", "ModelCheck", "ProofsSort", "ProofsEmit", "ProofsSym", "ProofsNames"]


def build_without_sites(ck):
    """the site scan failed, so Gen_Sites.v does not exist: compile only the files that do not depend on it (the
    correspondence needs ModelCheck.vo) and say plainly that the property theorems were not re-checked"""
    d = common.COQ / ENGINE
    ck.forbid_scan(ENGINE)
    ok = True
    rebuild = False
    for stem in MODEL_FILES:
        v, vo = d / (stem + ".v"), d / (stem + ".vo")
        if not rebuild and vo.exists() and vo.stat().st_mtime >= v.stat().st_mtime:
            continue
        rebuild = True  # everything after a recompiled file is recompiled too
        rc, out = common.sh("timeout 600 coqc -Q . Determ %s.v" % stem, cwd=str(d), timeout=650)
        if rc != 0:
            ok = False
            ck.broken_obligation("coq-build:%s:%s.v" % (ENGINE, stem), out[-500:])
            break
    for suf in (".vo", ".glob", ".vok", ".vos"):  # never leave a Props_C18.vo of an older scan behind
        for stem in ("Props_C18", "ProofsSites", "Gen_Sites"):
            q = d / (stem + suf)
            if q.exists():
                q.unlink()
    names = re.findall(r"^\s*(?:Theorem|Corollary)\s+([A-Za-z0-9_']+)", (d / "Props_C18.v").read_text(), flags=re.M)
    note = ("; coq/Determ/Gen_Sites.v was therefore not generated: the %d theorems of Props_C18.v (which import it) were "
            "NOT re-checked in this run -- this is the only broken obligation, the theorems themselves are not known to fail; "
            "the model files %s were compiled and the runtime streams ran" % (len(names), ", ".join(MODEL_FILES)))
    for b in ck.broken:
        if b["name"] == "translator:" + ENGINE:
            b["detail"] = (b["detail"] or "")[-900:] + note
    for o in ck.obligations:
        if o["name"] == "translator:" + ENGINE:
            o["detail"] = (o["detail"] or "")[-900:] + note
    ck.cov["not_rechecked"] = ["Props_C18." + n for n in names]
    ck.log("site scan failed: Props_C18.v not re-checked (%d theorems); model files built: %s" % (len(names), ok))
    return ok


# ---------------------------------------------------------------------------------------------------------------- run
def run(ck: common.Check):
    t_start = time.time()
    pool = ThreadPoolExecutor(max_workers=ck.n(8, 12))
    quick = not ck.thorough

    # ---------------------------------------------------------------- background: correspondence driver, recorder, witnesses
    cdir = common.scratch_dir("c18_corr")
    corr_seed = ck.rng.getrandbits(30)
    n_corr = ck.n(250, 480)
    f_corr = pool.submit(common.sh, [common.PY, str(HERE / "c18_corr.py"), str(corr_seed), str(n_corr),
                                     str(cdir / "Cases.v"), str(cdir / "cases.json")], 600, str(cdir), common.exo_env("0"))

    import shutil
    shutil.rmtree(common.SCRATCH / "c18", ignore_errors=True)
    # sessions
    hand = [dict(h, kind="hand", hint_id=h["id"]) for h in S.HAND if not h["witness"]]
    wit = [dict(h, kind="hand", hint_id=h["hint"]) for h in S.HAND if h["witness"]]
    n_gen = ck.n(8, 24)
    gen = []
    feats = [None, {"divmod": 0.9, "calls": 0.7}, {"config": 0.8, "windows": 0.7, "extern": 0.5},
             {"calls": 0.9, "windows": 0.8, "config": 0.6}, {"shadow": 0.5, "divmod": 0.8, "nonzero_lo": 0.6}]
    for i in range(n_gen):
        # the program text is generated by the recorder child (fixed PYTHONHASHSEED): progen iterates sets of str
        gen.append({"id": "gen%d" % i, "kind": "gen", "seed": ck.rng.getrandbits(30), "nsteps": 2 + i % 5, "hint_id": None,
                    "gen": {"seed": ck.rng.getrandbits(40), "uid": "g%d" % i, "features": feats[i % len(feats)]}})
    base_var = {"hs": "0", "pre_name": "none", "pre": {}, "gc": "on", "layout": 0, "pre_k": 0}
    f_rec = pool.submit(run_child, "recorder", {"variant": base_var, "sessions": gen, "record": True}, "0", ck.n(300, 1200))

    f_bnd = pool.submit(boundary_runs, ck.thorough)

    # dedicated witnesses of the known defects: ONE factor varies
    hs_w = ["0", "1", "2", "3", "4", "5", "6", "7"] if not quick else ["0", "1", "2", "3", "5", "6"]
    prek_w = list(range(0, 16)) if not quick else [0, 1, 2, 3, 4, 5, 6, 7, 9, 12]
    wjobs = []
    for hs in hs_w:
        v = dict(base_var, hs=hs)
        wjobs.append(("hashseed", pool.submit(run_child, "wit_hs%s" % hs, {"variant": v, "sessions": wit}, hs, 300)))
    for k in prek_w[1:]:
        v = dict(base_var, pre_k=k, pre_name="k%d" % k)
        wjobs.append(("prior-history", pool.submit(run_child, "wit_k%d" % k, {"variant": v, "sessions": wit}, "0", 300)))

    # ---------------------------------------------------------------- 1. site scan + proofs (main thread)
    ok_gen = ck.gen(ENGINE)
    if ok_gen:
        ok_build = ck.coq_build(ENGINE, timeout=900, jobs=8)
    else:  # one broken obligation (the translator), not sixteen "does not compile"
        ok_build = build_without_sites(ck)
    ck.log("site scan + coq build: %.1fs (scan ok=%s, build ok=%s)" % (time.time() - t_start, ok_gen, ok_build))
    try:
        tbl = json.loads((common.COQ / ENGINE / "sites_reviewed.json").read_text())
        cls = collections.Counter(e["class"] for e in tbl["sites"])
        ck.cov["site_table"] = {"reviewed_entries": len(tbl["sites"]), "per_class": dict(cls),
                                "known_finding_sites": tbl.get("known_finding_sites", [])}
    except Exception as e:  # the table is part of the engine
        ck.broken_obligation("site-table", str(e))

    ck.cov["trusted_base"] = [
        "Coq 8.16.1 kernel (coqc, full .vo build of coq/Determ); the 16 theorems of Props_C18.v are closed under the global context",
        "translator/py2coq_emitorder.py: syntactic scan (ast) with a small flow-insensitive type inference for sets / "
        "hash-ordered lists / dict views; receivers it cannot type are typed unknown, so the scan is a reviewed "
        "approximation, not a proof that no other site exists; the seed/history sweep is the runtime check of the same claim",
        "coq/Determ/sites_reviewed.json: the human classification of each site (class, reason, theorem, consumers it "
        "relies on); classes insertion-ordered and seed-independent-hash rest on documented CPython behaviour "
        "(dicts iterate in insertion order; hash(int) is the int)",
        "coq/Determ/Model.v is hand-written (stable insertion sort for sorted(), the guard loops, window_struct text, "
        "Sym order, new_varname / get_name): agreement with the code is sampled by the correspondence streams, not proved",
        "CPython hashing, allocation addresses and gc are runtime truth outside every theorem: exercised only by the "
        "fresh-interpreter sweep (harness/c18_sessions.py), whose coverage is the listed sessions x variants",
        "harness/progen.py + harness/sched.py (generated programs and schedules), vm_compute inside coqc for the correspondence",
    ]
    ck.assumptions = [
        "C18_emit_perm needs keys_unique: compile_to_strings enforces it for procs and configs (TypeError) and it holds "
        "by construction for window structs; for memories and externs it is NOT enforced (C18_emit_perm_dupkeys_refuted, "
        "known finding), and the static helpers are not sorted at all (C18_helpers_refuted, known finding)",
        "C18_sym_shift / C18_names_depend_on_traversal_only quantify over strictly monotone / injective renumberings of "
        "the Sym ids: the relative creation order of the symbols of one session is fixed by the session itself",
        "find_all_subprocs' set-driven DFS is abstracted to 'an arbitrary enumeration of the reachable procedures'",
        "error message text (names listed in a SchedulingError, which proc a call-cycle error names) is outside the property",
    ]
    ck.cov["rule"] = ("scripted sessions (hand-written ones aimed at every classified site + progen/sched generated ones) x "
                      "variants (PYTHONHASHSEED x prior history x gc x module layout), byte comparison of str(p), "
                      "c_code_str(), compile_procs_to_strings; model/implementation correspondence on generated inputs")

    # ---------------------------------------------------------------- 2. correspondence
    rc, log = f_corr.result()
    if rc != 0 or not (cdir / "Cases.v").exists():
        ck.broken_obligation("correspondence:driver", "rc=%s %s" % (rc, log[-800:]))
    elif not (common.COQ / ENGINE / "ModelCheck.vo").exists():
        ck.broken_obligation("correspondence:not-run", "coq/Determ/ModelCheck.vo missing")
    else:
        cases = json.loads((cdir / "cases.json").read_text())
        rc, out = common.sh("timeout 600 coqc -Q %s Determ Cases.v" % (common.COQ / ENGINE), cwd=str(cdir), timeout=650)
        m = re.search(r"=\s*\[(.*?)\]\s*:\s*list bool", out, flags=re.S)
        vals = re.findall(r"true|false", m.group(1)) if m else []
        if rc != 0 or len(vals) != len(cases):
            ck.broken_obligation("correspondence:model-evaluation", "rc=%s, %d verdicts for %d cases: %s"
                                 % (rc, len(vals), len(cases), out[-600:]))
        else:
            for c, v in zip(cases, vals):
                ck.case("corr:" + c["stream"], c["term"], True, {"input": c["sample"]}, c["tag"])
                if v == "true":
                    ck.corr_agree("corr:" + c["stream"])
                else:
                    ck.corr_diverge("corr:" + c["stream"], {"case": c["term"], "input": c["sample"]})
            ck.log("correspondence: %d cases, %d agree" % (len(cases), vals.count("true")))

    # ---------------------------------------------------------------- 3. the sweep
    rec = f_rec.result()
    if "error" in rec:
        ck.broken_obligation("sweep:recorder", rec["error"][-800:])
        gen_ok = []
    else:
        gen_ok = []
        for g in gen:
            o = rec["sessions"].get(g["id"], {})
            if "err:session" in o:  # rejected by the front end (generator slip): not a session
                continue
            g["steps"] = o.get("steps", [])
            g["src"] = o["src"]
            gen_ok.append(g)
        ck.log("recorder: %d/%d generated sessions accepted, schedule lengths %s, %.0fs"
               % (len(gen_ok), len(gen), collections.Counter(len(g["steps"]) for g in gen_ok).most_common(), rec["wall"]))
        ck.cov["schedule_ops"] = dict(collections.Counter(s["op"] for g in gen_ok for s in g["steps"]))
        if len(gen_ok) < max(2, n_gen // 3):
            ck.broken_obligation("sweep:generator-collapse", "only %d of %d generated sessions usable" % (len(gen_ok), n_gen))
    sessions = hand + gen_ok

    hs_list = ["0", "1", "2", "3"] if quick else ["0", "1", "2", "3", "7", "17", "4242", "99991"]
    nproc2 = ck.n(100, 200)
    levels = [("none", {}), ("1e3", {"syms": 1000, "procs": ck.n(60, 100), "objects": 1000}),
              ("1e5", {"syms": 100000, "procs": nproc2, "objects": 100000})]
    variants = []
    for i, hs in enumerate(hs_list):
        for j, (pn, pre) in enumerate(levels):
            variants.append({"hs": hs, "pre_name": pn, "pre": pre, "gc": "off" if (i + j) % 2 else "on",
                             "layout": (i + (1 if j else 0)) % 2, "pre_k": 0})
    variants.append(dict(base_var, gc="off"))          # differs from the first variant in gc only
    variants.append(dict(base_var, layout=1))          # ... in the layout only
    if not quick:
        variants.append(dict(base_var, hs=hs_list[1]))     # ... in the hash seed only
        variants.append(dict(base_var, pre_name="1e3", pre=levels[1][1]))  # ... in the prior history only
    seen, uniq = set(), []
    for v in variants:
        k = json.dumps(v, sort_keys=True)
        if k not in seen:
            seen.add(k)
            uniq.append(v)
    variants = uniq
    t_sweep = time.time()
    futs = []
    for n, v in enumerate(variants):
        nm = "v%02d_hs%s_%s_gc%s_l%d" % (n, v["hs"], v["pre_name"], v["gc"], v["layout"])
        futs.append(pool.submit(run_child, nm, {"variant": v, "sessions": sessions}, v["hs"], ck.n(600, 2400)))
    results = [f.result() for f in futs]
    bad = [r for r in results if "error" in r]
    for r in bad[:3]:
        ck.broken_obligation("sweep:child:" + r["name"], r["error"][-600:])
    okr = [r for r in results if "error" not in r]
    ck.log("sweep: %d sessions x %d variants (%d failed to run), %.0fs; child wall times %s"
           % (len(sessions), len(variants), len(bad), time.time() - t_sweep, sorted(r["wall"] for r in okr)[-3:]))
    # a session that errors identically everywhere is a harness problem, not a pass
    if okr:
        errs = [s["id"] for s in sessions if "err:session" in okr[0]["sessions"].get(s["id"], {})]
        if errs:
            ck.broken_obligation("sweep:session-errors", "%s: %s %s" % (errs[:5], okr[0]["sessions"][errs[0]]["err:session"][:300],
                                                                        okr[0]["sessions"][errs[0]].get("_trace", "")[-400:]))
    nd = compare(ck, "sweep", sessions, results)
    ck.cov["sweep"] = {
        "sessions": len(sessions), "hand_written": [h["id"] for h in hand], "generated": len(gen_ok),
        "variants": len(variants), "hash_seeds": hs_list, "prior_histories": [l[0] for l in levels],
        "evaluations": len(sessions) * len(okr), "differences": nd,
    }

    # ---------------------------------------------------------------- 3b. Sym-counter digit boundaries
    boundary_compare(ck, f_bnd.result())

    # ---------------------------------------------------------------- 4. witnesses of the known defects
    wres = {"hashseed": [], "prior-history": []}
    for f, fu in wjobs:
        r = fu.result()
        if "error" in r:
            ck.broken_obligation("witness:child:" + r["name"], r["error"][-400:])
        else:
            wres[f].append(r)
    base = [r for r in wres["hashseed"] if r["variant"]["hs"] == "0"]
    wres["prior-history"] = base + wres["prior-history"]
    wstat = {}
    for f in ("hashseed", "prior-history"):
        before = len(ck.violations) + len(ck.known_seen)
        compare(ck, "witness:" + f, wit, wres[f])
        for w in wit:
            outs = [json.dumps({k: v for k, v in r["sessions"].get(w["id"], {}).items() if not k.startswith("_")}, sort_keys=True)
                    for r in wres[f]]
            wstat["%s/%s" % (w["id"], f)] = "%d distinct outputs over %d interpreters" % (len(set(outs)), len(outs))
    ck.cov["witnesses"] = wstat
    ck.log("witnesses: %s" % wstat)
    pool.shutdown(wait=False)
