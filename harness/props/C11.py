"""C11 — procedure-equivalence tracking is the closure of the recorded steps, per configuration field.

Proof: coq/Eqv (Model.v = hand-written model of src/exo/core/proc_eqv.py, Spec.v, Props_C11.v).
Tie to /repo: differential execution of the extracted model (coq/Eqv/_build/eqv_driver) and the
real module (harness/c11_impl.py, harness/c11_api.py) on generated call sequences.
Search: the reference closure harness/c11_oracle.py (BFS, same definition as Spec.v) against the
real module, on the generated sequences and exhaustively over short histories.
"""
from __future__ import annotations

import hashlib
import json
import os
import subprocess
import time

import common
from common import sexp
import c11_oracle as orc

ENGINE = "Eqv"
HARNESS = common.VERIF / "harness"
DRIVER = common.COQ / ENGINE / "_build" / "eqv_driver"
KEYS = [1, 2, 3, 4, 5]          # pool of configuration keys; 4 and 5 are "late" keys

# the witness of Theorem C11_singlepath_refuted (by-design intersection law), replayed on the real module
WITNESS = [["decl", 1], ["derive", 1, 2, [1]], ["derive", 1, 3, [2]], ["assert", 2, 3, []],
           ["check", 1, 2, []], ["strictest", 1, 2]]


# --------------------------------------------------------------------------- generators
def gen_history(rng, malformed: bool):
    """One call sequence: interleaved creation, derivation with random mod-sets (keys 4,5 only after a
    random point), assert_eqv, explicit key creation, threaded queries, drops; after every
    state-changing call a full answer sweep and a state dump."""
    length = rng.randint(5, 16) if rng.random() < 0.85 else rng.randint(20, 45)
    late_at = rng.randint(length // 3, max(length // 3, length - 2))
    live, dropped, nxt = [], set(), 1
    items, tags = [], set()

    def K(t, p_empty):
        avail = KEYS[:3] + (KEYS[3:] if t >= late_at else [])
        if rng.random() < p_empty:
            return []
        ks = sorted(rng.sample(avail, rng.randint(1, min(3, len(avail)))))
        if any(k > 3 for k in ks):
            tags.add("late-key")
        return ks

    def ghost():
        return nxt + 20 + rng.randint(0, 2)      # never declared

    def after_change():
        procs = live[-6:] + ([ghost()] if malformed and rng.random() < 0.3 else [])
        items.append(["sweep", procs, KEYS])
        items.append(["dump"])

    for t in range(length):
        r = rng.random()
        if not live or r < 0.12:
            if live and rng.random() < 0.15:
                items.append(["decl", rng.choice(live)])          # re-declaration: no-op
                tags.add("redecl")
            else:
                items.append(["decl", nxt]); live.append(nxt); nxt += 1
            after_change()
        elif r < 0.47:
            orig = rng.choice(live)
            if malformed and rng.random() < 0.2:
                orig = ghost(); tags.add("derive-undeclared")
            if len(live) > 1 and rng.random() < 0.07:
                new = rng.choice(live); tags.add("derive-onto-existing")
            else:
                new = nxt; live.append(nxt); nxt += 1
            items.append(["derive", orig, new, K(t, 0.35)])
            after_change()
        elif r < 0.66 and len(live) >= 2:
            p, q = rng.choice(live), rng.choice(live)
            if malformed and rng.random() < 0.3:
                q = ghost(); tags.add("assert-undeclared")
            items.append(["assert", p, q, K(t, 0.6)])
            after_change()
        elif r < 0.70:
            k = rng.choice(KEYS[:3] + (KEYS[3:] if t >= late_at else []))
            items.append(["newkey", k]); tags.add("newkey")
            after_change()
        elif r < 0.82:
            p, q = rng.choice(live), rng.choice(live)
            if malformed and rng.random() < 0.3:
                p = ghost()
            items.append(["check", p, q, K(t, 0.4)])
        elif r < 0.89:
            p, q = rng.choice(live), rng.choice(live)
            if malformed and rng.random() < 0.3:
                q = ghost()
            items.append(["strictest", p, q])
        elif r < 0.93:
            items.append(["repr", ghost() if malformed and rng.random() < 0.3 else rng.choice(live)])
        elif len(live) > 2:
            p = rng.choice(live)
            live.remove(p); dropped.add(p)
            items.append(["drop", p]); tags.add("drop")
            after_change()
    if malformed:
        tags.add("malformed")
    return items, sorted(tags), dropped


def compact(items, upto=None):
    """Readable one-line form of the state-changing part of a job (used in violation keys)."""
    out = []
    for it in items[: (upto + 1) if upto is not None else None]:
        op = it[0]
        if op == "decl":
            out.append("d%d" % it[1])
        elif op == "derive":
            out.append("D%d>%d{%s}" % (it[1], it[2], ",".join(map(str, it[3]))))
        elif op == "assert":
            out.append("A%d~%d{%s}" % (it[1], it[2], ",".join(map(str, it[3]))))
        elif op == "newkey":
            out.append("k%d" % it[1])
        elif op == "check":
            out.append("c%d?%d{%s}" % (it[1], it[2], ",".join(map(str, it[3]))))
        elif op == "strictest":
            out.append("s%d?%d" % (it[1], it[2]))
        elif op == "repr":
            out.append("r%d" % it[1])
        elif op == "drop":
            out.append("x%d" % it[1])
    return ";".join(out)


def job_line(jid, items):
    return sexp(["job", jid] + [[it[0]] + [x if not isinstance(x, list) else list(x) for x in it[1:]] for it in items])


# --------------------------------------------------------------------------- drivers
def run_model(lines):
    p = subprocess.run([str(DRIVER)], input="\n".join(lines) + "\n", stdout=subprocess.PIPE,
                       stderr=subprocess.PIPE, text=True, timeout=900)
    if p.returncode != 0:
        raise RuntimeError("model driver failed: " + p.stderr[-400:])
    return {l.split(" ", 1)[0]: l.split(" ")[1:] for l in p.stdout.splitlines() if l.strip()}


def run_impl(lines, timeout=1500, workers=1):
    """The same jobs on the real module; `workers` > 1 splits the jobs over parallel subprocesses."""
    workers = max(1, min(workers, len(lines) // 50 or 1))
    chunks = [lines[i::workers] for i in range(workers)]
    ps = [subprocess.Popen([common.PY, str(HARNESS / "c11_impl.py"), "run"], stdin=subprocess.PIPE,
                           stdout=subprocess.PIPE, stderr=subprocess.PIPE, text=True, env=common.exo_env())
          for _ in chunks]
    import threading
    res = [None] * len(ps)

    def feed(i):
        try:
            res[i] = ps[i].communicate("\n".join(chunks[i]) + "\n", timeout=timeout)
        except subprocess.TimeoutExpired:
            ps[i].kill()
            res[i] = ("", "timeout")

    ths = [threading.Thread(target=feed, args=(i,)) for i in range(len(ps))]
    [t.start() for t in ths]
    [t.join() for t in ths]
    out, stats = {}, {}
    for p, (so, se) in zip(ps, res):
        if p.returncode != 0:
            raise RuntimeError("implementation driver failed: " + se[-600:])
        for l in so.splitlines():
            if l.startswith("#stats"):
                for kv in l.split()[1:]:
                    k, v = kv.split("=")
                    stats[k] = str(int(stats.get(k, 0)) + int(v))
            elif l.strip():
                out[l.split(" ", 1)[0]] = l.split(" ")[1:]
    return out, stats


def strip_dump(tok, dropped):
    """Dump tokens without the entries of dropped procedures (the implementation's maps are weak;
    whether a dropped node is still present depends on who points to it)."""
    if not dropped or not tok.startswith("D:"):
        return tok
    parts = []
    for part in tok[2:].split(";"):
        name, _, ents = part.partition("=")
        if name == "ord":
            parts.append(part)
            continue
        keep = [e for e in ents.split(",") if e and int(e.split(">")[0]) not in dropped]
        parts.append(name + "=" + ",".join(keep))
    return "D:" + ";".join(parts)


# --------------------------------------------------------------------------- comparison
class Tally:
    def __init__(self):
        self.answers = 0
        self.state_same = 0
        self.state_diff = 0
        self.state_diff_example = None
        self.true_answers = 0
        self.false_answers = 0
        self.errors = 0
        self.repr_same = 0
        self.repr_diff = 0


def judge(ck, stream, jid, items, model, impl, dropped, tally, shrinkable=True):
    """Compare one job: model vs implementation (correspondence) and closure vs implementation (search)."""
    agree = True
    if len(model) != len(items) or len(impl) != len(items):
        ck.corr_diverge(stream, {"job": jid, "what": "token count", "items": len(items),
                                 "model": len(model), "impl": len(impl)})
        return False
    want = orc.expect_tokens(items)
    hist = []
    dropped_so_far = set()
    for i, it in enumerate(items):
        m, g, w = model[i], impl[i], want[i]
        if it[0] == "drop":
            dropped_so_far.add(it[1])
        if it[0] == "dump":
            # representation: informational only (a refactoring of the union-find is not a defect)
            if strip_dump(m, dropped_so_far) == strip_dump(g, dropped_so_far):
                tally.state_same += 1
            else:
                tally.state_diff += 1
                if tally.state_diff_example is None:
                    tally.state_diff_example = {"job": jid, "at": compact(items, i), "model": m, "impl": g}
            continue
        if it[0] == "sweep":
            tally.answers += len(g)
            tally.true_answers += g.count("T")
            tally.false_answers += g.count("F")
            tally.errors += g.count("E")
        elif it[0] in ("check", "strictest"):
            tally.answers += 1
        # search oracle: closure vs implementation
        bad = None
        if w is not None and g != w:
            bad = "closure predicts %s, implementation answered %s" % (w[:80], g[:80])
        elif it[0] == "repr" and w is None:
            hist_now, _ = orc.effective(items[:i])
            if not (g.startswith("P:") and orc.repr_ok(hist_now, it[1], int(g[2:]))):
                bad = "get_repr_proc returned %s, not connected to %d by unconditional steps" % (g, it[1])
        if bad:
            report(ck, stream, jid, items, i, g, w, bad, shrinkable)
            agree = False
            break
        # correspondence: model vs implementation.  Which member of the class get_repr_proc returns is
        # representation (union direction); both answers were just checked against the closure.
        if it[0] == "repr" and m.startswith("P:") and g.startswith("P:"):
            if m == g:
                tally.repr_same += 1
            else:
                tally.repr_diff += 1
            continue
        if m != g:
            ck.corr_diverge(stream, {"job": jid, "at": compact(items, i), "item": it[:1], "model": m[:120],
                                     "impl": g[:120]})
            agree = False
            break
    if agree:
        ck.corr_agree(stream)
    return agree


def first_diff(a, b):
    for i, (x, y) in enumerate(zip(a, b)):
        if x != y:
            return i
    return min(len(a), len(b))


def wrong_last(c, got):
    """Does the last item of candidate job c still get an answer the closure rejects (all earlier
    items answered as predicted)?"""
    want = orc.expect_tokens(c)
    if not got or len(got) != len(c):
        return False
    if not all(w is None or g == w for g, w in zip(got[:-1], want[:-1])):
        return False
    if c[-1][0] == "repr" and want[-1] is None:
        hist, _ = orc.effective(c[:-1])
        return not (got[-1].startswith("P:") and orc.repr_ok(hist, c[-1][1], int(got[-1][2:])))
    return want[-1] is not None and got[-1] != want[-1]


SHRINK_DEADLINE = [None]


def shrink(items, idx):
    """Greedy deletion of calls that are not needed for the closure/implementation disagreement
    (at most 60 s per run are spent on shrinking)."""
    cur = [it for it in items[: idx + 1] if it[0] != "dump"]
    if SHRINK_DEADLINE[0] is None:
        SHRINK_DEADLINE[0] = time.time() + 60
    for _ in range(12):
        if time.time() > SHRINK_DEADLINE[0]:
            break
        cands = [cur[:i] + cur[i + 1:] for i in range(len(cur) - 1)]
        if not cands:
            break
        lines = [job_line("s%d" % n, c) for n, c in enumerate(cands)]
        try:
            out, _ = run_impl(lines, timeout=300)
        except Exception:
            break
        ok = [c for n, c in enumerate(cands) if wrong_last(c, out.get("s%d" % n))]
        if not ok:
            break
        # prefer dropping from the front: keeps the late, interesting part
        cur = ok[0]
        # several independent deletions at once when possible
        for c in ok[1:]:
            both = [it for it in cur if it in c or it is cur[-1]]
            if len(both) < len(cur):
                try:
                    o2, _ = run_impl([job_line("b", both)], timeout=300)
                except Exception:
                    break
                if wrong_last(both, o2.get("b")):
                    cur = both
                break
    return cur


def report(ck, stream, jid, items, idx, got, want, what, shrinkable):
    st = ck.stream(stream)
    st["closure_failures"] = st.get("closure_failures", 0) + 1
    if st["closure_failures"] > 2:          # two shrunk replays per stream are enough
        return
    small = shrink(items, idx) if shrinkable else [it for it in items[: idx + 1] if it[0] != "dump"]
    op = items[idx][0]
    fn = {"check": "check_eqv_proc", "strictest": "get_strictest_eqv_proc", "sweep": "check_eqv_proc/get_strictest_eqv_proc",
          "repr": "get_repr_proc", "derive": "derive_proc", "assert": "assert_eqv_proc", "decl": "decl_new_proc",
          "newkey": "new_uf_by_eqv_key"}.get(op, op)
    key = "proc_eqv.%s:%s:%s" % (fn, stream, compact(small))
    detail = None
    try:                                   # answers for the (shrunk) replay itself
        out, _ = run_impl([job_line("v", small)], timeout=300)
        g = out.get("v", [""])[-1]
        w = orc.expect_tokens(small)[-1]
        got, want = g, w
        if w is not None:
            what = "closure predicts %s, implementation answered %s" % (w[:80], g[:80])
        elif small[-1][0] == "repr":
            what = "get_repr_proc(%d) returned %s, not connected to it by unconditional (K={}) steps" % (small[-1][1], g)
    except Exception:
        g = w = ""
    if small and small[-1][0] == "sweep" and g and w:
        # name the first wrong query of the sweep
        procs, keys = small[-1][1], small[-1][2]
        subs = orc.subsets(keys)
        d = first_diff(g, w) - 2
        n = len(procs)
        if 0 <= d < n * n * len(subs):
            pi, rest = divmod(d, n * len(subs))
            qi, si = divmod(rest, len(subs))
            detail = {"query": "check_eqv_proc(%d, %d, %s)" % (procs[pi], procs[qi], list(subs[si])),
                      "implementation": g[d + 2], "closure": w[d + 2]}
        elif "|" in g and "|" in w:
            gs, ws = g.split("|")[1].split(";"), w.split("|")[1].split(";")
            for j, (a, b) in enumerate(zip(gs, ws)):
                if a != b and j < n * n:
                    detail = {"query": "get_strictest_eqv_proc(%d, %d)" % (procs[j // n], procs[j % n]),
                              "implementation": a, "closure": b}
                    break
    ck.violation(key, {
        "stream": stream, "job": jid,
        "calls": small, "calls_compact": compact(small),
        "implementation": got[:400], "closure": (want or "")[:400], "first_wrong_query": detail,
        "rerun": "echo '%s' | PYTHONPATH=%s/src:%s %s %s run" % (
            job_line("replay", small), common.REPO, HARNESS, common.PY, HARNESS / "c11_impl.py"),
    }, what)


# --------------------------------------------------------------------------- streams
def raw_streams(ck, tally):
    n_valid = ck.n(300, 4000)
    n_mal = ck.n(100, 1200)
    jobs = {}
    lines = []
    for stream, n, mal in (("raw-valid", n_valid, False), ("raw-malformed", n_mal, True)):
        for i in range(n):
            items, tags, dropped = gen_history(ck.rng, mal)
            jid = "%s%d" % ("m" if mal else "v", i)
            jobs[jid] = (stream, items, tags, dropped)
            lines.append(job_line(jid, items))
    jobs["w0"] = ("witness", WITNESS, ["singlepath-witness"], set())
    lines.append(job_line("w0", WITNESS))
    t0 = time.time()
    model = run_model(lines)
    t1 = time.time()
    impl, stats = run_impl(lines, workers=ck.n(4, 8))
    ck.log("raw streams: %d jobs; model %.1fs, implementation %.1fs; gc: %s" % (len(lines), t1 - t0, time.time() - t1, stats))
    for jid, (stream, items, tags, dropped) in jobs.items():
        hist, _ = orc.effective(items)
        steps = [e for e in hist if e[0] == "step"]
        nontrivial = len(steps) >= 2 and any(e[3] for e in steps)
        ck.case(stream, compact(items), nontrivial,
                sample={"calls": compact(items), "model": [t[:60] for t in model.get(jid, [])[:8]]},
                tag=",".join(tags) or "plain")
        judge(ck, stream, jid, items, model.get(jid, []), impl.get(jid, []), dropped, tally)
    ck.stream("raw-valid")["gc"] = stats
    w = impl.get("w0", [])
    ck.cov["singlepath_witness_on_real_module"] = {
        "calls": compact(WITNESS), "check_eqv_proc(1,2,{})": w[4] if len(w) > 4 else None,
        "get_strictest_eqv_proc(1,2)": w[5] if len(w) > 5 else None,
        "note": "per-field answer is yes although no single chain of steps stays inside K={} "
                "(Theorem C11_singlepath_refuted; by-design intersection law of proc_eqv.py)"}


def api_stream(ck, tally):
    nscripts, nactions = ck.n(20, 160), ck.n(25, 35)
    workers = ck.n(2, 8)
    env = common.exo_env()
    t0 = time.time()
    ps = [subprocess.Popen([common.PY, str(HARNESS / "c11_api.py"), str((ck.seed + 7919 * w) % 100000),
                            str(nscripts // workers), str(nactions), "a%d_" % w],
                           stdout=subprocess.PIPE, stderr=subprocess.PIPE, text=True, env=env) for w in range(workers)]
    stdout = ""
    for p in ps:
        try:
            so, se = p.communicate(timeout=1500)
        except subprocess.TimeoutExpired:
            p.kill()
            so, se = "", "timeout"
        if p.returncode != 0:
            ck.broken_obligation("correspondence:api", "c11_api.py failed: " + se[-600:])
            return
        stdout += so
    p = None
    jobs, toks, acts, shapes = {}, {}, {}, []
    for l in stdout.splitlines():
        if l.startswith("job "):
            sx = common.parse_sexp(l[4:])
            jobs[sx[1]] = (l[4:], sx[2:])
        elif l.startswith("tok "):
            parts = l.split(" ")
            toks[parts[1]] = parts[2:]
        elif l.startswith("act "):
            _, sid, js = l.split(" ", 2)
            acts[sid] = json.loads(js)
        elif l.startswith("!shape "):
            _, sid, js = l.split(" ", 2)
            shapes.append((sid, json.loads(js)))
    model = run_model([jl for jl, _ in jobs.values()])
    ck.log("api stream: %d scripts x %d actions in %.1fs" % (nscripts, nactions, time.time() - t0))

    def conv(x):
        if isinstance(x, list):
            return [conv(y) for y in x]
        return int(x) if x.lstrip("-").isdigit() else x

    kinds = {}
    for sid, (jl, raw_items) in jobs.items():
        items = [conv(it) for it in raw_items]
        for a in acts.get(sid, []):
            if a and a[0] != "collected":
                k = a[0] + ("!" if any(str(x).startswith("raised") for x in a) else "")
                kinds[k] = kinds.get(k, 0) + 1
        hist, _ = orc.effective(items)
        steps = [e for e in hist if e[0] == "step"]
        ck.case("api", compact(items), len(steps) >= 3 and any(e[3] for e in steps),
                sample={"actions": acts.get(sid, [])[:10], "calls": compact(items)[:300]},
                tag="keys=%d" % len(orc.mentioned_keys(hist)))
        judge(ck, "api", sid, items, model.get(sid, []), toks.get(sid, []), set(), tally, shrinkable=False)
    ck.stream("api")["actions"] = kinds
    for sid, sh in shapes:
        ck.violation("api-shape:%s" % sh["action"], {"script": sid, "shape": sh, "actions": acts.get(sid)},
                     "API action %s recorded %s, expected %s" % (sh["action"], sh["recorded"], sh["expected"]))


def search(ck):
    """Exhaustive histories against the closure (in the implementation's process)."""
    if ck.thorough:
        configs = [(5, 4, 2, 0, 8), (6, 4, 2, 1, 16), (7, 3, 2, 1, 16)]
    else:
        configs = [(4, 4, 2, 0, 1), (5, 4, 2, 1, 4)]
    env = common.exo_env()
    procs = []
    for depth, npr, nk, red, nsh in configs:
        for sh in range(nsh):
            procs.append(((depth, npr, nk, red, nsh, sh),
                          [common.PY, str(HARNESS / "c11_impl.py"), "search"] +
                          [str(x) for x in (depth, npr, nk, red, sh, nsh)]))
    results = {}
    running = []
    t0 = time.time()
    maxpar = max(2, min(12, (os.cpu_count() or 4) - 2))
    todo = list(procs)
    while todo or running:
        while todo and len(running) < maxpar:
            cfg, cmd = todo.pop(0)
            running.append((cfg, subprocess.Popen(cmd, stdout=subprocess.PIPE, stderr=subprocess.PIPE, text=True, env=env)))
        cfg, p = running.pop(0)
        try:
            out, err = p.communicate(timeout=1500)
        except subprocess.TimeoutExpired:
            p.kill()
            out, err = "", "timeout"
        if p.returncode != 0 or not out.strip():
            ck.broken_obligation("search:%s" % (cfg,), "search worker failed: " + err[-400:])
            continue
        results[cfg] = json.loads(out.strip().splitlines()[-1])
    summary = []
    total_h = total_a = 0
    for depth, npr, nk, red, nsh in configs:
        rs = [results[c] for c in results if c[:5] == (depth, npr, nk, red, nsh)]
        h = sum(r["histories"] for r in rs)
        a = sum(r["answers"] for r in rs)
        total_h += h
        total_a += a
        complete = len(rs) == nsh
        summary.append({"max_calls": depth, "procedures": npr, "keys": nk, "symmetry_reduced": bool(red),
                        "histories": h, "answers_checked": a, "exhaustive": complete})
        for r in rs:
            for v in r["violations"]:
                items = v["history"]
                key = "proc_eqv.search:%s" % compact(items)
                ck.violation(key, {"calls": items, "calls_compact": compact(items), "implementation": v["got"][:400],
                                   "closure": v["want"][:400], "procs": v.get("procs"), "keys": v.get("keys")},
                             "closure and implementation disagree after %s" % compact(items))
    ck.cov["search"] = {"configs": summary, "histories": total_h, "answers_checked": total_a,
                        "wall_s": round(time.time() - t0, 1)}
    st = ck.stream("search-exhaustive")
    st["cases"] = total_h
    st["agree"] = total_h - sum(len(r["violations"]) for r in results.values())
    ck.cov["evaluations"] += total_h
    ck.log("search: %d histories, %d answers vs closure in %.1fs: %s" % (total_h, total_a, time.time() - t0,
                                                                         [(s["max_calls"], s["histories"]) for s in summary]))


# --------------------------------------------------------------------------- entry
def run(ck: common.Check):
    ok = ck.coq_build(ENGINE, timeout=900)
    if ok and ck.print_assumptions.get("closed_count", "0") == "0":
        ck.assumptions_from_vo(ENGINE, "Props_C11")
    if not ck.extract(ENGINE):
        ck.log("no model driver: correspondence cannot run")
    tally = Tally()
    if DRIVER.exists():
        raw_streams(ck, tally)
        api_stream(ck, tally)
    else:
        ck.broken_obligation("correspondence:model-driver", "eqv_driver missing")
    search(ck)

    ck.cov["answers_compared"] = tally.answers
    ck.cov["answer_distribution"] = {"true": tally.true_answers, "false": tally.false_answers,
                                     "keyerror": tally.errors}
    ck.cov["state_exact"] = {"dumps_identical": tally.state_same, "dumps_different": tally.state_diff,
                             "first_difference": tally.state_diff_example,
                             "get_repr_proc_same_representative": tally.repr_same,
                             "get_repr_proc_other_representative": tally.repr_diff,
                             "note": "informational: parent maps of every union-find (incl. path splitting and "
                                     "creation order of the per-key copies) compared after every state change"}
    if tally.state_diff:
        ck.log("NOTE: internal parent maps differ from the model in %d/%d dumps while answers agree "
               "(representation changed?)" % (tally.state_diff, tally.state_diff + tally.state_same))
    if tally.answers and (tally.true_answers == 0 or tally.false_answers == 0):
        ck.broken_obligation("harness:degenerate-distribution", "answers are all-true or all-false")
    ck.cov["rule"] = (
        "raw streams: random call sequences of 5-16 (15%: 20-45) calls on exo.core.proc_eqv with fresh module state "
        "(decl_new_proc, derive_proc/assert_eqv_proc with random mod-sets over 5 keys of which 2 become "
        "eligible only late, new_uf_by_eqv_key, threaded check/strictest/repr queries, gc of dropped "
        "procedures; malformed stream adds never-declared procedures); after every state change ALL ordered "
        "pairs of up to 6 live procedures x ALL 32 subsets K (check_eqv_proc) and get_strictest_eqv_proc are "
        "compared between extracted Coq model, real module and BFS closure.  api stream: real @proc "
        "procedures scheduled with bind_config/write_config/delete_config/call_eqv/rename/simplify, "
        "unsafe_assert_eq, is_eq, partial_eval/add_assertion/transpose (new origins), drops; calls into proc_eqv observed by "
        "wrapping.  search: every history up to the stated length (procedures named in order of "
        "declaration) checked against the closure.  A case is one call sequence, distinct by its compact "
        "text, non-trivial when it records >= 2 steps (>= 3 for api) and at least one non-empty mod-set.")
    ck.cov["trusted_base"] = [
        "Coq 8.16.1 kernel (coqc, full .vo build; vm_compute in C11_singlepath_refuted and the Examples)",
        "stdlib only: Coq.FSets.FMapPositive (PositiveMap), Relations, Lists; no axioms (Print Assumptions: closed)",
        "hand-written model coq/Eqv/Model.v of proc_eqv.py: agreement with the code is sampled, not proved",
        "extraction (ExtrOcamlBasic only) + OCaml 4.13.1 + coq/Eqv/driver.ml (120 lines: s-expression reader, printers, sweep)",
        "harness/c11_impl.py, c11_api.py (drivers of the real module; wrapping of API.py's imported names), "
        "c11_oracle.py (BFS closure, 20 lines core), props/C11.py (generators, comparison)",
        "CPython 3.12 WeakKeyDictionary / gc semantics (exercised by drops, not modelled)",
    ]
    ck.assumptions[:] = [
        "procedures are compared by identity and hashed by id (LoopIR.proc.__hash__ = id; attrs' structural __eq__ is "
        "only consulted on equal hashes): modelled as equality of positive ids",
        "a procedure that is still referenced is never removed from the weak maps (children keep parents alive: "
        "WeakKeyDictionary values are strong references)",
        "exceptions: a call whose procedures are not all declared raises KeyError and records no step; "
        "theorems quantify over all call sequences including such calls (history_of drops them)",
        "the per-field reading of 'equivalent modulo K' (conn_all and conn_k for every k outside K); the "
        "single-chain reading is proved only for histories without assert_eqv_proc (C11_singlepath_partial) and "
        "refuted in general (C11_singlepath_refuted, reproduced on the real module)",
        "which scheduling operations report which mod-sets is property C10's concern; here mod-sets are inputs",
        "Procedure.is_eq always returns False (bool == frozenset()); it calls check_eqv_proc, whose answer is what is checked",
    ]
