"""C12 — simplify preserves the value of every index expression.

  1. full Coq build of coq/Simplify (Model.v, Proofs*.v, Props_C12.v) + OCaml extraction of the model
  2. correspondence  model (extracted OCaml)  <->  real exo.rewrite.LoopIR_scheduling._DoNormalize / DoSimplify:
        src / inline : generated Exo source through the real @proc (and `inline`), then the real `simplify`
        ir           : LoopIR built directly (distinct Syms sharing a name, shared srcinfo objects), real `simplify`
        unit:*       : index_start under explicit range environments, DoSimplify.map_e under explicit facts,
                       str(a)==str(b), _fact_key(a)==_fact_key(b), constant_bound / add_loop_iter on / and % expressions
        range:*      : every call the real simplify made to constant_bound / IndexRangeEnvironment.add_loop_iter on the
                       generated programs (recorded by in-process wrappers) replayed in the model
        malformed    : divisors 0 / negative / non-literal, non-affine products (the front end must reject them:
                       they are outside the model's domain, guard 0 < c)
     every index / bound / size / condition expression of the result (with node types and srcinfo identities) is
     compared with the model's output, structurally.
  3. failing-input search (always, it is cheap): for each (before, after) pair taken from the REAL simplify output
     the two procedures are transliterated to Python and executed on every valuation of the box
     (sizes 1..6, index arguments -8..24, config fields 0..3, bools) admitted by the assertions; the traces of all
     index / bound / size / condition values must coincide (c12_oracle.py).  Oracle = integer arithmetic.
"""
import json
import os
import subprocess
import sys
import time

import common
from common import COQ, PY, SCRATCH, VERIF, exo_env, sh

sys.path.insert(0, os.path.dirname(os.path.dirname(os.path.abspath(__file__))))
import c12_findings  # noqa: E402

ENGINE = "Simplify"
DRIVER = COQ / ENGINE / "_build" / "c12_driver"


def driver_stale() -> bool:
    if not DRIVER.exists():
        return True
    t = DRIVER.stat().st_mtime
    deps = [COQ / ENGINE / "Model.v", COQ / ENGINE / "extract" / "driver.ml", COQ / ENGINE / "extract" / "Extract.v"]
    return any(d.stat().st_mtime > t for d in deps)


def run(ck: common.Check):
    have = {f.get("id") for f in ck.known}
    ck.known.extend(f for f in c12_findings.FINDINGS if f["id"] not in have)

    # ------------------------------------------------------------------ 1. proofs + extraction
    ck.coq_build(ENGINE, timeout=1200)
    if driver_stale():
        ck.extract(ENGINE)
    ck.obligation("extraction-build:" + ENGINE, DRIVER.exists(), "" if DRIVER.exists() else "driver missing")
    if not DRIVER.exists():
        return

    # ------------------------------------------------------------------ 2+3. workers (implementation side)
    out = common.scratch_dir("c12_run")
    nw = ck.n(8, 14)
    per = {"nsrc": ck.n(22, 200), "ninline": ck.n(8, 70), "nir": ck.n(30, 450), "nunit": ck.n(260, 4000),
           "nmal": ck.n(3, 12), "cap": ck.n(1200, 4000), "budget": ck.n(55, 560)}
    procs = []
    t0 = time.time()
    for w in range(nw):
        cmd = [PY, str(VERIF / "harness" / "c12_impl.py"), "--seed", str(ck.seed), "--worker", str(w), "--out", str(out)]
        for k, v in per.items():
            cmd += ["--" + k, str(v)]
        procs.append(subprocess.Popen(cmd, env=exo_env(), stdout=subprocess.PIPE, stderr=subprocess.STDOUT, text=True,
                                      cwd=str(VERIF)))
    budget = ck.n(100, 760)
    for w, p in enumerate(procs):
        try:
            o, _ = p.communicate(timeout=max(0.3, budget - (time.time() - t0)))
        except subprocess.TimeoutExpired:
            p.kill()
            o, _ = p.communicate()
            o += "\n[timeout]"
        if "[timeout]" in o:
            ck.log("worker %d stopped by the wall-clock budget (its completed cases are used)" % w)
        elif p.returncode != 0:
            ck.broken_obligation("impl-worker-%d" % w, o[-600:])
            ck.log("worker %d failed: %s" % (w, o[-400:]))
    ck.log("implementation side: %d workers, %.1fs" % (nw, time.time() - t0))

    # ------------------------------------------------------------------ model side + comparison
    t0 = time.time()
    dist = {}
    bf_vals = bf_entries = nviol = 0
    for w in range(nw):
        jf, cf = out / ("jobs_%d.sexp" % w), out / ("cases_%d.jsonl" % w)
        if not (jf.exists() and cf.exists()):
            continue
        jtxt = jf.read_text()
        jtxt = jtxt[: jtxt.rfind("\n") + 1]  # a killed worker may leave an incomplete last line
        rc, mo = sh([str(DRIVER)], timeout=600, input=jtxt)
        outs = mo.splitlines()
        recs = []
        for l in cf.read_text().splitlines():
            try:
                recs.append(json.loads(l))
            except ValueError:
                break
        k = 0
        for r in recs:
            st = r["stream"]
            tag = ",".join(r.get("tags", [])) or None
            if r.get("nojob"):
                if st == "malformed":
                    ck.case(st, r.get("sample"), True, {"source": r.get("sample"), "rejected": r.get("rejected"),
                                                        "error": r.get("err")}, "rejected" if r.get("rejected") else "ACCEPTED")
                    if r.get("rejected"):
                        ck.corr_agree(st)
                    else:
                        ck.corr_diverge(st, {"source": r.get("sample"),
                                             "detail": "the front end accepted an expression outside the model's domain"})
                elif r.get("corpus_error"):
                    ck.broken_obligation("corpus:" + str(r.get("sample")), r.get("err", ""))
                else:
                    d = ck.stream(st + ":not-run")
                    d["cases"] += 1
                    why = "front-end-reject" if r.get("rejected") else (r.get("skip") or r.get("err") or "?")[:40]
                    d["distribution"][why] = d["distribution"].get(why, 0) + 1
                continue
            if k >= len(outs):
                break
            model = outs[k]
            k += 1
            for t in r.get("tags", []):
                dist[(st, t)] = dist.get((st, t), 0) + 1
            sample = {"input": (r.get("sample") or "")[-300:], "real": r["expect"][:300], "model": model[:300]}
            ck.case(st, r["expect"] + "|" + (r.get("sample") or ""), r.get("changed", True), sample,
                    "crash" if r["expect"] == "crash" else ("changed" if r.get("changed", True) else "unchanged"))
            if model == r["expect"]:
                ck.corr_agree(st)
            else:
                ck.corr_diverge(st, {"input": r.get("sample"), "real": r["expect"][:1500], "model": model[:1500],
                                     "exception": r.get("exc")})
            bf = r.get("bf") or {}
            bf_vals += bf.get("valuations", 0)
            bf_entries += bf.get("entries", 0)
            if r.get("violation"):
                v = r["violation"]
                nviol += 1
                if len(ck.violations) < 12:  # every failing input is counted, the first dozen distinct ones are replayed
                    ck.violation(v["key"], v["replay"], v["what"])
    ck.log("model side + diff: %.1fs" % (time.time() - t0))
    for st, d in sorted(ck.streams.items()):
        ck.log("stream %-18s cases %5d agree %5d diverge %3d  %s" % (st, d["cases"], d["agree"], d["diverge"],
                                                                     dict(sorted(d["distribution"].items())[:6])))
    ck.cov["search"] = {"oracle": "brute-force integer arithmetic (c12_oracle.py)", "valuations": bf_vals,
                        "failing_inputs": nviol,
                        "trace_entries_compared": bf_entries,
                        "feature_counts": {"%s/%s" % k: v for k, v in sorted(dist.items())}}
    ck.log("search: %d valuations, %d trace entries compared" % (bf_vals, bf_entries))
    # a stream that collapsed is a harness failure, not a pass
    for st, need in (("src", 20), ("ir", 20), ("unit:index_start", 20), ("unit:simp_e", 20), ("unit:cbound", 20),
                     ("range:loopiter", 20)):
        if ck.stream(st)["cases"] < need:
            ck.broken_obligation("stream-collapsed:" + st, "only %d cases" % ck.stream(st)["cases"])

    # ------------------------------------------------------------------ 4. evidence
    ck.cov["rule"] = (
        "theorems (coq/Simplify/Props_C12.v, unbounded Z): index_start / norm_e preserve the value of every index "
        "expression under every valuation admitted by the range environment; DoSimplify.map_e preserves it under every "
        "valuation satisfying the recorded facts (operands of and/or boolean, as exo's typing guarantees); a branch is "
        "dropped only when its condition has a constant value, a loop only when hi = lo; the whole-procedure traversal "
        "(_DoNormalize then DoSimplify) preserves the trace of all index / bound / size / condition values.  Cases: a case is "
        "counted non-trivial when the real code changed its input (rewrote an expression / removed a statement; for "
        "str/_fact_key comparisons: when the two expressions are identified), distinct by (input, output).  Correspondence: "
        "model output == real output (structural, incl. node types and srcinfo identities) on generated procedures "
        "(source text through the real front end, inlined callees, direct LoopIR with colliding names) and on unit "
        "calls.  Search: exhaustive evaluation of before/after traces over the argument box.")
    ck.cov["trusted_base"] = [
        "Coq 8.16.1 kernel (coqc, full .vo build); no axioms (Print Assumptions: Closed under the global context)",
        "extraction (ExtrOcamlBasic only) + OCaml 4.13 + coq/Simplify/extract/driver.ml (s-expression reader/printer)",
        "harness/c12_export.py (LoopIR -> s-expression: slots in LoopIR_Rewrite order, srcinfo numbering)",
        "harness/c12_oracle.py (LoopIR -> Python transliteration; Python // and % are exo's floor division/modulo)",
        "hand-written model coq/Simplify/Model.v of _DoNormalize / DoSimplify / range_analysis.py: agreement with the "
        "code is sampled (correspondence), not proved",
        "the printer is assumed injective on expression shape (precedence-based parenthesisation), up to "
        "Const(-c) ~ USub(Const(c)); yapf's FormatCode is assumed not to identify distinct expression strings",
    ]
    ck.assumptions += [
        "divisors of / and % are positive integer literals (enforced by exo's type checker; malformed stream)",
        "index / size variables and configuration fields hold unbounded integers (no overflow)",
        "data-level (R-typed) constant folding is exercised only by the brute-force search (exact rationals), the Coq "
        "model covers index / bound / size / condition expressions",
    ]
