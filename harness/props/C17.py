"""C17 -- The printed procedure denotes the procedure.

Engine: coq/Print (Model.v = PrintEnv, ModelExpr.v = _print_expr + precedence parser, ModelSyntax.v = traversal
order and text of _print_proc/_print_stmt, Gen_PrintEnv.v generated from the current source of class PrintEnv).
Tie: translator (PrintEnv.push / get_name, proved equal to the model by computation) + correspondence (model
vs the real printer on generated and scheduled procedures: PrintEnv calls, names handed out, printed lines; model
printer / parser vs the real _print_expr and the real front end on generated expressions and token strings).
Search (oracle = scope rule on the real printer's answers, and the extracted reference interpreter): name
collisions / unstable names in the real PrintEnv, and the round trip str(p) -> real @proc -> str / behaviour.
"""
from __future__ import annotations

import json
import re
import time

import common

ENGINE = "Print"
CASE_HEADER = (
    "From Coq Require Import String List Bool.\n"
    "From Print Require Import Model ModelExpr ModelSyntax ModelCheck.\n"
    "Import ListNotations.\nOpen Scope string_scope.\n"
)


def coq_str(s: str) -> str:
    return '"' + s.replace('"', '""') + '"'


def coq_strs(xs) -> str:
    return "[" + "; ".join(coq_str(x) for x in xs) + "]"


def printable(xs) -> bool:
    return all(32 <= ord(c) <= 126 for x in xs for c in x)


class Cases:
    """Gallina terms of type `list bool` evaluated by coqc (vm_compute) in shards that run in parallel"""

    SHARD = 120
    MAXPAR = 10

    def __init__(self, ck):
        self.ck = ck
        self.d = common.SCRATCH / "c17_cases"
        if self.d.exists():
            import shutil
            shutil.rmtree(self.d, ignore_errors=True)
        self.d.mkdir(parents=True, exist_ok=True)
        self.jobs = []  # (stream, file, n cases, width, Popen)
        self.pending = []

    def add(self, name, defs, width):
        for k in range(0, len(defs), self.SHARD):
            sh = defs[k:k + self.SHARD]
            f = self.d / ("Cases_%s_%d.v" % (name, k // self.SHARD))
            body = [CASE_HEADER]
            for j, t in enumerate(sh):
                body.append("Definition c%d : list bool := %s." % (j, t))
            body.append("Definition all_cases : list bool := concat [%s]." % "; ".join("c%d" % j for j in range(len(sh))))
            body.append("Eval vm_compute in all_cases.")
            f.write_text("\n".join(body) + "\n")
            self.pending.append((name, f, len(sh), width))

    def run(self):
        """-> {stream: [list of bool | None per case]}"""
        import subprocess
        running, todo = [], list(self.pending)
        done = []
        while todo or running:
            while todo and len(running) < self.MAXPAR:
                name, f, n, width = todo.pop(0)
                p = subprocess.Popen("timeout 900 coqc -Q %s Print %s" % (common.COQ / ENGINE, f), shell=True,
                                     cwd=str(self.d), stdout=subprocess.PIPE, stderr=subprocess.STDOUT, text=True)
                running.append((name, f, n, width, p))
            for job in list(running):
                if job[4].poll() is not None:
                    running.remove(job)
                    done.append(job + (job[4].communicate()[0],))
            time.sleep(0.1)
        res = {}
        for name, f, n, width, p, out in sorted(done, key=lambda j: (j[0], int(re.search(r"_(\d+)\.v$", j[1].name).group(1)))):
            m = re.search(r"=\s*\[(.*?)\]\s*:\s*list bool", out, flags=re.S)
            vals = re.findall(r"true|false", m.group(1)) if m else []
            if p.returncode != 0 or len(vals) != n * width:
                self.ck.broken_obligation("model-evaluation:%s" % f.name, "rc=%s, expected %d verdicts, got %d: %s"
                                          % (p.returncode, n * width, len(vals), out[-400:]))
                res.setdefault(name, []).extend([None] * n)
                continue
            vals = [v == "true" for v in vals]
            res.setdefault(name, []).extend(vals[i * width:(i + 1) * width] for i in range(n))
        return res


def model_output(term: str) -> str:
    """what the model computes for one term (diagnostics of a divergence)"""
    d = common.SCRATCH / "c17_cases"
    f = d / "Diag.v"
    f.write_text(CASE_HEADER + "Eval vm_compute in (%s).\n" % term)
    rc, out = common.sh("timeout 120 coqc -Q %s Print %s" % (common.COQ / ENGINE, f), cwd=str(d))
    return out[-1500:]


def run(ck: common.Check):
    # ------------------------------------------------------------------ 1. translator + proofs
    t_start = time.time()
    ok_gen = ck.gen(ENGINE)
    ok_build = ck.coq_build(ENGINE, timeout=900)
    ck.log("translator + coq build: %.1fs" % (time.time() - t_start))
    ck.cov["trusted_base"] = [
        "Coq 8.16.1 kernel (coqc, full .vo build of coq/Print); all nine theorems of Props_C17.v are closed under the global context",
        "translator/py2coq_printenv.py (fail-closed ast translator of class PrintEnv, ~230 lines) and the reading of "
        "dict/ChainMap operations as the association-list primitives of coq/Print/Model.v (get, in, [k]=v on maps[0], "
        "setdefault through the chain, new_child)",
        "coq/Print/ModelSyntax.v (traversal order and text of _print_proc/_print_stmt/_print_type) and ModelExpr.v "
        "(_print_expr, tokens) are hand-written; their agreement with the code is sampled by the correspondence "
        "streams, not proved",
        "lexing is CPython's: the model parser works on the token sequence of the printed text (identifiers, literals, "
        "operators, brackets), the text being the concatenation of the token texts; identifiers that are Python "
        "keywords are outside the model",
        "statement-level parsing (def/for/if/alloc/window/call syntax, type annotations) is CPython's ast + "
        "exo/frontend/pyparser.py: observed by the round-trip search, not modelled; yapf's FormatCode (line breaking) "
        "is observed only through str(p) being a fixpoint",
        "harness/c17_impl.py: exporter LoopIR -> Gallina terms (fail closed), the wrappers around PrintEnv.push/"
        "get_name, the scope-rule oracle, the module wrapper of the round trip; harness/semcheck.py + export.py + "
        "coq/Core extracted interpreter for behavioural comparison",
        "vm_compute inside coqc evaluates the model on the exported cases (coq/Print/ModelCheck.v)",
    ]
    ck.assumptions = [
        "symbols have non-empty names (Sym.__init__ enforces is_valid_name); the environment is used with stack "
        "discipline (a pushed PrintEnv is dropped before its parent is used again), which the correspondence checks on "
        "every printed procedure",
        "C17_expr_roundtrip holds under wf_expr: literals are non-negative (str(-3) reads back as unary minus of 3: same "
        "value, other tree) and the left operand of a comparison is not a comparison; without the second condition the "
        "statement is refuted (C17_expr_roundtrip_refuted: `(a == b) == c` prints as the chain `a == b == c`)",
        "the parser model covers variables, literals, indexing, unary minus and the 12 binary operators; window slices, "
        "stride(), extern calls and config reads are printed by the model (and compared with the real text) but only "
        "re-parsed by the real front end in the round-trip search",
        "behavioural equality of the round trip is checked on generated inputs in the reference interpreter (bounded, "
        "sampled), not proved",
    ]
    if not ok_build:
        ck.log("coq build failed; correspondence and search still run against the last good model if present")

    # ------------------------------------------------------------------ 2. the real implementation
    n_prog = ck.n(50, 750)
    n_expr = ck.n(250, 3000)
    n_parse = ck.n(250, 3000)
    budget = ck.n(70, 780)
    sdir = common.scratch_dir("c17_run")
    out = sdir / "impl.jsonl"
    seed = ck.rng.getrandbits(40)
    cmd = [common.PY, str(common.VERIF / "harness" / "c17_impl.py"), str(seed), str(n_prog), str(n_expr), str(n_parse),
           "1", str(out), str(budget)]
    t_impl = time.time()
    rc, log = common.sh(cmd, timeout=budget + 300, env=common.exo_env(), cwd=str(sdir))
    if rc != 0 or not out.exists():
        ck.broken_obligation("impl-driver", "rc=%s %s" % (rc, log[-800:]))
        return
    ck.log("implementation driver: %.1fs" % (time.time() - t_impl))
    recs = [json.loads(l) for l in open(out)]
    procs = [r for r in recs if r["t"] == "proc"]
    exprs = [r for r in recs if r["t"] == "expr"]
    parses = [r for r in recs if r["t"] == "parse"]
    findings = [r for r in recs if r["t"] == "finding"]
    bad = [r for r in recs if r["t"] in ("export_error", "driver_error")]
    stats = ([r for r in recs if r["t"] == "stat"] or [{"stats": {}}])[0]["stats"]
    rejects = [r for r in recs if r["t"] == "reject"]
    ck.log("impl: %d printed procedures, %d expressions, %d token strings, %d rejected programs, %d harness errors, stats %s"
           % (len(procs), len(exprs), len(parses), len(rejects), len(bad), stats))
    ck.cov["impl_stats"] = stats
    ck.cov["programs_rejected_by_front_end"] = len(rejects)
    ill = [r for r in recs if r["t"] == "illformed"]
    ck.cov["illformed_procedures_skipped"] = {"count": len(ill), "samples": [
        {"why": r["why"], "ops_applied": r["ops_applied"], "printed": r["printed"][:600]} for r in ill[:3]]}
    skipped = [r for r in recs if r["t"] == "skip"]
    ck.cov["roundtrip_skipped_objects_not_nameable"] = {"count": len(skipped), "why": sorted({r["why"] for r in skipped})[:5]}
    if bad:
        ck.broken_obligation("impl-driver-errors", json.dumps(bad[0])[:900])
    if len(procs) < n_prog // 3 and not stats.get("stopped_on_time_budget"):
        ck.broken_obligation("generator-collapse", "only %d procedures printed" % len(procs))

    # ------------------------------------------------------------------ 3. correspondence (model in coqc)
    t_corr = time.time()
    model_ok = (common.COQ / ENGINE / "ModelCheck.vo").exists()
    if not model_ok:
        ck.broken_obligation("correspondence:not-run", "coq/Print/ModelCheck.vo missing")
    else:
        usable = [r for r in procs if printable(r["lines"]) and printable(r["names"])]
        cases = Cases(ck)
        cases.add("proc", ["ck_proc %s %s %s %s" % (r["coq"], r["ops"], coq_strs(r["names"]), coq_strs(r["lines"]))
                           for r in usable], 3)
        cases.add("expr", ["ck_expr %s %s %s" % (r["coq"], coq_str(r["text"]), "(Some %s)" % r["parsed"] if r["parsed"] else "None")
                           for r in exprs], 2)
        cases.add("parse", ["ck_parse %s %s" % (r["toks"], "(Some %s)" % r["parsed"] if r["parsed"] else "None")
                            for r in parses], 1)
        allres = cases.run()
        for r, v in zip(usable, allres.get("proc", [])):
            sched = bool(r["applied"])
            tag = "%s:%s%s%s" % (r["gen"], "scheduled" if sched else "as-written", ":dup-names" if r["dup_names"] else "",
                                 ":renamed" if r["renamed"] else "")
            for st in ("scheduled" if sched else "generated",):
                for j, stream in enumerate(("envcalls", "names", "lines")):
                    s = "%s-%s" % (stream, st)
                    ck.case(s, r["coq"], bool(r["dup_names"]) or stream != "names",
                            {"applied": r["applied"], "lines": r["lines"][:12], "names": r["names"][:12]} if j == 2 else None,
                            tag=tag)
                    if v is None:
                        continue
                    if v[j]:
                        ck.corr_agree(s)
                    else:
                        what = ["ops_of_proc", "names_of (ops_of_proc", "print_proc"][j]
                        detail = {"applied": r["applied"], "real_lines": r["lines"], "real_names": r["names"]}
                        if ck.stream(s)["diverge"] < 2:
                            term = "%s %s%s" % (what, r["coq"], ")" if j == 1 else "")
                            detail["model"] = model_output(term)
                        ck.corr_diverge(s, detail)
        for r, v in zip(exprs, allres.get("expr", [])):
            tag = ("wf" if r["wf_only"] else "any") + (":parens" if "(" in r["text"] else "")
            ck.case("expr-text", r["coq"], len(r["text"]) > 3, {"tree": r["coq"], "real_text": r["text"]}, tag=tag)
            ck.case("expr-parse", r["coq"], len(r["text"]) > 3, None, tag=tag)
            if v is None:
                continue
            if v[0]:
                ck.corr_agree("expr-text")
            else:
                ck.corr_diverge("expr-text", {"tree": r["coq"], "real": r["text"],
                                              "model": model_output("expr_text %s 0" % r["coq"])
                                              if ck.stream("expr-text")["diverge"] < 2 else ""})
            if v[1]:
                ck.corr_agree("expr-parse")
            else:
                ck.corr_diverge("expr-parse", {"text": r["text"], "real_front_end": r["parsed"] or r["err"],
                                               "model": model_output("parse_expr (print_toks %s 0)" % r["coq"])
                                               if ck.stream("expr-parse")["diverge"] < 2 else ""})
        for r, v in zip(parses, allres.get("parse", [])):
            ck.case("parse-tokens", r["text"], len(r["text"]) > 5, {"text": r["text"], "real_front_end": r["parsed"] or r["err"]},
                    tag=("malformed:" if r.get("malformed") else "valid:") + ("accepted" if r["parsed"] else "rejected"))
            if v is None:
                continue
            if v[0]:
                ck.corr_agree("parse-tokens")
            else:
                ck.corr_diverge("parse-tokens", {"text": r["text"], "real_front_end": r["parsed"] or r["err"],
                                                 "model": model_output("parse_toks %s" % r["toks"])
                                                 if ck.stream("parse-tokens")["diverge"] < 2 else ""})
    ck.log("model evaluation (coqc, vm_compute): %.1fs" % (time.time() - t_corr))
    for s, st in sorted(ck.streams.items()):
        ck.log("stream %-22s cases %6d agree %6d diverge %d" % (s, st["cases"], st["agree"], st["diverge"]))

    # a stream without interesting cases is a harness failure, not a pass
    ndup = sum(1 for r in procs if r["dup_names"])
    nren = sum(1 for r in procs if r["renamed"])
    nsched = sum(1 for r in procs if r["applied"])
    ck.cov["procedures_with_symbols_sharing_a_name"] = ndup
    ck.cov["procedures_where_the_printer_renamed_a_symbol"] = nren
    ck.cov["scheduled_procedures"] = nsched
    if procs and (ndup < 5 or nren < 5 or nsched < 5):
        ck.broken_obligation("generator-collapse:names", "dup-names %d, renamed %d, scheduled %d" % (ndup, nren, nsched))

    # ------------------------------------------------------------------ 4. findings of the search
    by_key = {}
    for f in findings:
        by_key.setdefault(f["key"], []).append(f)
    for key, fs in sorted(by_key.items()):
        f = min(fs, key=lambda r: len(json.dumps(r["replay"])))  # report the smallest witness per key
        st = ck.stream("search")
        st.setdefault("findings_by_key", {})[key] = len(fs)
        ck.violation(key, f["replay"], f["what"])
    st = ck.stream("search")
    st["cases"] += stats.get("roundtrip_tried", 0)
    st["agree"] += stats.get("roundtrip_behaviour_equal", 0) // 2
    ck.cov["evaluations"] += stats.get("roundtrip_tried", 0)
    if by_key:
        ck.log("search findings by key: %s" % {k: len(v) for k, v in by_key.items()})
    if stats.get("roundtrip_tried", 0) and stats.get("roundtrip_parsed", 0) < stats["roundtrip_tried"] // 4:
        ck.broken_obligation("search-collapse", "only %d of %d printed procedures were parsed again"
                             % (stats.get("roundtrip_parsed", 0), stats["roundtrip_tried"]))

    ck.cov["rule"] = (
        "procedures: Exo source text from harness/progen.py (grammar-directed) and from c17_impl.StressGen (names that look "
        "like disambiguated names: x_1, i_1 ...; re-used and shadowed iterators; deep expressions over every operator with "
        "random parentheses), pushed through the real @proc; each accepted procedure is printed as written and after 1-3 "
        "random accepted scheduling operations (sched.candidates plus operations that introduce symbols with colliding names; "
        "unroll_loop, cut_loop, divide_loop, inline, stage_mem, bind_expr, specialize favoured). A procedure case is "
        "distinct by its exported term; for the `names` streams it is non-trivial when two different symbols share a name. "
        "expressions: random trees over the operator language (40% including negative literals and comparison chains), "
        "printed by the real _print_expr and read back by CPython + pyparser.Parser; token strings: random surface syntax "
        "with missing/redundant parentheses; non-trivial = longer than one atom. search: every printed procedure is checked "
        "against the scope rule (two distinct symbols visible together never print the same; a name is stable in its scope) "
        "using the real PrintEnv's answers, then str(p) is wrapped in a module with the same memories/configs/externs in "
        "scope (callees printed and defined first), parsed by the real front end, printed again (must be identical) and both "
        "procedures are run in the extracted reference interpreter on generated inputs (both directions)"
    )
