"""C17 -- The printed procedure denotes the procedure.

Engine: coq/Print (Model.v = PrintEnv, ModelExpr.v = _print_expr + precedence parser, ModelSyntax.v = traversal
order and text of _print_proc/_print_stmt, Gen_PrintEnv.v generated from the current source of class PrintEnv).
Tie: translator (PrintEnv.push / get_name, proved equal to the model by computation) + correspondence (model
vs the real printer on generated and scheduled procedures: PrintEnv calls, names handed out, printed lines; model
printer / parser vs the real _print_expr and the real front end on generated expressions and token strings).
Search (oracle = scope rule on the real printer's answers, and the extracted reference interpreter): name
collisions / unstable names in the real PrintEnv, and the round trip str(p) -> real @proc -> str / behaviour.
"""
from __future__ import annotations

import json
import os
import re
import time

import common

ENGINE = "Print"
DRIVER = common.COQ / ENGINE / "_build" / "c17_driver"


def qs(s: str) -> str:
    return '"' + s.replace("\\", "\\\\").replace('"', '\\"') + '"'


def qlist(xs) -> str:
    return "(" + " ".join(qs(x) for x in xs) + ")"


def printable(xs) -> bool:
    return all(32 <= ord(c) <= 126 for x in xs for c in x)


def run_driver(ck, name, jobs):
    """one job per line into the extracted model (coq/Print/_build/c17_driver); -> [(bits, diagnostic) | None]"""
    import subprocess
    d = common.SCRATCH / "c17_cases"
    d.mkdir(parents=True, exist_ok=True)
    inp = d / ("%s.jobs" % name)
    inp.write_text("\n".join(jobs) + "\n")
    outs, why = [], ""
    for attempt, tmo in enumerate((1800, 3600)):
        try:
            with open(inp) as fin:
                p = subprocess.run([str(DRIVER)], stdin=fin, stdout=subprocess.PIPE, stderr=subprocess.PIPE, text=True,
                                   timeout=tmo)
            outs = p.stdout.split("\n")
            if outs and outs[-1] == "":
                outs.pop()
            if p.returncode == 0 and len(outs) == len(jobs):
                why = ""
                break
            why = "rc=%s, %d jobs, %d answers, stderr=%s" % (p.returncode, len(jobs), len(outs), p.stderr[-300:])
        except subprocess.TimeoutExpired:
            outs, why = [], "no answer within %ds for %d jobs" % (tmo, len(jobs))
        ck.log("model driver (%s) attempt %d failed: %s%s" % (name, attempt + 1, why, "; retrying once" if attempt == 0 else ""))
    if why:
        ck.broken_obligation("model-driver:" + name, why)
        outs = outs[:len(jobs)] + ["(driver-error missing)"] * (len(jobs) - len(outs))
    res = []
    for o in outs:
        if o.startswith("(driver-error"):
            ck.broken_obligation("model-driver:" + name, o[:300])
            res.append(None)
            continue
        head, _, diag = o.partition(" | ")
        res.append(([b == "1" for b in head.split()], diag))
    return res


def run(ck: common.Check):
    # ------------------------------------------------------------------ 1. translator + proofs
    t_start = time.time()
    ok_gen = ck.gen(ENGINE)
    ok_build = ck.coq_build(ENGINE, timeout=2400)
    ok_ext = ck.extract(ENGINE)
    ck.obligation("extracted-model-driver", ok_ext and DRIVER.exists(), "" if ok_ext else "extract.sh failed")
    ck.log("translator + coq build + extraction: %.1fs" % (time.time() - t_start))
    ck.cov["trusted_base"] = [
        "Coq 8.16.1 kernel (coqc, full .vo build of coq/Print); all nine theorems of Props_C17.v are closed under the global context",
        "translator/py2coq_printenv.py (fail-closed ast translator of class PrintEnv, ~230 lines) and the reading of "
        "dict/ChainMap operations as the association-list primitives of coq/Print/Model.v (get, in, [k]=v on maps[0], "
        "setdefault through the chain, new_child)",
        "coq/Print/ModelSyntax.v (traversal order and text of _print_proc/_print_stmt/_print_type) and ModelExpr.v "
        "(_print_expr, tokens) are hand-written; their agreement with the code is sampled by the correspondence "
        "streams, not proved",
        "lexing is CPython's: the model parser works on the token sequence of the printed text (identifiers, literals, "
        "operators, brackets), the text being the concatenation of the token texts; identifiers that are Python "
        "keywords are outside the model",
        "statement-level parsing (def/for/if/alloc/window/call syntax, type annotations) is CPython's ast + "
        "exo/frontend/pyparser.py: observed by the round-trip search, not modelled; yapf's FormatCode (line breaking) "
        "is observed only through str(p) being a fixpoint",
        "harness/c17_impl.py: exporter LoopIR -> s-expressions (fail closed), the wrappers around PrintEnv.push/"
        "get_name, the scope-rule oracle, the module wrapper of the round trip; harness/semcheck.py + export.py + "
        "coq/Core extracted interpreter for behavioural comparison",
        "Coq extraction (ExtrOcamlBasic only) + OCaml 4.13 + coq/Print/driver.ml (s-expression reader, conversions, printers) evaluate the model (coq/Print/ModelCheck.v) on the exported cases",
    ]
    ck.assumptions = [
        "symbols have non-empty names (Sym.__init__ enforces is_valid_name); the environment is used with stack "
        "discipline (a pushed PrintEnv is dropped before its parent is used again), which the correspondence checks on "
        "every printed procedure",
        "C17_expr_roundtrip holds under wf_expr: the expression is inside the parsed operator language and its literals are "
        "non-negative (str(-3) reads back as unary minus of 3: same value, other tree); the former restriction on "
        "comparisons is gone with the repaired printer, and C17_expr_roundtrip_prefix_refuted keeps the pre-fix printer's "
        "counterexample (`(a == b) == c` printed as the chain `a == b == c`) as a regression witness",
        "the parser model covers variables, literals, indexing, unary minus and the 12 binary operators; window slices, "
        "stride(), extern calls and config reads are printed by the model (and compared with the real text) but only "
        "re-parsed by the real front end in the round-trip search",
        "behavioural equality of the round trip is checked on generated inputs in the reference interpreter (bounded, "
        "sampled), not proved",
    ]
    if not ok_build:
        ck.log("coq build failed; correspondence and search still run against the last good model if present")

    # ------------------------------------------------------------------ 2. the real implementation
    n_prog = ck.n(60, 1000)
    n_expr = ck.n(400, 4000)
    n_parse = ck.n(400, 4000)
    # The driver budgets itself by wall clock: after `budget` seconds it stops generating new cases, finishes the one in
    # hand, writes its counters and exits 0; what it produced is what gets compared (a loaded machine gives fewer
    # cases, never a failure).  VERIF_C17_BUDGET overrides the budget (used to exercise the cut-short path).
    budget = float(os.environ.get("VERIF_C17_BUDGET") or ck.n(75, 600))
    sdir = common.scratch_dir("c17_run")
    out = sdir / "impl.jsonl"
    seed = ck.rng.getrandbits(40)
    t_impl = time.time()

    def impl(n_prog, n_expr, n_parse, budget):
        if out.exists():
            out.unlink()
        cmd = [common.PY, str(common.VERIF / "harness" / "c17_impl.py"), str(seed), str(n_prog), str(n_expr), str(n_parse),
               "1", str(out), str(budget)]
        # the outer limit is a last resort, far above the internal budget (and above its in-process hard deadline)
        rc, log = common.sh(cmd, timeout=3 * budget + 180, env=common.exo_env(), cwd=str(sdir))
        stat = [l for l in open(out) if '"t": "stat"' in l] if out.exists() else []
        # a run ended by its in-process hard deadline (one case never came back) lost everything after that case:
        # treated like a run that did not finish
        complete = rc == 0 and bool(stat) and "hard deadline" not in stat[-1]
        if rc == 0 and stat and not complete:
            log = "stopped by the in-process hard deadline inside one case"
        return complete, rc, log

    ok_impl, rc, log = impl(n_prog, n_expr, n_parse, budget)
    if not ok_impl:
        ck.log("implementation driver did not finish (rc=%s: %s); retrying once with a quarter of the cases" % (rc, log[-200:]))
        ck.cov["impl_driver_retried"] = "first attempt rc=%s" % rc
        ok_impl, rc, log = impl(max(10, n_prog // 4), max(50, n_expr // 4), max(50, n_parse // 4), budget)
    if not ok_impl and not (rc == 0 and out.exists()):
        ck.broken_obligation("impl-driver", "rc=%s %s" % (rc, log[-800:]))
        return
    if not ok_impl:
        ck.log("second attempt also ended at its hard deadline; comparing what it produced")
    ck.log("implementation driver: %.1fs" % (time.time() - t_impl))
    recs = [json.loads(l) for l in open(out)]
    procs = [r for r in recs if r["t"] == "proc"]
    exprs = [r for r in recs if r["t"] == "expr"]
    parses = [r for r in recs if r["t"] == "parse"]
    findings = [r for r in recs if r["t"] == "finding"]
    bad = [r for r in recs if r["t"] in ("export_error", "driver_error")]
    stats = ([r for r in recs if r["t"] == "stat"] or [{"stats": {}}])[0]["stats"]
    rejects = [r for r in recs if r["t"] == "reject"]
    ck.log("impl: %d printed procedures, %d expressions, %d token strings, %d rejected programs, %d harness errors, stats %s"
           % (len(procs), len(exprs), len(parses), len(rejects), len(bad), stats))
    ck.cov["impl_stats"] = stats
    ck.cov["programs_rejected_by_front_end"] = len(rejects)
    ill = [r for r in recs if r["t"] == "illformed"]
    ck.cov["illformed_procedures_skipped"] = {"count": len(ill), "samples": [
        {"why": r["why"], "ops_applied": r["ops_applied"], "printed": r["printed"][:600]} for r in ill[:3]]}
    skipped = [r for r in recs if r["t"] == "skip"]
    ck.cov["roundtrip_skipped_objects_not_nameable"] = {"count": len(skipped), "why": sorted({r["why"] for r in skipped})[:5]}
    if bad:
        ck.broken_obligation("impl-driver-errors", json.dumps(bad[0])[:900])
    cut = {k: v for k, v in stats.items() if k.startswith("cut_short") or k == "stopped_on_time_budget"}
    ck.cov["generation_cut_short_by_time_budget"] = bool(cut)
    ck.cov["time_budget_s"] = budget
    ck.cov["cases_produced"] = {"procedures": len(procs), "expressions": len(exprs), "token_strings": len(parses),
                                "requested": {"programs": n_prog, "expressions": n_expr, "token_strings": n_parse}}
    if cut:
        ck.cov["generation_cut_short_detail"] = cut
        ck.log("the time budget (%.0fs) cut generation short: %s; comparing the %d procedures, %d expressions, %d token "
               "strings that were produced" % (budget, cut, len(procs), len(exprs), len(parses)))
    if len(procs) < n_prog // 3 and not cut:
        ck.broken_obligation("generator-collapse", "only %d procedures printed" % len(procs))

    # ------------------------------------------------------------------ 3. correspondence (extracted model)
    t_corr = time.time()
    if not (ok_ext and DRIVER.exists()):
        ck.broken_obligation("correspondence:not-run", "coq/Print/_build/c17_driver missing")
    else:
        usable = [r for r in procs if printable(r["lines"]) and printable(r["names"])]
        res = run_driver(ck, "proc", ["(ckproc %s %s %s %s)" % (r["coq"], r["ops"], qlist(r["names"]), qlist(r["lines"]))
                                      for r in usable])
        for r, v in zip(usable, res):
            sched = bool(r["applied"])
            tag = "%s:%s%s%s" % (r["gen"], "scheduled" if sched else "as-written", ":dup-names" if r["dup_names"] else "",
                                 ":renamed" if r["renamed"] else "")
            st = "scheduled" if sched else "generated"
            for j, stream in enumerate(("envcalls", "names", "lines")):
                s = "%s-%s" % (stream, st)
                ck.case(s, r["coq"], bool(r["dup_names"]) or stream != "names",
                        {"applied": r["applied"], "lines": r["lines"][:12], "names": r["names"][:12]} if j == 2 else None,
                        tag=tag)
                if v is None:
                    continue
                if v[0][j]:
                    ck.corr_agree(s)
                else:
                    ck.corr_diverge(s, {"applied": r["applied"], "real_lines": r["lines"], "real_names": r["names"],
                                        "model": v[1][:3000]})
        res = run_driver(ck, "expr", ["(ckexpr %s %s %s)" % (r["coq"], qs(r["text"]), "(some %s)" % r["parsed"] if r["parsed"] else "(none)")
                                      for r in exprs])
        for r, v in zip(exprs, res):
            tag = ("wf" if r["wf_only"] else "any") + (":parens" if "(" in r["text"] else "")
            ck.case("expr-text", r["coq"], len(r["text"]) > 3, {"tree": r["coq"], "real_text": r["text"]}, tag=tag)
            ck.case("expr-parse", r["coq"], len(r["text"]) > 3, None, tag=tag)
            if v is None:
                continue
            if v[0][0]:
                ck.corr_agree("expr-text")
            else:
                ck.corr_diverge("expr-text", {"tree": r["coq"], "real": r["text"], "model": v[1]})
            if v[0][1]:
                ck.corr_agree("expr-parse")
            else:
                ck.corr_diverge("expr-parse", {"text": r["text"], "real_front_end": r["parsed"] or r["err"], "model": v[1]})
        res = run_driver(ck, "parse", ["(ckparse %s %s)" % (r["toks"], "(some %s)" % r["parsed"] if r["parsed"] else "(none)")
                                       for r in parses])
        for r, v in zip(parses, res):
            ck.case("parse-tokens", r["text"], len(r["text"]) > 5, {"text": r["text"], "real_front_end": r["parsed"] or r["err"]},
                    tag=("malformed:" if r.get("malformed") else "valid:") + ("accepted" if r["parsed"] else "rejected"))
            if v is None:
                continue
            if v[0][0]:
                ck.corr_agree("parse-tokens")
            else:
                ck.corr_diverge("parse-tokens", {"text": r["text"], "real_front_end": r["parsed"] or r["err"], "model": v[1]})
    ck.log("model evaluation (extracted OCaml driver): %.1fs" % (time.time() - t_corr))
    for s, st in sorted(ck.streams.items()):
        ck.log("stream %-22s cases %6d agree %6d diverge %d" % (s, st["cases"], st["agree"], st["diverge"]))

    # a stream without interesting cases is a harness failure, not a pass
    ndup = sum(1 for r in procs if r["dup_names"])
    nren = sum(1 for r in procs if r["renamed"])
    nsched = sum(1 for r in procs if r["applied"])
    ck.cov["procedures_with_symbols_sharing_a_name"] = ndup
    ck.cov["procedures_where_the_printer_renamed_a_symbol"] = nren
    ck.cov["scheduled_procedures"] = nsched
    if procs and (ndup < 5 or nren < 5 or nsched < 5) and not cut:
        ck.broken_obligation("generator-collapse:names", "dup-names %d, renamed %d, scheduled %d" % (ndup, nren, nsched))

    # ------------------------------------------------------------------ 4. findings of the search
    by_key = {}
    for f in findings:
        by_key.setdefault(f["key"], []).append(f)
    for key, fs in sorted(by_key.items()):
        f = min(fs, key=lambda r: len(json.dumps(r["replay"])))  # report the smallest witness per key
        st = ck.stream("search")
        st.setdefault("findings_by_key", {})[key] = len(fs)
        ck.violation(key, f["replay"], f["what"])
    st = ck.stream("search")
    st["cases"] += stats.get("roundtrip_tried", 0)
    st["agree"] += stats.get("roundtrip_behaviour_equal", 0) // 2
    ck.cov["evaluations"] += stats.get("roundtrip_tried", 0)
    if by_key:
        ck.log("search findings by key: %s" % {k: len(v) for k, v in by_key.items()})
    # regression cases that must pass, and witnesses of the listed findings (they run before the random programs)
    if stats.get("regress_cases_run", 0) < 3 and cut:
        ck.log("the regression cases did not run before the time budget ended (%s of 3)" % stats.get("regress_cases_run", 0))
        ck.cov["regression_cases_not_run_for_lack_of_time"] = True
    else:
        if stats.get("regress_cases_run", 0) < 3:
            ck.broken_obligation("regression:comparison-chain-not-run",
                                 "only %s regression cases ran" % stats.get("regress_cases_run", 0))
        ck.obligation("regression:print:regress:comparison-chain",
                      stats.get("regress_cases_run", 0) >= 3 and not stats.get("findings_in:regress:comparison-chain", 0),
                      "a comparison on the left of a comparison does not survive the round trip")
    ck.cov["witnesses"] = {k[len("findings_in:"):]: v for k, v in stats.items() if k.startswith("findings_in:witness")}
    for f in ck.known:
        if f.get("status", "open") == "open" and f["id"] not in ck.known_seen:
            ck.log("listed finding %s did not show on this run" % f["id"])
    if stats.get("roundtrip_tried", 0) > 30 and stats.get("roundtrip_parsed", 0) < stats["roundtrip_tried"] // 4:
        ck.broken_obligation("search-collapse", "only %d of %d printed procedures were parsed again"
                             % (stats.get("roundtrip_parsed", 0), stats["roundtrip_tried"]))

    ck.cov["rule"] = (
        "procedures: Exo source text from harness/progen.py (grammar-directed) and from c17_impl.StressGen (names that look "
        "like disambiguated names: x_1, i_1 ...; re-used and shadowed iterators; deep expressions over every operator with "
        "random parentheses), pushed through the real @proc; each accepted procedure is printed as written and after 1-3 "
        "random accepted scheduling operations (sched.candidates plus operations that introduce symbols with colliding names; "
        "unroll_loop, cut_loop, divide_loop, inline, stage_mem, bind_expr, specialize favoured). A procedure case is "
        "distinct by its exported term; for the `names` streams it is non-trivial when two different symbols share a name. "
        "expressions: random trees over the operator language (all shapes, including negative literals and comparisons nested on the left of comparisons), "
        "printed by the real _print_expr and read back by CPython + pyparser.Parser; token strings: random surface syntax "
        "with missing/redundant parentheses; non-trivial = longer than one atom. search: every printed procedure is checked "
        "against the scope rule (two distinct symbols visible together never print the same; a name is stable in its scope) "
        "using the real PrintEnv's answers, then str(p) is wrapped in a module with the same memories/configs/externs in "
        "scope (callees printed and defined first), parsed by the real front end, printed again (must be identical) and both "
        "procedures are run in the extracted reference interpreter on generated inputs (both directions)"
    )
