"""C05 — replace only substitutes true instances of the callee.

  1. coq/Unify is built (theorems C05_* of Props_C05.v are re-checked), the models are extracted.
  2. correspondence: Unify.Inline.do_inline vs the REAL `inline` on generated call sites (exact terms).
  3. witnesses of the recorded finding and the regression case of the repaired unifier defect run first.
  4. search on the REAL `replace`: generated true/perturbed instances, the x86 instruction library against
     small kernels, the repo's own unify tests.  Every accepted replace is (a) run before/after in the
     extracted reference semantics, both directions, (b) handed to the extracted, proved validator,
     (c) inlined again and compared with the original.
"""
from __future__ import annotations

import time
import traceback

import common
import progen
import semcheck
import export
import c05_gen as G
import c05_search as X
import c05_model as M
import c05_cases as CASES

from exo.core.LoopIR import LoopIR
import exo.stdlib.scheduling as S
import exo.API_cursors as PC

TRUSTED = [
    "Coq 8.16.1 kernel (coqc, full .vo build of coq/Core and coq/Unify); no axioms (Print Assumptions: closed under the global context)",
    "extraction: Require Extraction + ExtrOcamlBasic only; Z, positive, Q stay extracted inductives; ocamlfind ocamlopt; coq/Unify/driver.ml and coq/Core/driver.ml (s-expression reader/printer)",
    "harness/export.py: 1:1 structural dump of exo's LoopIR into Core.Syntax terms (srcinfo, memories, precisions erased)",
    "reference semantics Core.Sem: hand-written specification of LoopIR's sequential meaning over exact rationals (Call checks callee assertions, positive sizes, shapes, window bounds)",
    "modelled rather than verified: DoInline is re-implemented as Unify.Inline (agreement sampled by exact term comparison on every run); the unifier (LoopIR_unification.py) and its SMT solving are NOT modelled: every accepted replace is instead certified per instance by the proved validator and executed",
    "the call-site obligations (callee assertions, positive sizes, in-bounds windows) are a premise of the theorems; on the implementation they are checked by execution only (recorded finding: replace does not establish them)",
]


class Stats(dict):
    def inc(self, k, n=1):
        self[k] = self.get(k, 0) + n


def instance_of_cursor(p, blk, callee, ckind, pkind, src):
    im = blk._impl
    return X.Instance(p, im._anchor._path, im._attr, im._range.start, im._range.stop, callee, ckind, pkind, src)


class Runner:
    def __init__(self, ck):
        self.ck = ck
        self.st = Stats()
        self.model = M.Model()
        self.sc = semcheck.SemChecker(ck.rng)
        self.big = export.InputGen(ck.rng, size_range=(1, 17), index_range=(-2, 5))
        self.small = self.sc.gen
        self.samples = []

    # ------------------------------------------------------------------ one replace attempt
    def attempt(self, inst: X.Instance, stream: str, big_inputs=False, expect=None, name=""):
        """try the real replace on `inst`; returns a summary dict"""
        ck, st = self.ck, self.st
        tag = "%s:%s" % (inst.ckind.split(":")[0], "true" if inst.pkind == "none" else "perturbed")
        p2, why = X.try_replace(inst)
        res = {"accepted": p2 is not None, "diffs": [], "verdict": None, "after": p2}
        if p2 is None:
            st.inc(stream + ":rejected")
            st.inc(stream + (":true-rejected" if inst.pkind == "none" else ":perturbed-rejected"))
            reason = why.split(":")[0]
            st.inc("reject-reason:" + reason)
            if "WindowType" in why:
                st.inc("reject-reason:crash-on-window-defined-outside-block")
            ck.case(stream, (inst.ckind, inst.pkind, str(inst.p)), nontrivial=True, tag=tag + ":rejected",
                    sample={"callee_kind": inst.ckind, "perturbation": inst.pkind, "result": "rejected: " + why[:120],
                            "proc": str(inst.p)[:600]})
            if expect == "rejected":
                ck.corr_agree(stream)
            return res
        st.inc(stream + ":accepted")
        st.inc(stream + (":true-accepted" if inst.pkind == "none" else ":perturbed-accepted"))
        if inst.pkind != "none":
            ok, err = G.front_end_accepts(inst.p)
            if not ok:
                # the perturbed program is not one exo itself accepts (e.g. out of bounds): outside the quantifier
                st.inc(stream + ":perturbed-accepted-but-source-invalid")
                ck.case(stream, (inst.ckind, inst.pkind, str(inst.p)), nontrivial=False, tag=tag + ":source-invalid")
                return res
        # (b) validator
        try:
            call = X.new_call_node(p2, inst)
            nbody = len(inst.callee._loopir_proc.body)
            verdict, job = M.validate_case(self.model, inst.nodes()[:nbody], call)
        except export.Unsupported as e:
            verdict, job = "no unsupported-export " + str(e), {}
        res["verdict"] = verdict
        vkey = verdict.split()[0] if not verdict.startswith("no") else verdict.replace(" ", ":")
        st.inc("validator:" + vkey)
        if verdict.endswith("binds"):
            st.inc("validator:block-leaves-bindings")
        # (a) execution, both directions
        self.sc.gen = self.big if big_inputs else self.small
        before = self.sc.nontrivial
        diffs = X.sem_check(self.sc, inst, p2, n_inputs=ck.n(4, 6))
        exercised = self.sc.nontrivial > before
        st.inc(stream + (":executed" if exercised else ":no-valid-input-found"))
        res["diffs"] = diffs
        certified = verdict.startswith("certified") or verdict.startswith("strict")
        callsite = False
        for kind, det in diffs:
            if kind == "unsupported":
                st.inc(stream + ":unsupported-in-reference-semantics")
                continue
            callsite = callsite or kind.startswith("callsite-fails") or kind.endswith("AssertFail")
            key = "replace:%s:%s:%s" % (inst.ckind, inst.pkind, kind)
            st.inc("difference:" + kind)
            replay = dict(inst.describe(), after=str(p2), difference=kind, detail=det, validator=verdict, case=name)
            ck.violation(key, replay, "replace accepted a block that is not an instance: %s (%s)" % (kind, det.get("detail", "")))
            if certified and (kind in ("value-mismatch", "uninit-result", "config-mismatch") or kind.startswith("rev-")):
                # the proved validator certified "call completes => block completes in the same memory":
                # two completed runs that differ, or a completed call whose block fails, contradict the theorem
                # (i.e. the exporter / extraction / harness is wrong) -- never expected
                ck.broken_obligation("validator-contradicted-by-execution", str(replay)[:600])
        sem_ok = not [d for d in diffs if d[0] != "unsupported"]
        if sem_ok and not certified:
            st.inc("uncertified-but-executions-agree")
            if len(self.samples) < 4:
                self.samples.append({"uncertified": verdict, "proc": str(inst.p)[:500], "after": str(p2)[:300]})
        if sem_ok:
            ck.corr_agree(stream)
        # (c) round trip, only meaningful when the call itself is legal
        if not callsite:
            p3, d3 = X.round_trip(self.sc, inst, p2, n_inputs=ck.n(3, 4))
            st.inc("roundtrip:checked")
            for kind, det in d3:
                st.inc("difference:" + kind)
                key = "roundtrip:%s:%s:%s" % (inst.ckind, inst.pkind, kind)
                replay = dict(inst.describe(), after=str(p2), inlined_again=str(p3), difference=kind, detail=det, case=name)
                ck.violation(key, replay, "inline(replace(p, block, f), call) differs from p: %s" % kind)
        else:
            st.inc("roundtrip:skipped-call-obligations-fail")
        ck.case(stream, (inst.ckind, inst.pkind, str(inst.p)), nontrivial=exercised, tag=tag + ":accepted",
                sample={"callee_kind": inst.ckind, "perturbation": inst.pkind, "proc": str(inst.p)[:600],
                        "after": str(p2)[:300], "validator": verdict, "differences": [d[0] for d in diffs]})
        return res

    # ------------------------------------------------------------------ fixed cases
    def fixed(self, c, stream):
        ck = self.ck
        mod, err = progen.load_module(c["src"], "c05fix")
        if mod is None:
            ck.broken_obligation("fixed-case-rejected-by-front-end:" + c["name"], err or "")
            return None
        target = mod.target
        cname = c["callee"].split(":")[-1]
        callee = getattr(mod, cname)
        n = len(callee._loopir_proc.body)
        try:
            cur = target.find(c["block"])
            blk = cur.as_block().expand(0, n - 1 + c.get("extra", 0))
        except Exception as e:
            ck.broken_obligation("fixed-case-block-not-found:" + c["name"], str(e))
            return None
        ckind = c["kind"] if not c["callee"].startswith("x86:") else "x86:" + cname
        if c["kind"] in ("witness", "regress"):
            ckind = c["kind"] if c["kind"] == "regress" else "witness"
        inst = instance_of_cursor(target, blk, callee, ckind, c["pkind"], c["src"])
        res = self.attempt(inst, stream, big_inputs=True, expect=c.get("expect"), name=c["name"])
        if c.get("extra") and res["accepted"]:
            p2 = res["after"]
            par_before = getattr(G.node_at(target._loopir_proc, inst.parent_path), inst.attr)
            par_after = getattr(G.node_at(p2._loopir_proc, inst.parent_path), inst.attr)
            if len(par_after) != len(par_before) - n + 1:
                ck.violation("replace:regress:longer-block:statements-dropped",
                             dict(inst.describe(), after=str(p2)),
                             "replace with a block cursor longer than the callee body removed %d statement(s) it did not unify"
                             % (len(par_before) - n + 1 - len(par_after)))
            elif not res["diffs"]:
                ck.corr_agree(stream)
        return res

    # ------------------------------------------------------------------ x86 kernels
    def x86(self, deadline=None):
        ck = self.ck
        for kname, src, instrs in CASES.x86_kernels():
            if deadline is not None and time.time() > deadline:
                self.st.inc("x86:kernels-skipped-for-time")
                continue
            mod, err = progen.load_module(src, "c05x86")
            if mod is None:
                ck.broken_obligation("x86-kernel-rejected-by-front-end:" + kname, err or "")
                continue
            target = mod.target
            loops = [(pth, s) for pth, s in X._all_stmts(target) if isinstance(s, LoopIR.For)]
            for pth, s in loops:
                parent, (attr, idx) = pth[:-1], pth[-1]
                variants = [("none", target)]
                if ck.thorough or ck.rng.random() < 0.35:
                    variants += G.perturbations(target, parent, attr, idx, idx + 1, ck.rng, limit=ck.n(2, 5))
                for iname in instrs:
                    callee = getattr(mod, iname)
                    for pkind, q in variants:
                        inst = X.Instance(q, parent, attr, idx, idx + 1, callee, "x86:" + iname, pkind, src)
                        self.attempt(inst, "search:x86", big_inputs=True, name=kname)

    # ------------------------------------------------------------------ generated instances
    def generated(self, n, budget_s):
        ck, st = self.ck, self.st
        gst = {}
        t0 = time.time()
        made = 0
        for it in range(n * 3):
            if made >= n or time.time() - t0 > budget_s:
                break
            r = X.build_true_instance(ck.rng, gst)
            if r is None:
                continue
            c, src, caller, callee, path = r
            try:
                inst = X.inline_instance(ck.rng, c, src, caller, callee, path, gst)
            except X.REFUSALS as e:
                st.inc("generated:inline-refused")
                continue
            if inst is None:
                continue
            made += 1
            res = self.attempt(inst, "search:generated")
            if not res["accepted"]:
                st.inc("generated:true-instance-rejected")
            guard = c["kind"].startswith("guard")
            for pkind, q in G.perturbations(inst.p, inst.parent_path, inst.attr, inst.lo, inst.hi, ck.rng,
                                            limit=ck.n(5, 8) if guard else ck.n(3, 5), prefer=("cmp", "bool") if guard else None):
                pi = X.Instance(q, inst.parent_path, inst.attr, inst.lo, inst.hi, callee, c["kind"], pkind, src)
                self.attempt(pi, "search:generated")
        st.inc("generated:true-instances", made)
        for k, v in gst.items():
            if not k.endswith("samples"):
                st["generated:" + k] = v

    # ------------------------------------------------------------------ inline correspondence
    def inline_corr(self, n, budget_s):
        ck, st = self.ck, self.st
        t0 = time.time()
        done = 0
        gst = {}
        while done < n and time.time() - t0 < budget_s:
            sites = []
            if ck.rng.random() < 0.55:
                r = X.build_true_instance(ck.rng, gst)
                if r is None:
                    continue
                c, src, caller, callee, path = r
                sites = [("inline:generated", caller, path, src)]
            else:
                g = progen.ProgGen(ck.rng, features={"calls": 1.0})
                src = g.module("caller")
                mod, err = progen.load_module(src, "c05c")
                if mod is None:
                    continue
                caller = mod.caller
                sites = [("inline:progen", caller, p, src) for p, s in X._all_stmts(caller) if isinstance(s, LoopIR.Call)]
            for stream, caller, path, src in sites:
                done += 1
                self.inline_one(stream, caller, path, src)
                if ck.rng.random() < 0.3:
                    self.inline_malformed(caller, path, src)

    def inline_one(self, stream, caller, path, src, tag=None):
        ck = self.ck
        call = G.node_at(caller._loopir_proc, path)
        nwin = sum(1 for a in call.args[: len(call.f.args)] if isinstance(a, LoopIR.WindowExpr))
        n = nwin + len(call.f.body)
        try:
            p1 = S.inline(caller, X.call_cursor(caller, path))
        except Exception as e:
            ck.case(stream, (src, str(path)), nontrivial=False, tag="impl-raised:" + type(e).__name__)
            self.st.inc(stream + ":impl-raised:" + type(e).__name__)
            return
        attr, idx = path[-1]
        new = getattr(G.node_at(p1._loopir_proc, path[:-1]), attr)[idx: idx + n]
        r = M.inline_case(self.model, call, new)
        kinds = sorted({"window" if isinstance(a, LoopIR.WindowExpr) else
                        "buffer" if (isinstance(a, LoopIR.Read) and a.type.is_numeric()) else "control" for a in call.args})
        ck.case(stream, (src, str(path)), nontrivial=True, tag=tag or "+".join(kinds),
                sample={"call": str(call)[:200], "model": r["model"][:400]})
        self.st.inc(stream + ":theorem-side-conditions-" + r.get("side_conditions", "?"))
        if r["agree"]:
            ck.corr_agree(stream)
            self.st.inc(stream + (":exact" if r["exact"] else ":alpha"))
        else:
            ck.corr_diverge(stream, {"source": src, "call_path": str(path), "job": r["job"], "defs": r["defs"],
                                     "model": r["model"], "impl": r["real"], "detail": r.get("detail")})
            ck.violation("inline:model-divergence:%s" % (r.get("detail", "").split(" (")[0][:60].replace(" ", "-")),
                         {"module_source": src, "call_path": str(path), "model": r["model"], "impl": r["real"],
                          "detail": r.get("detail"), "proc": str(caller)},
                         "the real inline and the model Unify.Inline.do_inline differ: %s" % r.get("detail"))

    def inline_probe(self, c):
        """semantics of the REAL inline on a fixed call site (all calls of the target, one after the other)"""
        ck = self.ck
        mod, err = progen.load_module(c["src"], "c05probe")
        if mod is None:
            ck.broken_obligation("inline-probe-rejected-by-front-end:" + c["name"], err or "")
            return
        p0 = p = mod.target
        try:
            while True:
                calls = [pth for pth, s in X._all_stmts(p) if isinstance(s, LoopIR.Call)]
                if not calls:
                    break
                p = S.inline(p, X.call_cursor(p, calls[0]))
        except X.REFUSALS as e:
            self.st.inc("inline-probe:%s:refused" % c["name"])
            ck.case("inline:probe", c["name"], nontrivial=True, tag="refused", sample={"probe": c["name"], "result": "refused: %s" % e})
            ck.corr_agree("inline:probe")
            return
        self.sc.reset()
        self.sc.gen = self.small
        diffs = []
        r1 = self.sc.compare(p0, p, n_inputs=6)
        if r1 and r1["kind"] != "unsupported":
            diffs.append((r1["kind"], r1))
        r2 = self.sc.compare(p, p0, n_inputs=6)
        if r2 and r2["kind"] != "unsupported":
            diffs.append(("rev-" + r2["kind"], r2))
        ck.case("inline:probe", c["name"], nontrivial=True, tag="inlined",
                sample={"probe": c["name"], "before": str(p0), "after": str(p), "differences": [d[0] for d in diffs]})
        self.st.inc("inline-probe:%s:%s" % (c["name"], "equal" if not diffs else "DIFFERENT"))
        if not diffs:
            ck.corr_agree("inline:probe")
        for kind, det in diffs:
            key = ("inline:%s:%s:reverse-direction" % (c["name"], kind[4:]) if kind.startswith("rev-")
                   else "inline:%s:%s" % (c["name"], kind))
            ck.violation(key,
                         {"module_source": c["src"], "before": str(p0), "after": str(p), "detail": det},
                         "the real inline changed the meaning of the procedure: %s" % det.get("detail"))

    def inline_malformed(self, caller, path, src):
        """call sites the front end would not accept, built on the IR: a dropped last argument (Python's zip
        truncates) and one buffer passed for two formals"""
        from exo.API import Procedure
        call = G.node_at(caller._loopir_proc, path)
        variants = []
        if len(call.args) >= 2:
            variants.append(("dropped-argument", call.update(args=list(call.args[:-1]))))
        bufs = [k for k, a in enumerate(call.args) if isinstance(a, (LoopIR.WindowExpr,)) or
                (isinstance(a, LoopIR.Read) and a.type.is_numeric())]
        if len(bufs) >= 2:
            args = list(call.args)
            args[bufs[1]] = args[bufs[0]]
            variants.append(("aliased-buffers", call.update(args=args)))
        for tag, c2 in variants:
            try:
                q = Procedure(G.rebuild(caller._loopir_proc, path, lambda n, c2=c2: c2))
            except Exception:
                continue
            self.inline_one("inline:malformed", q, path, src, tag=tag)


CORE_DEPS = ["Syntax", "Sem", "Wf", "Equiv", "Induction", "PartialEval", "PartialEvalSound"]


def core_deps(ck):
    """coq/Unify needs the compiled shared core (only the files it imports); other files of coq/Core belong
    to other properties and are not built here"""
    import fcntl
    d = common.COQ / "Core"
    with open(d / ".build.lock", "w") as lockf:
        fcntl.flock(lockf, fcntl.LOCK_EX)
        try:
            rc, out = common.sh("coq_makefile -f _CoqProject -o Makefile.coq >/dev/null && make -f Makefile.coq -j8 %s"
                                % " ".join(x + ".vo" for x in CORE_DEPS), timeout=900, cwd=d)
        finally:
            fcntl.flock(lockf, fcntl.LOCK_UN)
    ck.obligation("coq-build:Core(shared syntax/semantics files)", rc == 0, "" if rc == 0 else out[-500:])


def run(ck: common.Check):
    t0 = time.time()
    core_deps(ck)
    ck.log("core deps %.1fs" % (time.time() - t0))
    ck.coq_build("Unify")
    ck.log("unify build %.1fs" % (time.time() - t0))
    try:
        r = Runner(ck)
    except Exception as e:
        ck.broken_obligation("extraction-build:Unify", str(e)[-600:])
        return
    st = r.st
    try:
        # 3. witnesses and regression cases first
        for c in CASES.WITNESSES:
            res = r.fixed(c, "search:witness")
            if res is not None:
                kinds = [d[0] for d in res["diffs"]]
                st.inc("witness:%s:%s" % (c["name"], "reproduced" if c["expect"] in kinds else
                                          "accepted-without-difference" if res["accepted"] else "rejected"))
        for c in CASES.REGRESS:
            res = r.fixed(c, "search:regress")
            if res is not None:
                if c.get("expect") == "accepted-equal":
                    st.inc("regress:%s:%s" % (c["name"], "accepted-and-equal" if res["accepted"] and not res["diffs"] else "REJECTED-OR-DIFFERENT"))
                else:
                    st.inc("regress:%s:%s" % (c["name"], "rejected" if not res["accepted"] else "ACCEPTED"))
        for c in CASES.INLINE_PROBES:
            r.inline_probe(c)
        ck.log("witnesses %.1fs" % (time.time() - t0))
        # 2. correspondence of the inline model
        # quick tier: whatever the builds left of the 3-minute budget (they take 10 s .. 100 s depending on what changed)
        left = lambda: 165 - (time.time() - t0)
        r.inline_corr(ck.n(300, 1500), ck.n(min(30, max(8, left() * 0.25)), 240))
        ck.log("inline correspondence %.1fs" % (time.time() - t0))
        # 4. search
        for c in CASES.REPO_TESTS:
            r.fixed(c, "search:repo-tests")
        ck.log("repo tests %.1fs" % (time.time() - t0))
        r.x86(None if ck.thorough else t0 + 150)
        ck.log("x86 %.1fs" % (time.time() - t0))
        r.generated(ck.n(200, 1500), ck.n(min(60, max(12, left())), 700))
        ck.log("generated %.1fs" % (time.time() - t0))
    finally:
        r.sc.close()
        r.model.close()
    acc = sum(v for k, v in st.items() if k.endswith(":accepted") and k.startswith("search:"))
    cert = st.get("validator:certified", 0) + st.get("validator:strict", 0)
    ck.cov["c05_statistics"] = dict(sorted(st.items()))
    ck.cov["replaces_accepted"] = acc
    ck.cov["replaces_certified_by_proved_validator"] = cert
    ck.cov["replaces_uncertified_but_equal_in_execution"] = st.get("uncertified-but-executions-agree", 0)
    validated = sum(v for k, v in st.items() if k.startswith("validator:") and k != "validator:block-leaves-bindings")
    ck.cov["replaces_validated"] = validated  # accepted replaces of procedures the front end accepts
    ck.cov["certified_rate"] = round(cert / validated, 3) if validated else None
    ck.cov["inputs_run_in_reference_semantics"] = r.sc.runs
    ck.cov["uncertified_samples"] = r.samples
    ck.cov["rule"] = (
        "correspondence: call sites of generated callers (window / offset / point / whole-buffer / scalar / size / index / bool "
        "arguments) and of progen programs, plus IR-level malformed call sites, inlined by the real `inline`; the exported result "
        "must equal the term computed by the extracted Coq model do_inline (non-trivial = every call site; distinct by source and "
        "call path).  search: true instances (real inline of a generated caller, windows kept / inlined / simplified), each with "
        "3-5 single-edit perturbations of the block (index offset, stride coefficient, bound, operand order, operator, constant, "
        "other buffer, transposition, Assign<->Reduce, branch swap), the x86 instruction library against hand-written kernels "
        "(every loop x every listed instruction, with perturbations), the repo's unify tests; every ACCEPTED replace is run "
        "before/after in the extracted reference semantics on generated inputs in both directions, inlined again (round trip) and "
        "validated by the extracted proved validator; non-trivial = an accepted replace with at least one input on which the "
        "original ran to completion; distinct by (callee kind, perturbation, printed procedure)")
    ck.cov["trusted_base"] = TRUSTED
    ck.assumptions += [
        "data values are exact rationals (the property says: up to real-number algebra)",
        "sizes 1..4 (1..17 for the fixed kernels), index arguments -2..5, window strides 1..2 in generated inputs (search only; the theorems are unbounded)",
        "theorems C05_validator_* conclude from 'the new call runs to completion'; that the call-site obligations hold is NOT "
        "established by replace (recorded finding C05-replace-ignores-callee-assertions) and is checked here by execution only",
        "the unifier is not modelled: the guarantee is per explored instance (certified by the proved validator or executed)",
    ]
    ck.log("accepted %d, certified %d, uncertified-but-equal %d, statistics: %s"
           % (acc, cert, st.get("uncertified-but-executions-agree", 0), {k: v for k, v in sorted(st.items()) if not k.startswith("generated:mode")}))
    ck.log("wall %.1fs" % (time.time() - t0))
