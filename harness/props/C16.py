"""C16 -- find returns exactly the structural matches in program order; cursor navigation is coherent.

Engine: coq/Find (Model.v, Proofs_*.v, Props_C16.v, extracted driver _build/c16_driver).
Tie: correspondence (hand-written model vs the real Procedure.find* / cursor navigation on generated
procedures and patterns), plus a search whose oracle is the pre-order enumeration filtered by the
decision procedure proved equivalent to MatchRel (spec quirks off).
"""
from __future__ import annotations

import json
import os
import re
import subprocess
import sys

import common

ENGINE = "Find"
DRIVER = common.COQ / ENGINE / "_build" / "c16_driver"

QUIRK_KEYS = {
    "100": "C16:stride-dim0:",
    "010": "C16:call-args-ignored:",
    "001": "C16:writeconfig-wildcard:",
}


def run_driver(ck, jobs, name):
    d = common.SCRATCH / "c16"
    d.mkdir(parents=True, exist_ok=True)
    inp = d / ("%s.jobs" % name)
    inp.write_text("\n".join(jobs) + "\n")
    with open(inp) as fin:
        p = subprocess.run([str(DRIVER)], stdin=fin, stdout=subprocess.PIPE, stderr=subprocess.PIPE, text=True,
                           timeout=1500)
    outs = p.stdout.split("\n")
    if outs and outs[-1] == "":
        outs.pop()
    if p.returncode != 0 or len(outs) != len(jobs):
        ck.broken_obligation("model-driver:" + name, "rc=%s, %d jobs, %d answers, stderr=%s"
                             % (p.returncode, len(jobs), len(outs), p.stderr[-300:]))
        outs = outs + ["(driver-error missing)"] * (len(jobs) - len(outs))
    return outs


def split_top(s):
    """split the top-level elements of an s-expression list given as text"""
    s = s.strip()
    assert s.startswith("(") and s.endswith(")"), s[:80]
    out, depth, cur = [], 0, []
    for tok in re.findall(r"\(|\)|[^\s()]+", s[1:-1]):
        if tok == "(":
            depth += 1
            cur.append(tok)
        elif tok == ")":
            depth -= 1
            cur.append(tok)
            if depth == 0:
                out.append(join_toks(cur))
                cur = []
        else:
            cur.append(tok)
            if depth == 0:
                out.append(tok)
                cur = []
    return out


def join_toks(toks):
    s = ""
    for t in toks:
        if t == ")":
            s += ")"
        elif s.endswith("(") or not s:
            s += t
        else:
            s += " " + t
    return s


def norm(s):
    return join_toks(re.findall(r"\(|\)|[^\s()]+", s))


def codes(s):
    return "(s" + "".join(" %d" % ord(c) for c in s) + ")"


def expected_shape(model_res, many):
    """the model returns a list of cursors; Procedure.find returns the first one unless many=True"""
    if not model_res.startswith("(ok "):
        return model_res
    if many:
        return model_res
    items = split_top(model_res[4:-1])
    return "(ok %s)" % items[0] if items else "(err SchedulingError)"


def pattern_features(past):
    tags = []
    if past is None:
        return ["unparsed"]
    tags.append("stmt" if past.startswith("(S") else "expr")
    if "(SHole)" in past:
        tags.append("shole")
    if past.startswith("(S") and len(split_top(split_top(past)[1])) > 1:
        tags.append("multi")
    return tags


def run(ck: common.Check):
    # ------------------------------------------------------------------ 1. proofs + extracted model
    import time
    for old in common.REPLAYS.glob("C16-*.json"):  # replays of earlier runs are stale
        old.unlink()
    t0 = time.time()
    ok_build = ck.coq_build(ENGINE, timeout=1200)
    ck.log("coq build: %.1fs" % (time.time() - t0))
    t0 = time.time()
    ok_ext = ck.extract(ENGINE)
    ck.log("extraction + driver build: %.1fs" % (time.time() - t0))
    ck.obligation("extracted-model-driver", ok_ext and DRIVER.exists(), "" if ok_ext else "extract.sh failed")
    ck.cov["trusted_base"] = [
        "Coq 8.16.1 kernel (coqc, full .vo build of coq/Find)",
        "Coq extraction (ExtrOcamlBasic only) + OCaml 4.13 + coq/Find/driver.ml (s-expression reader/printers)",
        "harness/c16_impl.py exporters LoopIR/PAST -> s-expressions (fail closed) and canonical cursor printing",
        "pyparser.pattern (pattern text -> PAST) is observed, not modelled: the model matches the PAST the real parser produced",
        "hand-written model coq/Find/Model.v of pattern_match.py / internal_cursors.py / API_cursors.py: agreement is sampled (correspondence), not proved",
    ]
    ck.assumptions = [
        "MatchRel (coq/Find/Spec.v) is the specification of 'structurally matches': index/size/argument lists are compared "
        "over the common prefix only (zip truncation: `x = _` matches `x[i, j] = e`, `x[0] = 0.0` matches the scalar `x = 0.0`; "
        "expression READ patterns are additionally rank-checked unless all their indices are holes (match_idx, /repo 2bbe1c40); "
        "existing behaviour relied upon by "
        "_replace_writes, part of the spec, flagged here), a statement hole followed by a pattern absorbs statements up to the "
        "FIRST statement matching that pattern (no backtracking), a trailing hole needs at least one statement, a WindowStmt is "
        "matched by an assignment pattern without indices, a WindowExpr by `x[_]`, literals compare by Python == (1 == 1.0 == True), "
        "Alloc patterns ignore the element type",
        "one code behaviour is NOT part of the spec and is reported as finding F-C16-2: Call patterns ignore their arguments "
        "(Model.impl_quirks.q_callargs; C16_match_impl_refuted / _partial). Two former deviations (stride(x, 0) acting as "
        "stride(x, _), `_` not honoured in WriteConfig patterns) were repaired in /repo 80472758 / e0571e51; they are kept as "
        "regression cases (known-witness stream, Proofs_Quirks.regression_*), as is the read-rank defect (x[0] matching the read x)",
        "patterns with two adjacent statement holes make Python raise AssertionError; the model treats the look-ahead hole as "
        "non-matching (wf_pats characterises the patterns that cannot assert)",
        "the `#n` / name-shorthand regexes are modelled for ASCII input only",
        "navigation is modelled for the attributes pattern_match._children follows plus proc.args; Alloc.type / fnarg.type are not navigable in the model",
    ]
    if not (ok_ext and DRIVER.exists()):
        ck.broken_obligation("correspondence:not-run", "model driver missing")
        return

    # ------------------------------------------------------------------ 2. real implementation run
    n_procs = ck.n(50, 2000)
    n_pats = ck.n(32, 60)
    nav_budget = ck.n(2500, 4000)
    sdir = common.scratch_dir("c16_run")
    out = sdir / "impl.jsonl"
    seed = ck.rng.getrandbits(40)
    cmd = [common.PY, str(common.VERIF / "harness" / "c16_impl.py"), str(seed), str(n_procs), str(n_pats),
           str(nav_budget), str(sdir), str(out)]
    t0 = time.time()
    rc, log = common.sh(cmd, timeout=ck.n(170, 1700), env=common.exo_env(), cwd=str(sdir))
    ck.log("implementation run: %.1fs" % (time.time() - t0))
    if rc != 0 or not out.exists():
        ck.broken_obligation("impl-driver", "rc=%s %s" % (rc, log[-600:]))
        return
    recs = [json.loads(l) for l in open(out)]
    procs = {r["id"]: r for r in recs if r["t"] == "proc"}
    rejects = [r for r in recs if r["t"] == "reject"]
    bad = [r for r in recs if r["t"] in ("export_error", "driver_error")]
    done = [r for r in recs if r["t"] == "done"]
    ck.log("generated procedures: %d accepted, %d rejected by exo, %d harness errors" % (len(procs), len(rejects), len(bad)))
    if bad:
        ck.broken_obligation("impl-driver-errors", json.dumps(bad[0])[:800])
    if not done or len(procs) < n_procs // 2:
        ck.broken_obligation("generator-collapse", "only %d of %d procedures accepted" % (len(procs), n_procs))
    ck.cov["programs"] = len(procs)
    ck.cov["rejected_by_exo"] = len(rejects)

    # the three known deviations: does Model.impl_quirks still describe the code under test?
    qrec = [r for r in recs if r["t"] == "quirks"]
    model_bits = run_driver(ck, ["(quirks)"], "quirks")[0]
    if not re.fullmatch(r"[01]{3}", model_bits):
        ck.broken_obligation("model-driver:quirks", model_bits[:200])
        model_bits = "111"
    if qrec:
        ck.cov["impl_quirks(stride0,callargs,wcfg)"] = {"implementation": qrec[0]["bits"], "model": model_bits}
        ck.obligation("Model.impl_quirks matches the implementation's probes", qrec[0]["bits"] == model_bits,
                      "implementation exhibits quirks %s (stride-dim0, call-args-ignored, writeconfig-wildcard) but "
                      "Model.impl_quirks = %s: flip the field(s) in coq/Find/Model.v (and drop the matching Example in "
                      "Proofs_Quirks.v)" % (qrec[0]["bits"], model_bits))
    finds = [r for r in recs if r["t"] == "find"]
    navs = [r for r in recs if r["t"] == "nav"]
    laws = [r for r in recs if r["t"] == "law"]

    # ------------------------------------------------------------------ 3. glue (#n regex, shorthands)
    jobs = []
    for r in finds:
        fn = {"find": "find", "find_all": "find", "cursor.find": "find", "find_loop": "find_loop",
              "find_alloc_or_arg": "find_alloc_or_arg"}[r["api"]]
        many = r["many"] or r["api"] == "find_all"
        r["_many"] = many
        ascii_ok = all(ord(c) < 128 for c in r["raw"])
        r["_ascii"] = ascii_ok
        jobs.append("(glue %s (%s) %s %d)" % (fn, " ".join(r["args"]), codes(r["raw"]) if ascii_ok else "(s)", 1 if many else 0))
    outs = run_driver(ck, jobs, "glue")
    for r, o in zip(finds, outs):
        r["_glue"] = o
        r["_mno"] = r["obs_match_no"]
        if not r["_ascii"]:
            continue
        key = ("glue", r["api"], r["raw"], r["_many"])
        if o.startswith("(arg "):
            i = int(o[5:-1])
            exp = "(ok (N ((args %d))))" % i
            ck.case("glue", key, True, {"api": r["api"], "raw": r["raw"], "model": o, "real": r["real"]}, tag="arg-shortcut")
            if norm(r["real"]) == exp and not r["matcher_called"]:
                ck.corr_agree("glue")
            else:
                ck.corr_diverge("glue", {"raw": r["raw"], "api": r["api"], "model": o, "real": r["real"]})
            r["_skip_find"] = True
            continue
        m = re.match(r"^\(pat (\(s[ 0-9]*\)) (none|\d+)\)$", o)
        if not m:
            ck.corr_diverge("glue", {"raw": r["raw"], "model": o})
            continue
        if r["obs_pattern"] is None:
            # the real code never reached pyparser.pattern (e.g. TypeError before): nothing to compare
            ck.case("glue", key, False, None, tag="not-reached")
            ck.corr_agree("glue")
            continue
        ok = m.group(1) == codes(r["obs_pattern"])
        if r["matcher_called"]:
            mn = "none" if r["obs_match_no"] is None else str(r["obs_match_no"])
            ok = ok and mn == m.group(2)
        ck.case("glue", key, "#" in r["raw"] or r["api"] != "find", {"api": r["api"], "raw": r["raw"], "model": o},
                tag="hash" if "#" in r["raw"] else "plain")
        if ok:
            ck.corr_agree("glue")
        else:
            ck.corr_diverge("glue", {"raw": r["raw"], "api": r["api"], "model": o, "obs_pattern": r["obs_pattern"],
                                     "obs_match_no": r["obs_match_no"]})

    # ------------------------------------------------------------------ 4. find correspondence + oracle
    jobs, idx = [], []
    for r in finds:
        if r.get("_skip_find") or r["past"] is None:
            continue
        if not r["matcher_called"]:
            continue
        mno = "none" if r["_mno"] is None else str(r["_mno"])
        sx = procs[r["proc"]]["sexp"]
        base = "%s %s %s %s" % (sx, r["ctx"], r["past"], mno)
        jobs.append("(find api impl %s)" % base)
        jobs.append("(find all impl %s)" % base)
        jobs.append("(find all spec %s)" % base)
        jobs.append("(wf %s)" % r["past"])
        idx.append(r)
    outs = run_driver(ck, jobs, "find")
    need_class = []
    for j, r in enumerate(idx):
        m_api, m_all, m_spec, wf = outs[4 * j: 4 * j + 4]
        real = norm(r["real"])
        many = r["_many"]
        stream = r["stream"]
        exp = expected_shape(m_api, many)
        tags = pattern_features(r["past"])
        nontrivial = real.startswith("(ok")
        key = (stream, procs[r["proc"]]["sexp"], r["ctx"], r["past"], r["_mno"], many)
        sample = {"api": r["api"], "pattern": r["raw"], "many": many, "ctx": r["ctx"], "past": r["past"], "real": real[:300],
                  "proc_src": procs[r["proc"]]["src"].split("@proc\n")[-1][:600]}
        tag = "+".join(tags) + (":match" if nontrivial else ":" + real[5:-1])
        ck.case(stream, key, nontrivial, sample, tag=tag)
        if real == exp or (wf == "false" and real == "(err AssertionError)"):
            ck.corr_agree(stream)
        else:
            ck.corr_diverge(stream, {"pattern": r["raw"], "api": r["api"], "ctx": r["ctx"], "past": r["past"],
                                     "model": exp[:400], "real": real[:400], "proc": procs[r["proc"]]["src"]})
        # the stateful traversal and the pre-order enumeration agree (proved: C16_find_all / C16_find_nth)
        if expected_shape(m_all, many) != exp:
            ck.corr_diverge("model-selfcheck", {"api": exp[:300], "all": m_all[:300]})
        # search oracle: pre-order enumeration filtered by the MatchRel decision procedure (spec quirks)
        oracle = expected_shape(m_spec, many)
        ck.case("search-oracle", key, nontrivial, None, tag=tag)
        if real == oracle or (wf == "false" and real == "(err AssertionError)"):
            ck.corr_agree("search-oracle")
        else:
            need_class.append((r, oracle, real))
    # classify oracle mismatches by the single quirk that explains them
    jobs = []
    for r, oracle, real in need_class:
        mno = "none" if r["_mno"] is None else str(r["_mno"])
        base = "%s %s %s %s" % (procs[r["proc"]]["sexp"], r["ctx"], r["past"], mno)
        for q in ("100", "010", "001"):
            jobs.append("(find all %s %s)" % (q, base))
    outs = run_driver(ck, jobs, "classify") if jobs else []
    nviol = {}
    for j, (r, oracle, real) in enumerate(need_class):
        expl = [q for q, o in zip(("100", "010", "001"), outs[3 * j: 3 * j + 3]) if expected_shape(o, r["_many"]) == real]
        # prefer a deviation the implementation is known to have now (Model.impl_quirks) over a repaired one
        expl.sort(key=lambda q: 0 if model_bits[q.index("1")] == "1" else 1)
        prefix = QUIRK_KEYS[expl[0]] if len(expl) >= 1 else "C16:find-mismatch:"
        key = prefix + "%s|%s" % (r["api"], r["raw"].replace("\n", "\\n"))
        nviol[prefix] = nviol.get(prefix, 0) + 1
        if nviol[prefix] > 2:  # two concrete inputs per class are enough; the count is in the evidence
            st = ck.stream("search-oracle")
            st.setdefault("mismatch_by_key", {})
            st["mismatch_by_key"][prefix] = st["mismatch_by_key"].get(prefix, 0) + 1
            continue
        st = ck.stream("search-oracle")
        st.setdefault("mismatch_by_key", {})
        st["mismatch_by_key"][prefix] = st["mismatch_by_key"].get(prefix, 0) + 1
        new = ck.violation(key, {"api": r["api"], "pattern": r["raw"], "many": r["_many"], "ctx": r["ctx"],
                                 "past": r["past"], "real": real, "oracle(MatchRel, pre-order)": oracle,
                                 "proc_src": procs[r["proc"]]["src"]},
                           "find result differs from the pre-order enumeration of MatchRel matches")
        if new and prefix == "C16:find-mismatch:":
            ck.log("find mismatch: %s on %r: real %s oracle %s" % (r["api"], r["raw"], real[:200], oracle[:200]))
    if nviol:
        ck.log("search-oracle mismatches by key prefix: %s" % nviol)

    # regression cases of the two repaired deviations (F-C16-1 stride-dim0, F-C16-3 writeconfig-wildcard)
    expect = {"stride(A, 0)": "(err SchedulingError)", "stride(A, 1)": "(ok ((N ((body 1) (args 2)))))",
              "_.a = _": "(ok ((N ((body 0)))))", "Cfg._ = _": "(ok ((N ((body 0)))))", "Cfg.a = _": "(ok ((N ((body 0)))))",
              # rank test of expression reads (/repo 2bbe1c40): x[0] must not match the read x nor x[0, 5]
              "t[0]": "(err SchedulingError)", "A[0]": "(err SchedulingError)", "B[0, 5]": "(err SchedulingError)",
              "A[0, 0]": "(ok ((N ((body 5) (rhs none) (lhs none)))))", "A[_]": "(ok ((N ((body 5) (rhs none) (lhs none)))))",
              "A": "(ok ((N ((body 5) (rhs none) (lhs none)))))", "B[0]": "(ok ((N ((body 5) (rhs none) (rhs none)))))",
              "t[0] = 0.0": "(ok ((N ((body 3)))))"}
    for r in finds:
        if r["stream"] == "known-witness" and r["raw"] in expect:
            okr = norm(r["real"]) == expect[r["raw"]]
            ck.obligation("regression:%s" % r["raw"], okr, "" if okr else "real %s expected %s" % (r["real"], expect[r["raw"]]))
            if not okr:
                ck.violation("C16:regression:%s" % r["raw"], {"pattern": r["raw"], "real": r["real"], "expected": expect[r["raw"]],
                                                             "proc_src": procs[r["proc"]]["src"]},
                             "a repaired matcher deviation is back")

    # unparsed / rejected patterns: only the outcome class is recorded
    for r in finds:
        if r.get("_skip_find"):
            continue
        if r["past"] is None or not r["matcher_called"]:
            ck.case(r["stream"], ("unparsed", r["raw"], r["api"]), False, None, tag="rejected-before-matching:" + r["real"][5:-1])
            ck.corr_agree(r["stream"])

    # ------------------------------------------------------------------ 5. navigation correspondence
    jobs = []
    for r in navs:
        jobs.append("(nav %s (%s))" % (procs[r["proc"]]["sexp"], " ".join(r["queries"])))
    outs = run_driver(ck, jobs, "nav")
    for r, o in zip(navs, outs):
        try:
            model = split_top(o)
        except AssertionError:
            model = []
        if len(model) != len(r["queries"]):
            ck.corr_diverge("nav", {"proc": r["proc"], "detail": "driver answered %d of %d: %s" % (len(model), len(r["queries"]), o[:200])})
            continue
        for q, mo, re_ in zip(r["queries"], model, r["real"]):
            meth = q[1:].split(" ", 1)[0]
            re_n = norm(re_)
            ck.case("nav", (procs[r["proc"]]["sexp"], q), re_n.startswith("(ok"), {"query": q, "real": re_n, "model": mo},
                    tag=meth + (":ok" if re_n.startswith("(ok") else ":" + re_n[5:-1]))
            if mo == re_n:
                ck.corr_agree("nav")
            else:
                ck.corr_diverge("nav", {"query": q, "model": mo, "real": re_n, "proc": procs[r["proc"]]["src"]})

    # ------------------------------------------------------------------ 6. navigation laws on the real cursors
    for r in laws:
        st = ck.stream("laws-on-impl")
        st["cases"] += r["checked"]
        ck.cov["evaluations"] += r["checked"]
        st["agree"] += r["checked"] - len(r["fails"])
        for f in r["fails"]:
            st["diverge"] += 1
            ck.violation("C16:%s:%s" % (f.get("kind", "navlaw"), f["law"]), {"law": f["law"], "cursor/pattern": f["cursor"], "detail": f["detail"],
                                                      "proc_src": procs[r["proc"]]["src"]},
                         "a navigation / find law fails on the real implementation")

    # distribution summary
    ck.cov["rule"] = (
        "procedures: grammar-directed Exo source text (nested if/else, loops with lower bounds, allocs, windows, calls, config "
        "reads/writes, externs, stride expressions, re-used names) through the real @proc front end; patterns: derived from a "
        "random IR node/statement run with random holes, zip-truncated index lists and `#n` suffixes, plus templates of the "
        "documented language, name shorthands, a context-cursor stream and a malformed stream; a find case is non-trivial when "
        "the real call returned at least one cursor; distinct = distinct (procedure, context, PAST, match_no, many). "
        "navigation: every node/gap/block position (sampled sub-ranges and arguments) x every navigation method; non-trivial = "
        "the real call returned a value rather than raising"
    )
    ck.cov["find_cases_with_matches"] = sum(1 for r in idx if r["real"].startswith("(ok"))
    ck.cov["find_cases"] = len(idx)
    for s in ("find-derived-stmt", "find-derived-expr", "find-template", "find-context", "find-loop", "find-alloc-or-arg",
              "find-malformed", "nav", "glue", "search-oracle"):
        st = ck.streams.get(s)
        if st:
            ck.log("stream %-20s cases %6d agree %6d diverge %d" % (s, st["cases"], st["agree"], st["diverge"]))
    # a stream without positive cases is a harness failure, not a pass
    for s in ("find-derived-stmt", "find-derived-expr", "find-template"):
        st = ck.streams.get(s, {"distribution": {}})
        pos = sum(v for k, v in st["distribution"].items() if k.endswith(":match"))
        if pos < 10:
            ck.broken_obligation("generator-collapse:" + s, "only %d cases with matches" % pos)
