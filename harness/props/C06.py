"""C06 — Forwarded cursors denote the same code or are invalid.

1. build coq/Cursors (theorems in Props_C06.v) and the extracted OCaml model driver;
2. (a) internal-API correspondence: random statement trees x random atomic edits through the REAL
       exo.core.internal_cursors API, EVERY node/block/gap cursor forwarded by the real code and by the model;
3. (b) API-level search: real scheduling primitives (and chains of 2-4) on generated procedures; identity
       oracle on `new_proc.forward(c)` for every statement/block/gap cursor; implicit == explicit forwarding;
       the edit scripts the primitives issue are recorded (monkey-patching) and replayed in the model;
       `move_pre` is checked on every `_move` issued.
"""
from __future__ import annotations

import random
import time

import common


def run(ck: common.Check):
    t0 = time.time()
    ok = ck.coq_build("Cursors")
    ck.extract("Cursors")
    ck.log("coq build + extraction: %.1fs" % (time.time() - t0))

    import c06_corr
    import c06_api as A

    # ------------------------------------------------------------------ (a) internal API correspondence
    plan = [  # (stream, generator options, cases quick/thorough, time budget quick/thorough [s])
        ("internal:insert", dict(kinds=["insert"]), ck.n(150, 1200), ck.n(8, 45)),
        ("internal:delete", dict(kinds=["delete"]), ck.n(150, 1200), ck.n(8, 45)),
        ("internal:replace", dict(kinds=["replace"]), ck.n(150, 1200), ck.n(8, 45)),
        ("internal:wrap", dict(kinds=["wrap"]), ck.n(150, 1200), ck.n(8, 45)),
        ("internal:move", dict(kinds=["move"]), ck.n(300, 2500), ck.n(14, 90)),
        ("internal:mixed-chains", dict(), ck.n(200, 1600), ck.n(10, 60)),
        ("internal:malformed", dict(malformed=True), ck.n(150, 800), ck.n(10, 40)),
    ]
    import c06_impl
    variant = detect_variant()
    c06_impl.VARIANT[0] = variant
    ck.log("variant of %s/src/exo/core/internal_cursors.py: _forward_wrap.fwd_block anchors at %s; _forward_move block "
           "branch %s" % (common.REPO, "rng.start (repaired)" if variant[0] else "blk_rng.start (as found)",
                          "asserts (as found)" if variant[1] else "raises InvalidCursorError (repaired)"))
    for f in common.REPLAYS.glob('C06-*.json'):  # stale replays of earlier runs
        f.unlink()
    for stream, kw, n, budget in plan:
        tot = c06_corr.run(ck, n, stream, budget_s=budget, **kw)
        st = ck.streams[stream]
        ck.log("%s: cases %d agree %d diverge %d; cursors %d (ok %d invalid %d crash %d); internal-level "
               "property failures: wrong-stmt %d dangling %d; moves outside move_pre %d; steps covered by "
               "theorem C06_edit %d, its conclusion failing on the real result %d"
               % (stream, st["cases"], st["agree"], st["diverge"], tot.get("cursors", 0), tot.get("ok", 0),
                  tot.get("invalid", 0), tot.get("crash", 0), tot.get("same_fail", 0), tot.get("dangling", 0),
                  tot.get("move_pre_false", 0), tot.get("thm_covered", 0), tot.get("thm_conclusion_fails", 0)))

    ck.log("internal-API correspondence done at %.1fs" % (time.time() - t0))
    # ------------------------------------------------------------------ (b) API level
    import c06_regress
    rstats = {}
    c06_regress.run(ck, rstats)
    ck.log("regression reproducers: F2/F5/F1-assert/F3 (fixed) must pass, F1-hull/F4 (open) are reported by the oracle: %s"
           % dict(sorted((k, v) for k, v in rstats.items() if isinstance(v, int))))
    rng = random.Random(ck.rng.getrandbits(64))
    nprocs = ck.n(14, 110)
    per_proc = ck.n(14, 22)
    nchains = ck.n(10, 90)
    stats = {}
    prim_acc = {}
    prim_try = {}
    broken_before = len(ck.broken)
    t_api = time.time()
    budget_s = ck.n(55, 420)
    for k in range(nprocs):
        if time.time() - t_api > budget_s:
            ck.log("API-level single-primitive stage stopped by its time budget after %d procedures" % k)
            break
        p, src = A.gen_proc(rng)
        cands = A.candidates(p, rng)
        # sample so that rarely-applicable primitives are tried first
        byname = {}
        for c in cands:
            byname.setdefault(c[0], []).append(c)
        names = sorted(byname, key=lambda nm: (prim_acc.get(nm, 0), rng.random()))
        tried = 0
        for nm in names:
            if tried >= per_proc:
                break
            cs = byname[nm]
            rng.shuffle(cs)
            for (_nm, desc, thunk) in cs[:3]:
                prim_try[nm] = prim_try.get(nm, 0) + 1
                p2, events, err = A.apply_candidate(thunk)
                if p2 is None:
                    stats["rejected:" + (err or "?")] = stats.get("rejected:" + (err or "?"), 0) + 1
                    if err.startswith("!") and ("logged:" + nm + err) not in stats:
                        stats["logged:" + nm + err] = 1
                        ck.log("primitive %s @ %s itself raised %s (counted as rejected)" % (nm, desc, err[1:]))
                    continue
                prim_acc[nm] = prim_acc.get(nm, 0) + 1
                tried += 1
                chain = "%s" % nm
                replay = {"source": src, "primitives": ["%s @ %s" % (nm, desc)]}
                ck.case("api:single", (src, nm, desc), nontrivial=True, tag=nm,
                        sample={"source": src, "primitive": "%s @ %s" % (nm, desc)})
                A.check_forward(ck, p, p2, chain, replay, stats, events=events)
                A.check_implicit(ck, p, p2, chain, replay, stats, rng, limit=ck.n(3, 8))
                if events or p2._loopir_proc is not p._loopir_proc:
                    if not events:
                        stats["no_edit_api"] = stats.get("no_edit_api", 0) + 1
                        stats.setdefault("no_edit_api_prims", set()).add(nm)
                    else:
                        A.replay_in_model(ck, p, p2, events, chain, replay, stats)
                break
    # chains of 2-4 primitives
    t_ch = time.time()
    budget_c = ck.n(25, 240)
    for k in range(nchains):
        if time.time() - t_ch > budget_c:
            ck.log("API-level chain stage stopped by its time budget after %d chains" % k)
            break
        p0, src = A.gen_proc(rng)
        procs = [p0]
        names = []
        descs = []
        evs = []
        want = rng.choice([2, 3, 4])
        guard = 0
        while len(procs) <= want and guard < 40:
            guard += 1
            cur = procs[-1]
            cands = A.candidates(cur, rng)
            nm, desc, thunk = rng.choice(cands)
            p2, events, err = A.apply_candidate(thunk)
            if p2 is None:
                continue
            prim_acc[nm] = prim_acc.get(nm, 0) + 1
            replay = {"source": src, "primitives": descs + ["%s @ %s" % (nm, desc)]}
            if events:
                A.replay_in_model(ck, cur, p2, events, "+".join(names + [nm]), replay, stats, stream="api-replay-chain")
            procs.append(p2)
            evs.append(events)
            names.append(nm)
            descs.append("%s @ %s" % (nm, desc))
        if len(procs) < 3:
            continue
        chain = "+".join(names)
        replay = {"source": src, "primitives": descs}
        ck.case("api:chain", (src, tuple(descs)), nontrivial=True, tag="len%d" % (len(procs) - 1),
                sample={"source": src, "primitives": descs})
        # cursors of every earlier procedure forwarded to the last one
        for j in range(len(procs) - 1):
            if j > 0 and len(procs) - 1 - j < 2:
                break
            A.check_forward(ck, procs[j], procs[-1], "+".join(names[j:]), {**replay, "from_step": j}, stats,
                            events=[e for es in evs[j:] for e in es])
        A.check_implicit(ck, procs[0], procs[-1], chain, replay, stats, rng, limit=3)

    for s in ("api:single", "api:chain"):
        st = ck.stream(s)
        st["agree"] = st["cases"]  # search streams: no model diff, the oracle is object identity
    undefined = sorted(stats.pop("undefined_prims", set()))
    noedit = sorted(stats.pop("no_edit_api_prims", set()))
    ck.stream("api:single")["primitives_tried"] = prim_try
    ck.stream("api:single")["primitives_accepted"] = prim_acc
    ck.stream("api:single")["oracle_stats"] = stats
    ck.stream("api:single")["forwarding_undefined_by_implementation"] = undefined
    ck.stream("api:single")["not_through_edit_api"] = noedit
    ck.log("API level: primitives accepted %s" % dict(sorted(prim_acc.items())))
    ck.log("API level: oracle stats %s" % dict(sorted(stats.items())))
    ck.log("API level: forwarding undefined by the implementation for: %s" % undefined)
    if sum(prim_acc.values()) < ck.n(25, 200) or len(prim_acc) < 10:
        ck.broken_obligation("generator-collapse:api", "only %d primitive applications over %d primitives were accepted"
                             % (sum(prim_acc.values()), len(prim_acc)))

    # ------------------------------------------------------------------ evidence
    ck.cov["rule"] = (
        "(a) seeded random statement trees (<=12 stmts, depth<=3, ifs with orelse) x random atomic edits / chains of "
        "1-3 edits through the real internal_cursors API; ALL node, block (every lo<hi) and gap cursors of the source "
        "tree forwarded by the real code and by the extracted Coq model (plus empty/out-of-range cursors and invalid "
        "edits in the malformed stream); trees compared label by label. (b) seeded random @proc sources through the "
        "real front end x every applicable scheduling primitive (argument positions enumerated over all statements) "
        "and random chains of 2-4; EVERY statement/block/gap cursor of the source procedure forwarded with "
        "Procedure.forward, oracle = object identity of shared LoopIR nodes; implicit vs explicit forwarding; recorded "
        "edit scripts replayed in the model (final tree, composed forwarding function, move_pre on every _move).")
    ck.cov["trusted_base"] = [
        "Coq 8.16.1 kernel (coqc, full .vo)",
        "extraction: Require Extraction + ExtrOcamlBasic only; OCaml 4.13.1; coq/Cursors/ocaml/driver.ml (s-expression reader/printer)",
        "hand-written model coq/Cursors/Model.v of internal_cursors.py: agreement with the code is sampled (streams internal:* and api-replay*), not proved",
        "harness/c06_impl.py (LoopIR construction, labels via id()/srcinfo tag, canonical cursors), harness/c06_corr.py, harness/c06_api.py (generator, recorder, identity oracle)",
        "statement level only: expression cursors and expression-level edits are the identity edit ENop in the model",
        "that each primitive emits the edit script it should is observed (recorded), not proved",
    ]
    ck.assumptions = [
        "valid_edit: the edit's block/gap exists in the tree; for move the gap is not inside the moved subtrees and a "
        "redirected no-op move does not end its list (otherwise the real _move raises IndexError)",
        "wrap_pre: only for the pre-repair variant of _forward_wrap.fwd_block (C06_edit_wrap_before_fix_refuted); "
        "True for the code as it is now (variant detected in the source on every run)",
        "move_ok = move_pre (C06_move_refuted: _forward_move's new_gap_path is wrong for a later gap in a subtree "
        "leaving the block's path above the block's level; checked on every _move a primitive issues) + non-empty "
        "moved block + move_blk_okb (block cursors on the source/target list: disjoint from or inside the moved range, "
        "gap not strictly inside; otherwise hull/AssertionError: C06_move_block_hull_refuted, C06_move_block_crash_refuted)",
        "chain_pre: no intermediate forwarded block cursor has collapsed to the empty block (an exactly deleted block "
        "forwards to an in-bounds EMPTY internal block, which lift_cursor reports as InvalidCursorError)",
        "same_e: a block cursor enclosing the edited range denotes the old statements with the removed ones replaced "
        "by the inserted ones (blk_rel); all other cursors: identical labels",
    ]
    ck.log("C06 run took %.1fs" % (time.time() - t0))


def detect_variant():
    """fail-closed look at the two places of internal_cursors.py that exist in two variants (Model.variant)"""
    import ast
    src = (common.REPO / "src" / "exo" / "core" / "internal_cursors.py").read_text()
    tree = ast.parse(src)
    wrap_fixed = None
    move_asserts = None
    for cls in [n for n in tree.body if isinstance(n, ast.ClassDef) and n.name == "Block"]:
        for fn in [n for n in cls.body if isinstance(n, ast.FunctionDef) and n.name == "_forward_wrap"]:
            for inner in [n for n in fn.body if isinstance(n, ast.FunctionDef) and n.name == "fwd_block"]:
                for ret in [n for n in ast.walk(inner) if isinstance(n, ast.Return) and isinstance(n.value, ast.List)]:
                    elts = ret.value.elts
                    if len(elts) == 2 and isinstance(elts[0], ast.Tuple):
                        second = ast.unparse(elts[0].elts[1])
                        if second == "blk_rng.start":
                            wrap_fixed = False
                        elif second == "rng.start":
                            wrap_fixed = True
                        else:
                            raise RuntimeError("unexpected anchor index in _forward_wrap.fwd_block: " + second)
        for fn in [n for n in cls.body if isinstance(n, ast.FunctionDef) and n.name == "_forward_move"]:
            for inner in [n for n in fn.body if isinstance(n, ast.FunctionDef) and n.name == "forward"]:
                blk = [n for n in inner.body if isinstance(n, ast.If) and "Block" in ast.unparse(n.test)]
                if len(blk) != 1:
                    raise RuntimeError("cannot locate the Block branch of _forward_move.forward")
                asserts = [ast.unparse(n.test) for n in ast.walk(blk[0]) if isinstance(n, ast.Assert)]
                raises = [n for n in ast.walk(blk[0]) if isinstance(n, ast.Raise)]
                if any("new_start <= new_end" in a for a in asserts):
                    move_asserts = True
                elif not asserts and len(raises) >= 2:
                    move_asserts = False
                else:
                    raise RuntimeError("unexpected shape of the Block branch of _forward_move: asserts=%r" % asserts)
    if wrap_fixed is None or move_asserts is None:
        raise RuntimeError("cannot locate Block._forward_wrap.fwd_block / Block._forward_move.forward")
    return (wrap_fixed, move_asserts)
