"""C02 — Generated C computes what the procedure means.

1. Gen_CIR.v is regenerated from the CURRENT LoopIR_compiler.py (operations, simplify_cir, tensor_strides,
   get_idx_offset, C bodies of exo_floor_div / exo_floor_mod), then coq/Backend is built: Props_C02.v holds the theorems.
2. Correspondence (harness/c02_corr.py): the translated and hand-written model pieces against the real functions
   (simplify_cir, lift_to_cir, comp_cir text, tensor_strides / get_idx_offset trees, access_str and
   window_struct_fields texts), evaluated in vm_compute shards; plus the VALUE of the real emitted texts (gcc) against
   floor arithmetic (brute force) and against the model's xeval.
3. The main search (harness/c02_search.py): real generated C, built with gcc and executed, against the extracted Coq
   reference interpreter (Core.Sem.run) on generated procedures, annotated variants and scheduled variants.
   It is at the same time the validation of Core.Sem against the implementation's executable semantics."""
from __future__ import annotations

import os
import re
import shutil
import time

import common

QUICK_BUDGET = 175.0  # seconds, whole check
THOROUGH_BUDGET = 24 * 60.0


def ensure_core(ck):
    """Backend's proofs import Core.Sem: make sure Syntax.vo / Sem.vo exist and are current (shared, read-only for us)"""
    d = common.COQ / "Core"
    need = False
    for stem in ("Syntax", "Sem"):
        vo, v = d / (stem + ".vo"), d / (stem + ".v")
        if not vo.exists() or vo.stat().st_mtime < v.stat().st_mtime:
            need = True
    if need:
        rc, out = common.sh("coq_makefile -f _CoqProject -o Makefile.coq >/dev/null && make -f Makefile.coq Syntax.vo Sem.vo",
                            timeout=900, cwd=d)
        if rc != 0:
            ck.broken_obligation("coq-build:Core.Sem", out[-600:])
            return False
    return True


def private_interp(ck):
    """a private copy of the extracted interpreter (another check may rebuild the shared binary while we run)"""
    import export
    src = common.COQ / "Core" / "_build" / "interp"
    dst_dir = common.SCRATCH / "c02" / ("run%d" % os.getpid())
    dst_dir.mkdir(parents=True, exist_ok=True)
    dst = dst_dir / "interp"
    for attempt in range(6):
        try:
            if not src.exists():
                rc, out = common.sh(["bash", "extract.sh"], cwd=common.COQ / "Core", timeout=600)
                if rc != 0:
                    raise RuntimeError(out[-300:])
            tmp = dst_dir / ("interp.%d" % os.getpid())
            shutil.copy2(src, tmp)
            os.chmod(tmp, 0o755)
            os.replace(tmp, dst)
            rc, out = common.sh([str(dst)], input="(run nosuch (input () ()))\n", timeout=20)
            if rc == 0 and out.startswith("error"):
                export.INTERP = str(dst)
                return True
        except Exception as e:  # the shared binary is being rewritten: retry
            ck.log("interpreter copy attempt %d: %s" % (attempt, e))
        time.sleep(3)
    ck.broken_obligation("reference-interpreter", "cannot obtain a runnable copy of coq/Core/_build/interp")
    return False


BUILD_CLASSES = [
    ("const-window-arg", re.compile(r"expected .struct exo_win_\w+c. but argument is of type .struct exo_win_\w+.|"
                                    r"expected .struct exo_win_\w+. but argument is of type .struct exo_win_\w+c.|"
                                    r"passing 'struct exo_win_\w+' to parameter of incompatible type 'struct exo_win_\w+'")),
    ("unsized-array", re.compile(r"array size missing|storage size of .* isn.t known|definition of variable with array type needs an explicit size")),
    ("window-to-tensor-param", re.compile(r"expected .(?:const )?\w+ \*. but argument is of type .struct exo_win_\w+.|"
                                         r"passing 'struct exo_win_\w+' to parameter of incompatible type '(?:const )?\w+ \*'")),
    ("const-window-write", re.compile(r"assignment of read-only location|read-only variable is not assignable|cannot assign to variable .* with const-qualified")),
]


def classify_build_failure(out: str) -> str:
    """class of the FIRST compiler error (later errors may be consequences of it)"""
    lines = out.splitlines()
    idx = next((i for i, l in enumerate(lines) if "error" in l), None)
    if idx is None:
        return "other"
    ctx = "\n".join(lines[idx: idx + 8])
    for name, rx in BUILD_CLASSES:
        if rx.search(ctx):
            return name
    return "other"


def run(ck: common.Check):
    t_start = time.time()
    budget = THOROUGH_BUDGET if ck.thorough else QUICK_BUDGET
    n = ck.n

    # ------------------------------------------------------------------ 0. the fixed corpus: first, complete, outside the budget
    import c02_search as S
    import c02_gen as G
    workers = int(os.environ.get("C02_WORKERS", "10"))
    have_interp = private_interp(ck)
    corpus_jobs, corpus_results = [], []
    uid = 0
    for name, body in S.CORPUS.items():
        corpus_jobs.append((uid, ck.rng.randrange(1 << 30), {"label": "corpus:" + name, "source": G.HEADER + body, "n_inputs": n(3, 6),
                                                             "n_sched": 0, "annotate": False, "also_O0": n(0.3, 1.0), "deadline": None}))
        uid += 1
    if have_interp:
        corpus_results = S.run_units(corpus_jobs, workers=workers, deadline=None, hard_after=1500)
        ck.log("corpus: %d programs executed in %.0fs" % (len(corpus_results), time.time() - t_start))
    t_corpus = time.time() - t_start
    t_start = time.time()  # the adaptive budget covers what follows

    # ------------------------------------------------------------------ 1. translator + proofs
    gen_ok = ck.gen("Backend")
    ensure_core(ck)
    built = ck.coq_build("Backend", props=["Props_C02"], jobs=8)
    ck.log("translator %s, coq build %s (%.0fs)" % ("ok" if gen_ok else "FAILED", "ok" if built else "FAILED", time.time() - t_start))
    model_ok = (common.COQ / "Backend" / "ModelCheck.vo").exists() and gen_ok

    # ------------------------------------------------------------------ 2. correspondence
    import c02_corr as C
    work = common.scratch_dir("c02_corr_%d" % os.getpid())  # private: concurrent runs must not delete each other's shards
    cs = C.Cases(ck, ck.rng)
    try:
        cs.simplify(n(300, 4000))
        cs.comp(n(250, 3000))
        cs.lift(n(100, 1000))
        cs.access(n(150, 2000))
        cs.window(n(150, 2000))
        cs.names(n(150, 2000))
        cs.value(n(250, 3000))
    except Exception as e:  # e.g. a mutated implementation raising something unexpected
        ck.broken_obligation("correspondence:real-side-crash", "%s: %s" % (type(e).__name__, e))
    value_lines = C.run_values(ck, cs, work)
    shards = None
    if model_ok:
        # evaluated by coqc processes in the background while the search below runs; collected after it
        shards = C.start_shards(cs.lines + value_lines, work, parallel=n(3, 6))
    else:
        ck.broken_obligation("correspondence:model-unavailable", "coq/Backend did not build; shards not evaluated")
    t_corr = time.time() - t_start

    # ------------------------------------------------------------------ 3. main search: C vs reference semantics
    if not have_interp:
        if shards is not None:
            C.finish_shards(ck, shards)
        return
    remaining = budget - (time.time() - t_start) - (45 if not ck.thorough else 120)
    # when a proof or a correspondence stream is broken the search is what produces the failing input: give it time
    deadline = time.time() + max(remaining, 150 if ck.broken else 75)
    n_inputs = n(3, 5)
    gen_jobs = []
    n_units = n(14, 2000)
    for k in range(n_units):
        gen_jobs.append((uid, ck.rng.randrange(1 << 30), {"label": "gen", "n_inputs": n_inputs, "n_sched": n(1, 2), "also_O0": 0.25,
                                                          "deadline": deadline, "unit_budget": 90}))
        uid += 1
    jobs = corpus_jobs + gen_jobs
    results = corpus_results + S.run_units(gen_jobs, workers=workers, deadline=deadline)
    labels = {j[0]: j[2]["label"] for j in jobs}

    stats = {"units_submitted": len(jobs), "units_finished": 0, "units_rejected_by_frontend": 0, "variants": {},
             "programs_compiled_and_run": 0, "inputs_agreed": 0, "skipped_inputs": {}, "features_of_agreeing_programs": {},
             "variants_by_kind": {}, "exo_refusals": {}, "phase_seconds": {}}
    deferred = {}
    for r in results:
        lab = labels.get(r["uid"], "?")
        if r["status"] == "rejected":
            stats["units_rejected_by_frontend"] += 1
            ck.case("cexec-frontend-rejected", r.get("src", "")[:2000], False, None, "rejected")
            if lab.startswith("corpus:"):
                ck.broken_obligation("corpus:" + lab, "the front end rejects a corpus program: %s" % r.get("detail"))
            continue
        if r["status"] == "harness-error":
            ck.broken_obligation("harness-error:unit", r.get("detail", "")[-600:])
            continue
        if r["status"] in ("deadline", "abandoned"):
            k2 = "units_not_started_before_deadline" if r["status"] == "deadline" else "units_abandoned_after_grace_period"
            stats[k2] = stats.get(k2, 0) + 1
            continue
        stats["units_finished"] += 1
        for k, v in (r.get("phase") or {}).items():
            stats["phase_seconds"][k] = round(stats["phase_seconds"].get(k, 0) + v, 1)
        for v in r["results"]:
            st = v["status"]
            stats["variants"][st] = stats["variants"].get(st, 0) + 1
            tags = v.get("tags") or []
            kind = "corpus" if lab.startswith("corpus:") else v["variant"].rstrip("0123456789")
            tagkey = "+".join(tags)
            if st == "agree":
                stats["programs_compiled_and_run"] += 1
                stats["inputs_agreed"] += v["inputs"]
                stats["variants_by_kind"][kind] = stats["variants_by_kind"].get(kind, 0) + 1
                for t in tags:
                    stats["features_of_agreeing_programs"][t] = stats["features_of_agreeing_programs"].get(t, 0) + 1
                for k2, c in (v.get("skipped") or {}).items():
                    stats["skipped_inputs"][k2] = stats["skipped_inputs"].get(k2, 0) + c
                for _ in range(v["inputs"]):
                    ck.case("cexec", (r["uid"], v["variant"], v.get("opt"), _), True, None, None)
                    ck.corr_agree("cexec")
                st_ = ck.stream("cexec")
                st_["distribution"][kind] = st_["distribution"].get(kind, 0) + 1
                if len([s for s in ck.cov["samples"] if s["stream"] == "cexec"]) < 3:
                    ck.cov["samples"].append({"stream": "cexec", "case": dict(v["sample"], unit=lab, tags=tags,
                                                                               exo_source=r["src"][-700:])})
            elif st == "mismatch":
                ck.case("cexec", (r["uid"], v["variant"], "mismatch"), True, None, "mismatch")
                key = "cexec:%s:%s" % (tagkey, v["kind"])
                if lab.startswith("corpus:"):  # a corpus program is a regression witness (repaired defects, clause examples)
                    key = "cexec:regress:%s:%s:%s" % (lab[len("corpus:"):], tagkey, v["kind"])
                rep = dict(v["replay"], unit=lab, unit_seed=r["seed"])
                ck.violation(key, rep, "generated C and reference semantics (Core.Sem) disagree: %s" % v["detail"])
                ck.log("MISMATCH %s [%s] %s: %s" % (lab, v["variant"], tagkey, v["detail"]))
            elif st == "cbuild-failed":
                cls = classify_build_failure(v["detail"])
                if cls == "other":
                    key = "cbuild:other:%s" % tagkey
                    if lab.startswith("corpus:"):
                        key = "cbuild:regress:%s:%s" % (lab[len("corpus:"):], tagkey)
                    rep = dict(v["replay"], unit=lab, unit_seed=r["seed"])
                    first = next((l for l in v["detail"].splitlines() if "error" in l), v["detail"][:200])
                    ck.violation(key, rep, "the generated C is rejected by the C compiler: %s" % first.strip())
                    ck.log("CBUILD %s [%s]: %s" % (lab, v["variant"], first.strip()[:200]))
                else:
                    deferred[cls] = deferred.get(cls, 0) + 1
                    if lab.startswith("corpus:"):
                        ck.broken_obligation("corpus:" + lab, "corpus program no longer builds (%s)" % cls)
            elif st == "exo-refused":
                m = re.match(r"(\w+)", v.get("detail", ""))
                k2 = m.group(1) if m else "?"
                stats["exo_refusals"][k2] = stats["exo_refusals"].get(k2, 0) + 1
                if lab.startswith("corpus:"):
                    ck.broken_obligation("corpus:" + lab, "exo refuses to compile a corpus program: %s" % v.get("detail", "")[:300])
            elif st == "harness-error":
                ck.broken_obligation("harness-error:variant", v.get("detail", "")[-600:])
            elif st == "no-valid-input":
                for k2, c in (v.get("skipped") or {}).items():
                    stats["skipped_inputs"][k2] = stats["skipped_inputs"].get(k2, 0) + c
                if lab.startswith("corpus:"):
                    ck.broken_obligation("corpus:" + lab, "no valid input found for a corpus program: %s" % v.get("skipped"))
    if shards is not None:
        C.finish_shards(ck, shards)
    for st, d in sorted(ck.streams.items()):
        if st not in ("cexec", "cexec-frontend-rejected"):
            ck.log("stream %-22s cases %5d agree %5d diverge %d" % (st, d["cases"], d["agree"], d["diverge"]))
    ck.cov["c_build_failures_deferred_to_C15"] = deferred
    ck.cov["search"] = stats
    ck.log("search: %d/%d units, %d programs compiled+run, %d inputs agree, variants %s, deferred build failures %s"
           % (stats["units_finished"], len(jobs), stats["programs_compiled_and_run"], stats["inputs_agreed"],
              stats["variants"], deferred))
    ck.log("features of agreeing programs: %s" % dict(sorted(stats["features_of_agreeing_programs"].items())))
    n_corpus_ok = sum(1 for r in results if labels.get(r["uid"], "").startswith("corpus:") and r["status"] == "ok")
    if n_corpus_ok < len(S.CORPUS):
        ck.broken_obligation("corpus:incomplete", "%d of %d corpus programs were executed" % (n_corpus_ok, len(S.CORPUS)))
    if stats["programs_compiled_and_run"] < n(10, 200) and not ck.violations:
        ck.broken_obligation("search:starved", "only %d programs were compiled and run" % stats["programs_compiled_and_run"])

    # ------------------------------------------------------------------ 4. evidence
    ck.cov["rule"] = (
        "correspondence: random CIR / index-expression trees (depth <= 4, 80% well-formed + a malformed stream) through the "
        "real simplify_cir / lift_to_cir / comp_cir / tensor_strides / get_idx_offset / access_str / window_struct_fields "
        "and through the Coq model (vm_compute shards; translated functions come from Gen_CIR.v); emitted texts compiled by "
        "gcc and compared with floor arithmetic. search (stream cexec): generated Exo procedures (harness/c02_gen.py on top "
        "of progen: calls, instruction calls, windows, window of window, scalars by reference, config reads/writes, index "
        "arguments that may be negative, / and % on possibly negative expressions, DRAM/DRAM_STACK/DRAM_STATIC, "
        "f32/f64/i32), their annotated variants and variants after 1-3 accepted scheduling operations, compiled by the real "
        "backend, built with gcc -O1 -fopenmp (-O0 for a subset), executed on the inputs of export.InputGen (strided window "
        "arguments with offsets, negative index arguments) and compared cell by cell, config field by config field with the "
        "extracted Core.Sem interpreter; one case = one (program variant, optimisation level, input) on which the reference "
        "runs to completion; distinct = distinct (unit, variant, opt, input); non-trivial = the reference returned Done")
    ck.cov["trusted_base"] = [
        "Coq 8.16.1 kernel (coqc, full .vo); no axioms (Print Assumptions: Closed under the global context for every theorem)",
        "translator/py2coq_cir.py (fail-closed Python-ast and C-expression translator) for operations, simplify_cir, "
        "tensor_strides, get_idx_offset, exo_floor_div, exo_floor_mod",
        "hand-written model coq/Backend/ModelComp.v of comp_cir, get_strides, generate_offset, window_struct_fields, "
        "access_str: agreement with the code is sampled (streams above), not proved",
        "Core.Sem (coq/Core/Sem.v) reference semantics, its extraction (ExtrOcamlBasic) and driver.ml; harness/export.py "
        "(LoopIR -> s-expression, input generation)",
        "harness/c02_cmain.py (C driver generator, output parser, comparison), gcc 12.2 -O1/-O0 -fopenmp, libgomp, libm",
        "C integer widths are outside the model (unbounded Z)",
    ]
    ck.assumptions += [
        "theorems are about unbounded integers: overflow of C int / int_fast32_t index arithmetic and the narrowing of "
        "int_fast32_t arguments to the int parameters of exo_floor_div / exo_floor_mod are not modelled",
        "is_non_neg annotations are assumed sound (flags_sound): they come from range analysis (property C13)",
        "divisors and moduli of index expressions are positive literals (wf_cir), as the type checker enforces",
        "the statement-level lowering (loops, calls, scalars by reference, context struct, casts, memories, names) is checked "
        "by execution of the real C against Core.Sem, not proved",
        "comparison is precision-aware: integer-typed locations (i32 buffers / fields, index and bool fields) exactly; float "
        "locations within the relative error of their DECLARED precision (f64 1e-12, f32 1e-5, f16 1e-2; not finer than the "
        "coarsest float precision taking part in the program, except configuration fields only ever written with literals), "
        "relative to max(|reference|, largest value of the block); the reference value is the exact rational of Core.Sem. "
        "Skipped and counted: values beyond 2^30 in i32 programs / 2^100, a non-integer reference value in an integer "
        "location (Core.Sem has no truncation), an f32 mismatch that disappears when float is replaced by double",
        "gcc build failures of the three classes listed in harness/c02_invalid_c_findings.md are deferred to C15 and counted "
        "in coverage.c_build_failures_deferred_to_C15; any other build failure is a violation",
    ]
    # Print Assumptions of every theorem is part of Props_C02.v; coq_build has collected it from the build log
    shutil.rmtree(common.SCRATCH / "c02" / ("run%d" % os.getpid()), ignore_errors=True)
    shutil.rmtree(work, ignore_errors=True)
    ck.log("timing: corpus %.0fs, then build + real side of the correspondence %.0fs, total %.0fs" % (t_corpus, t_corr, t_corpus + time.time() - t_start))
