"""C01 — scheduling rewrites preserve procedure semantics."""
import rwsearch

TRUSTED = [
    "translator/py2coq_effpreds.py (fail-closed Python-ast -> Gallina translation of Commutes / Disjoint_Memory / getsets from new_eff.py), used by C01_predicates_commutes",
    "Coq 8.16.1 kernel (coqc, full .vo build of coq/Core); no axioms (Print Assumptions: closed under the global context)",
    "extraction: Require Extraction + ExtrOcamlBasic only (bool/option/unit/list/prod/sumbool/sumor -> OCaml natives); Z, positive, Q stay extracted inductives; ocamlfind ocamlopt; coq/Core/driver.ml (s-expression reader/printer)",
    "harness/export.py: 1:1 structural dump of exo's LoopIR into Core.Syntax terms (srcinfo, memories, precisions erased)",
    "reference semantics Core.Sem is a hand-written specification of LoopIR's sequential meaning over exact rationals; its agreement with the implementation's own executable semantics (generated C) is sampled by the C02 check",
    "SMT-backed effect checks of exo (new_eff.py, pysmt/z3) are oracles: C01_reorder_stmts states the contract they are trusted for",
    "modelled rather than verified: the Do* rewrite functions themselves are not re-implemented in Coq; every applied instance is instead executed before/after in the extracted semantics",
]


def run(ck):
    model_errors = {}
    ck.coq_build("Core")
    ck.extract("Core")
    # the definitions of exo's effect predicates (Commutes, ...) are re-translated from new_eff.py and the
    # theorem that two actions whose exact footprints satisfy Commutes commute is re-checked (engine Par)
    if ck.gen("Par"):
        ck.coq_build("Par", props=["Props_C01preds"])
    s = rwsearch.Search(ck, exclude=rwsearch.CONFIG_OPS | rwsearch.SIG_OPS, chain=ck.n(2, 3))
    ctx_stats = {"programs": 0, "queries": 0, "unsound": 0}

    def context_contract(tag, src, p):
        # the context every SMT-backed check assumes must not contradict the enclosing guards (harness/ctxcheck.py)
        import ctxcheck
        nq, bad = ctxcheck.check_proc(p, budget=ck.n(16, 40))
        ctx_stats["programs"] += 1
        ctx_stats["queries"] += nq
        ck.case("context-contract", tag, nontrivial=nq > 0, sample={"program": tag, "queries": nq}, tag="ctx")
        for b in bad:
            ctx_stats["unsound"] += 1
            ck.violation("context|unsound-%s-branch|%s" % (b["kind"], b["guard"]),
                         {"program": tag, "source": src, **b},
                         "the analysis context of '%s' lets exo prove '%s', the opposite of the enclosing guard '%s'"
                         % (b["stmt"], b["proved"], b["guard"]))

    s.on_program = context_contract
    shift_corr = {"same": 0, "differ": 0, "theorem_applies": 0, "outside_theorem_hypotheses": 0}

    def expand(sx, defs):
        import re
        for _ in range(8):
            sx2 = re.sub(r"\(call (p\d+) ", lambda m: "(call " + defs.get(m.group(1), m.group(1)) + " ", sx)
            if sx2 == sx:
                return sx
            sx = sx2
        return sx

    def iter_unique(p, sym):
        # after fission two sibling loops share one iteration Sym; the Gallina models find the loop by its Sym, so
        # such instances are not compared term-for-term (they are still executed before/after by the search)
        from exo.core.LoopIR import LoopIR as _L
        n = [0]

        def walk(stmts):
            for st in stmts:
                if isinstance(st, _L.For):
                    n[0] += st.iter == sym
                    walk(st.body)
                elif isinstance(st, _L.If):
                    walk(st.body)
                    walk(st.orelse)
        walk(p._loopir_proc.body)
        return n[0] == 1

    shared_iter = {"skipped": 0}

    def shift_model(p, q, op, descr, site, replay):
        # correspondence of the Gallina rewrite ShiftLoop.shift_proc (about which C01_shift_proc is proved) with the
        # real Procedure.shift_loop: identical terms; and whether the instance lies inside the theorem's hypotheses
        if op != "shift_loop":
            return
        import ast, re
        m = re.match(r"N(\[.*?\]) lo=(-?\d+)$", descr)
        if not m:
            return
        node = p._loopir_proc
        for attr, idx in ast.literal_eval(m.group(1)):
            node = getattr(node, attr)[idx]
        if not iter_unique(p, node.iter):
            shared_iter["skipped"] += 1
            return
        name = s.sc.ref(p)
        ex = s.sc.ex
        job = "%s %s (int %s)" % (name, ex.sym(node.iter), m.group(2))
        model = s.sc.interp.ask("(shift %s)" % job)
        if model.startswith("error"):  # interpreter time-out or unsupported job: no information, not a divergence
            model_errors["n"] = model_errors.get("n", 0) + 1
            return
        inside = s.sc.interp.ask("(shiftok %s)" % job).strip() == "ok"
        real = ex.proc_sexp(q._loopir_proc)
        defs = {n: sx for (n, sx) in ex.procs.values()}
        ck.case("shift_loop-model-vs-impl", (replay["program"], descr), sample={"loop": str(node.iter), "new_lo": m.group(2)},
                tag="inside-theorem" if inside else "outside-theorem-hypotheses")
        shift_corr["theorem_applies" if inside else "outside_theorem_hypotheses"] += 1
        if expand(model, defs) == expand(real, defs):
            shift_corr["same"] += 1
            ck.corr_agree("shift_loop-model-vs-impl")
        else:
            shift_corr["differ"] += 1
            ck.corr_diverge("shift_loop-model-vs-impl", {"program": replay["program"], "source": replay["source"],
                                                         "descr": descr, "model": model, "impl": real})

    s.after_apply.append(shift_model)
    div_corr = {"same": 0, "differ": 0, "theorem_applies": 0, "outside_theorem_hypotheses": 0}

    def divide_model(p, q, op, descr, site, replay):
        # correspondence of DivideLoop.divide_guard_proc / divide_perfect_proc (C01_divide_*_proc) with the real
        # Procedure.divide_loop(tail='guard') and divide_loop(perfect=True): identical terms
        if op != "divide_loop":
            return
        import ast, re
        m = re.match(r"N(\[.*?\]) by=(\d+) (tail=guard|perfect)$", descr)
        if not m:
            return
        path = ast.literal_eval(m.group(1))
        node, outer = p._loopir_proc, q._loopir_proc
        for attr, idx in path:
            node, outer = getattr(node, attr)[idx], getattr(outer, attr)[idx]
        inner = outer.body[0]
        if not iter_unique(p, node.iter):
            shared_iter["skipped"] += 1
            return
        name = s.sc.ref(p)
        ex = s.sc.ex
        real = ex.proc_sexp(q._loopir_proc)
        kind = "divguard" if m.group(3) == "tail=guard" else "divperfect"
        job = "%s %s %s %s %s" % (name, ex.sym(node.iter), ex.sym(outer.iter), ex.sym(inner.iter), m.group(2))
        model = s.sc.interp.ask("(%s %s)" % (kind, job))
        if model.startswith("error"):  # interpreter time-out or unsupported job: no information, not a divergence
            model_errors["n"] = model_errors.get("n", 0) + 1
            return
        inside = s.sc.interp.ask("(%sok %s)" % (kind, job)).strip() == "ok"
        defs = {n: sx for (n, sx) in ex.procs.values()}
        stream = "divide_loop-model-vs-impl"
        ck.case(stream, (replay["program"], descr), sample={"loop": str(node.iter), "by": m.group(2), "mode": m.group(3)},
                tag=kind + (":inside-theorem" if inside else ":outside-theorem-hypotheses"))
        div_corr["theorem_applies" if inside else "outside_theorem_hypotheses"] += 1
        if expand(model, defs) == expand(real, defs):
            div_corr["same"] += 1
            ck.corr_agree(stream)
        else:
            div_corr["differ"] += 1
            ck.corr_diverge(stream, {"program": replay["program"], "source": replay["source"],
                                     "descr": descr, "model": model, "impl": real})

    s.after_apply.append(divide_model)
    reo_corr = {"same": 0, "differ": 0, "syntactic_conditions_hold": 0, "outside_syntactic_conditions": 0}

    def reorder_model(p, q, op, descr, site, replay):
        # correspondence of ReorderLoops.reorder_proc (C01_reorder_proc) with the real Procedure.reorder_loops
        if op != "reorder_loops":
            return
        import ast, re
        m = re.match(r"N(\[.*?\])$", descr)
        if not m:
            return
        node = p._loopir_proc
        for attr, idx in ast.literal_eval(m.group(1)):
            node = getattr(node, attr)[idx]
        if not iter_unique(p, node.iter):
            shared_iter["skipped"] += 1
            return
        name = s.sc.ref(p)
        ex = s.sc.ex
        job = "%s %s" % (name, ex.sym(node.iter))
        model = s.sc.interp.ask("(reorder %s)" % job)
        if model.startswith("error"):  # interpreter time-out or unsupported job: no information, not a divergence
            model_errors["n"] = model_errors.get("n", 0) + 1
            return
        inside = s.sc.interp.ask("(reorderok %s)" % job).strip() == "ok"
        real = ex.proc_sexp(q._loopir_proc)
        defs = {n: sx for (n, sx) in ex.procs.values()}
        stream = "reorder_loops-model-vs-impl"
        ck.case(stream, (replay["program"], descr), sample={"loop": str(node.iter)},
                tag="syntactic-conditions-hold" if inside else "outside-syntactic-conditions")
        reo_corr["syntactic_conditions_hold" if inside else "outside_syntactic_conditions"] += 1
        if expand(model, defs) == expand(real, defs):
            reo_corr["same"] += 1
            ck.corr_agree(stream)
        else:
            reo_corr["differ"] += 1
            ck.corr_diverge(stream, {"program": replay["program"], "source": replay["source"],
                                     "descr": descr, "model": model, "impl": real})

    s.after_apply.append(reorder_model)
    rm_corr = {"same_guard_form": 0, "same_spliced_form": 0, "differ": 0, "syntactic_conditions_hold": 0,
               "outside_syntactic_conditions": 0}

    def remove_model(p, q, op, descr, site, replay):
        # correspondence of RemoveLoop.remove_guard_proc / remove_splice_proc (C01_remove_*_proc) with the real
        # Procedure.remove_loop, which returns one of the two forms depending on whether it can prove hi > lo
        if op != "remove_loop":
            return
        import ast, re
        m = re.match(r"N(\[.*?\])$", descr)
        if not m:
            return
        node = p._loopir_proc
        for attr, idx in ast.literal_eval(m.group(1)):
            node = getattr(node, attr)[idx]
        if not iter_unique(p, node.iter):
            shared_iter["skipped"] += 1
            return
        name = s.sc.ref(p)
        ex = s.sc.ex
        job = "%s %s" % (name, ex.sym(node.iter))
        real = ex.proc_sexp(q._loopir_proc)
        defs = {n: sx for (n, sx) in ex.procs.values()}
        stream = "remove_loop-model-vs-impl"
        form = None
        for kind in ("rmguard", "rmsplice"):
            model = s.sc.interp.ask("(%s %s)" % (kind, job))
            if model.startswith("error"):  # interpreter time-out or unsupported job: no information, not a divergence
                model_errors["n"] = model_errors.get("n", 0) + 1
                return
            if expand(model, defs) == expand(real, defs):
                form = kind
                break
        inside = form is not None and s.sc.interp.ask("(%sok %s)" % (form, job)).strip() == "ok"
        ck.case(stream, (replay["program"], descr), sample={"loop": str(node.iter), "form": form},
                tag=(form or "neither") + (":syntactic-conditions-hold" if inside else ":outside-syntactic-conditions"))
        rm_corr["syntactic_conditions_hold" if inside else "outside_syntactic_conditions"] += 1
        if form:
            rm_corr["same_guard_form" if form == "rmguard" else "same_spliced_form"] += 1
            ck.corr_agree(stream)
        else:
            rm_corr["differ"] += 1
            ck.corr_diverge(stream, {"program": replay["program"], "source": replay["source"], "descr": descr,
                                     "model_guard": s.sc.interp.ask("(rmguard %s)" % job), "impl": real})

    s.after_apply.append(remove_model)
    un_corr = {"same": 0, "differ": 0, "theorem_applies": 0, "outside_theorem_hypotheses": 0,
               "not_comparable_inner_binders_renamed": 0}

    def unroll_model(p, q, op, descr, site, replay):
        # correspondence of UnrollLoop.unroll_proc (C01_unroll_proc) with the real Procedure.unroll_loop, for bodies
        # without inner binders (the implementation alpha-renames the binders of every copy)
        if op != "unroll_loop":
            return
        import ast, re
        from exo.core.LoopIR import LoopIR as _L
        m = re.match(r"N(\[.*?\])$", descr)
        if not m:
            return
        node = p._loopir_proc
        for attr, idx in ast.literal_eval(m.group(1)):
            node = getattr(node, attr)[idx]

        def has_binder(stmts):
            for st in stmts:
                if isinstance(st, (_L.For, _L.Alloc, _L.WindowStmt)):
                    return True
                if isinstance(st, _L.If) and (has_binder(st.body) or has_binder(st.orelse)):
                    return True
            return False

        if has_binder(node.body):
            un_corr["not_comparable_inner_binders_renamed"] += 1
            return
        if not iter_unique(p, node.iter):
            shared_iter["skipped"] += 1
            return
        name = s.sc.ref(p)
        ex = s.sc.ex
        job = "%s %s" % (name, ex.sym(node.iter))
        model = s.sc.interp.ask("(unroll %s)" % job)
        if model.startswith("error"):  # interpreter time-out or unsupported job: no information, not a divergence
            model_errors["n"] = model_errors.get("n", 0) + 1
            return
        inside = s.sc.interp.ask("(unrollok %s)" % job).strip() == "ok"
        real = ex.proc_sexp(q._loopir_proc)
        defs = {n: sx for (n, sx) in ex.procs.values()}
        stream = "unroll_loop-model-vs-impl"
        ck.case(stream, (replay["program"], descr), sample={"loop": str(node.iter)},
                tag="inside-theorem" if inside else "outside-theorem-hypotheses")
        un_corr["theorem_applies" if inside else "outside_theorem_hypotheses"] += 1
        if expand(model, defs) == expand(real, defs):
            un_corr["same"] += 1
            ck.corr_agree(stream)
        else:
            un_corr["differ"] += 1
            ck.corr_diverge(stream, {"program": replay["program"], "source": replay["source"],
                                     "descr": descr, "model": model, "impl": real})

    s.after_apply.append(unroll_model)
    cut_corr = {"same": 0, "differ": 0, "syntactic_conditions_hold": 0, "outside_syntactic_conditions": 0,
                "not_comparable_inner_binders_renamed": 0}

    def cut_model(p, q, op, descr, site, replay):
        # correspondence of CutLoop.cut_proc (C01_cut_proc) with the real Procedure.cut_loop (bodies without inner
        # binders); the cut point and the fresh Sym of the second loop are read off the real result
        if op != "cut_loop":
            return
        import ast, re
        from exo.core.LoopIR import LoopIR as _L
        m = re.match(r"N(\[.*?\]) cut=", descr)
        if not m:
            return
        path = ast.literal_eval(m.group(1))
        node, par_new = p._loopir_proc, q._loopir_proc
        for attr, idx in path[:-1]:
            node, par_new = getattr(node, attr)[idx], getattr(par_new, attr)[idx]
        attr, idx = path[-1]
        node, first, second = getattr(node, attr)[idx], getattr(par_new, attr)[idx], getattr(par_new, attr)[idx + 1]

        def has_binder(stmts):
            for st in stmts:
                if isinstance(st, (_L.For, _L.Alloc, _L.WindowStmt)):
                    return True
                if isinstance(st, _L.If) and (has_binder(st.body) or has_binder(st.orelse)):
                    return True
            return False

        if has_binder(node.body):
            cut_corr["not_comparable_inner_binders_renamed"] += 1
            return
        if not iter_unique(p, node.iter):
            shared_iter["skipped"] += 1
            return
        name = s.sc.ref(p)
        ex = s.sc.ex
        real = ex.proc_sexp(q._loopir_proc)
        job = "%s %s %s %s" % (name, ex.sym(node.iter), ex.sym(second.iter), ex.expr(first.hi))
        model = s.sc.interp.ask("(cut %s)" % job)
        if model.startswith("error"):  # interpreter time-out or unsupported job: no information, not a divergence
            model_errors["n"] = model_errors.get("n", 0) + 1
            return
        inside = s.sc.interp.ask("(cutok %s)" % job).strip() == "ok"
        defs = {n: sx for (n, sx) in ex.procs.values()}
        stream = "cut_loop-model-vs-impl"
        ck.case(stream, (replay["program"], descr), sample={"loop": str(node.iter), "cut": str(first.hi)},
                tag="syntactic-conditions-hold" if inside else "outside-syntactic-conditions")
        cut_corr["syntactic_conditions_hold" if inside else "outside_syntactic_conditions"] += 1
        if expand(model, defs) == expand(real, defs):
            cut_corr["same"] += 1
            ck.corr_agree(stream)
        else:
            cut_corr["differ"] += 1
            ck.corr_diverge(stream, {"program": replay["program"], "source": replay["source"],
                                     "descr": descr, "model": model, "impl": real})

    s.after_apply.append(cut_model)
    fis_corr = {"same": 0, "differ": 0, "syntactic_conditions_hold": 0, "outside_syntactic_conditions": 0,
                "not_modelled_shape": 0}

    def fission_model(p, q, op, descr, site, replay):
        # correspondence of FissionProc.fission_proc (C01_fission_proc) with the real Procedure.fission for one lift
        # out of a for loop (lifts out of an if and multiple lifts are not modelled)
        if op != "fission":
            return
        import ast, re
        from exo.core.LoopIR import LoopIR as _L
        m = re.match(r"G(\[.*?\]):GapType\.(Before|After) n=(\d+)$", descr)
        if not m or m.group(3) != "1":
            fis_corr["not_modelled_shape"] += 1
            return
        path = ast.literal_eval(m.group(1))
        if not path:
            fis_corr["not_modelled_shape"] += 1
            return
        node = p._loopir_proc
        for attr, idx in path[:-1]:
            node = getattr(node, attr)[idx]
        attr, idx = path[-1]
        k = idx + (1 if m.group(2) == "After" else 0)
        if not isinstance(node, _L.For) or attr != "body" or k <= 0 or k >= len(node.body):
            fis_corr["not_modelled_shape"] += 1
            return
        if not iter_unique(p, node.iter):
            shared_iter["skipped"] += 1
            return
        name = s.sc.ref(p)
        ex = s.sc.ex
        job = "%s %s %d" % (name, ex.sym(node.iter), k)
        model = s.sc.interp.ask("(fission %s)" % job)
        if model.startswith("error"):  # interpreter time-out or unsupported job: no information, not a divergence
            model_errors["n"] = model_errors.get("n", 0) + 1
            return
        inside = s.sc.interp.ask("(fissionok %s)" % job).strip() == "ok"
        real = ex.proc_sexp(q._loopir_proc)
        defs = {n: sx for (n, sx) in ex.procs.values()}
        stream = "fission-model-vs-impl"
        ck.case(stream, (replay["program"], descr), sample={"loop": str(node.iter), "split_at": k},
                tag="syntactic-conditions-hold" if inside else "outside-syntactic-conditions")
        fis_corr["syntactic_conditions_hold" if inside else "outside_syntactic_conditions"] += 1
        if expand(model, defs) == expand(real, defs):
            fis_corr["same"] += 1
            ck.corr_agree(stream)
        else:
            fis_corr["differ"] += 1
            ck.corr_diverge(stream, {"program": replay["program"], "source": replay["source"],
                                     "descr": descr, "model": model, "impl": real})

    s.after_apply.append(fission_model)
    findings = s.run(n_programs=ck.n(60, 600), budget_s=ck.n(110, 1300))
    # second stream: aliasing stress (windows of windows, the same cell reached through two names) under the
    # operations whose side conditions are location-set queries
    s2 = rwsearch.Search(ck, ops={"reorder_stmts", "fission", "fuse", "lift_scope", "reorder_loops", "merge_writes",
                                  "inline_window", "remove_loop", "add_loop", "lift_alloc", "sink_alloc", "unroll_loop",
                                  "divide_loop", "cut_loop", "join_loops", "eliminate_dead_code", "reuse_buffer",
                                  "delete_buffer", "fold_into_reduce", "lift_reduce_constant", "inline"},
                         features={"windows": 1.0, "calls": 0.5, "config": 0.0, "divmod": 0.2}, chain=1,
                         stream="aliasing-stress", max_cands=ck.n(40, 80))
    s2.run_witnesses = lambda: None
    findings += s2.run(n_programs=ck.n(70, 700), budget_s=ck.n(60, 700))
    for f in findings:
        if f.kind in ("value-mismatch", "config-mismatch", "uninit-result"):
            ck.violation(f.key, f.replay, "%s at %s: %s" % (f.op, f.site, f.detail))
    ck.cov["search"] = s.stats
    ck.cov["search_aliasing_stress"] = s2.stats
    ck.cov["context_contract"] = ctx_stats
    ck.cov["shift_loop_model_correspondence"] = shift_corr
    ck.cov["divide_loop_model_correspondence"] = div_corr
    ck.cov["reorder_loops_model_correspondence"] = reo_corr
    ck.cov["remove_loop_model_correspondence"] = rm_corr
    ck.cov["unroll_loop_model_correspondence"] = un_corr
    ck.cov["cut_loop_model_correspondence"] = cut_corr
    ck.cov["fission_model_correspondence"] = fis_corr
    ck.cov["model_correspondence_skipped_iteration_sym_shared_by_several_loops"] = shared_iter["skipped"]
    ck.cov["operation_crashes"] = s.crashes
    ck.cov["inputs_run_in_reference_semantics"] = s.sc.runs + s2.sc.runs
    ck.cov["comparisons_where_source_ran_to_completion"] = s.sc.nontrivial
    ck.cov["rule"] = ("generated Exo procedures (harness/progen.py, through the real @proc) x every applicable scheduling "
                      "primitive at sampled cursor positions/arguments (harness/sched.py), chains of accepted operations; each "
                      "accepted application is compared before/after on generated valid inputs in the extracted Coq semantics; "
                      "a case is non-trivial when the operation was accepted and the comparison ran; distinct = distinct "
                      "(program, schedule)")
    ck.cov["trusted_base"] = TRUSTED
    ck.assumptions += ["data values are exact rationals (the property says: up to real-number algebra)",
                       "sizes 1..4 and index arguments -2..5 (widened up to +28 until the procedure's assertions hold), window strides 1..2 in generated inputs (search only; theorems are unbounded)"]
