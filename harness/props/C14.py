"""C14 — Library instructions do what their Exo bodies say.

 1. translator (coq/X86/gen.py -> Gen_X86Instrs.v, Gen_X86Probes.v) + full Coq build of coq/X86: one theorem per
    @instr of exo/platforms/x86.py about the GENERATED (C fragment, Exo body) pair.
 2. correspondence of the hand-written intrinsic model with THIS host: every modelled intrinsic through probe
    fragments (gcc -O1 -mavx2 -mfma [-mavx512f]) and through the extracted interpreter (Q / Z lanes); exact agreement.
 3. search against the real implementation: for every instruction, a procedure that CALLS it (real exo compiler,
    three placement variants) against the same procedure with the bodies inlined (scalar C from exo), on random
    operands / every admissible size / window offsets; plus model-vs-C correspondence at instruction level.
"""
from __future__ import annotations

import json
import re
import sys
from fractions import Fraction
from pathlib import Path

import common
import c14_run as RUN

ENGINE = "X86"
XD = common.COQ / ENGINE
sys.path.insert(0, str(common.VERIF / "translator"))

U16_EDGE = [0, 1, 2, 3, 4, 5, 6, 65535, 65534, 65533, 32767, 32768, 21845, 43690, 255, 256]
I32_EDGE = [0, 1, 2, 7, 8, 0x7FFFFFFF, 0x80000000, 0xFFFFFFFF, 0x80000001, 0x00800000, 0x0000FF80]
POW2 = [1, 2, 4, 8, -1, -2, -4, -8]
BIG_SIZES = [30, 31, 32, 33, 48, 64]
# repaired defects: these units must be built, run on every listed size, and agree with the inlined body
REGRESSIONS = [
    dict(instr="avx2_mask_storeu_ps", fixed_by="fix: avx2_mask_storeu_ps must store the first N lanes",
         units={"t_avx2_mask_storeu_ps_A": "stores exactly the first N lanes, N = 1..8",
                "t_avx2_mask_storeu_ps_B": "callable twice in one scope (row-1 window at offset 3), N = 1..8"},
         sizes=list(range(1, 9))),
]
UNIT_STATS = {}


def gen_value(rng, ety, mode="plain"):
    if ety in RUN.ISFLT:
        if mode == "div":
            return rng.choice(POW2)
        if mode == "nonzero":
            return rng.choice([-5, -3, -2, -1, 1, 2, 3, 4])
        return rng.randint(-6, 6)
    if ety == "U16":
        if mode == "small":
            return rng.choice([0, 1, 2, 3, 100, 21845, 32767, rng.randint(0, 32767)])
        return rng.choice(U16_EDGE) if rng.random() < 0.4 else rng.randint(0, 65535)
    if ety in ("I16",):
        return rng.randint(0, 65535)
    if ety == "I8":
        return rng.randint(0, 255)
    if ety == "I32":
        return rng.choice(I32_EDGE) if rng.random() < 0.6 else rng.randint(0, 2 ** 32 - 1)
    if ety == "I64":
        return rng.randint(0, 2 ** 64 - 1)
    raise ValueError(ety)


def gen_case(rng, lay, sizes, modes):
    data = {}
    for l in lay:
        if l["kind"] == "size":
            continue
        m = modes.get(l["name"], modes.get("*", "plain"))
        data[l["name"]] = [gen_value(rng, l["ety"], m) for _ in range(l["count"])]
    return dict(sizes=dict(sizes), data=data)


def states_equal(a, b, lanes=None):
    """compare {name: [values]}; `lanes` restricts the compared prefix of named registers"""
    if a is None or b is None:
        return a is b
    if set(a) != set(b):
        return False
    for k in a:
        x, y = a[k], b[k]
        if lanes and k in lanes:
            x, y = x[:lanes[k]], y[:lanes[k]]
        if x != y:
            return False
    return True


def first_diff(a, b):
    if a is None or b is None:
        return "one side has no result"
    for k in a:
        if a[k] != b.get(k):
            for i, (x, y) in enumerate(zip(a[k], b[k])):
                if x != y:
                    return "%s[%d]: %s vs %s" % (k, i, x, y)
            return k
    return ""


def js(st):
    return None if st is None else {k: [str(x) for x in v] for k, v in st.items()}


# ---------------------------------------------------------------------------------------------------- probes
def run_probes(ck, flags, probes, driver, scratch):
    rng = ck.rng
    import c14_exo
    usable = []
    skipped = []
    for i, pr in enumerate(probes):
        if pr["opt"].get("needs") and pr["opt"]["needs"] not in flags:
            skipped.append(pr["name"])
            continue
        I = dict(pr, preds_ast=[])
        pr = dict(pr, layout=c14_exo.layout(I, "B", {}), idx=i)
        # probes use a single row: recompute with 1-D placement but a non-zero window offset
        for l in pr["layout"]:
            if l["kind"] == "mem":
                l.update(count=l["K"], off=c14_exo.PRE["B"], rows=1)
        usable.append(pr)
    src = RUN.PRELUDE + "\n".join(RUN.probe_function(pr, pr["idx"]) for pr in usable)
    src += "\nint main(void) {\n  long long tag;\n  while (scanf(\"%lld\", &tag) == 1) {\n    switch (tag) {\n"
    src += "".join("      case %d: zz_unit_%d(); break;\n" % (pr["idx"], pr["idx"]) for pr in usable)
    src += "      default: return 4;\n    }\n  }\n  return 0;\n}\n"
    exe = scratch / "probes" / "probes"
    ok, log = RUN.compile_c({"probes.c": src}, exe, RUN.gcc_flags(flags))
    if not ok:
        ck.broken_obligation("correspondence:probe-harness-compiles", log[-800:])
        ck.log("probe harness does not compile:", log[-600:])
        return {}, skipped
    ncase = ck.n(12, 120)
    validated = {}
    jobs, meta = [], []
    for pr in usable:
        opt = pr["opt"]
        modes = {n: "div" for n in opt.get("div", [])}
        modes.update({n: "nonzero" for n in opt.get("nonzero", [])})
        cases = []
        pools = opt.get("ints", {})
        sizes_names = [l["name"] for l in pr["layout"] if l["kind"] == "size"]
        combos = max(ncase, max([len(v) for v in pools.values()] or [0]))
        for k in range(combos):
            sizes = {n: (pools[n][k % len(pools[n])] if n in pools and k < 3 * len(pools[n]) else rng.choice(pools.get(n, [1])))
                     for n in sizes_names}
            cases.append(gen_case(rng, pr["layout"], sizes, modes))
        res, err = RUN.run_exe(exe, pr["layout"], cases, 1, probe_idx=pr["idx"])
        if res is None:
            ck.corr_diverge("probe", {"probe": pr["name"], "error": err})
            continue
        for c, r in zip(cases, res):
            jobs.append(RUN.model_job(pr["name"], "Q", pr["layout"], pr["sig"], c))
            meta.append((pr, c, r[0]))
    answers = RUN.run_model(driver, jobs)
    for (pr, c, hw), ans in zip(meta, answers):
        key = (pr["name"], json.dumps(c, default=str, sort_keys=True))
        ck.case("probe", key, True, sample={"probe": pr["name"], "fragment": pr["c_instr"], "sizes": c["sizes"],
                                            "inputs": js(c["data"]), "hardware": js(hw)}, tag=pr["name"])
        if ans[0] == "error":
            ck.corr_diverge("probe", {"probe": pr["name"], "error": ans[1]})
            continue
        mf = ans[0]
        if states_equal(mf, hw, pr["opt"].get("lanes")):
            ck.corr_agree("probe")
            for c_name in pr["calls"]:
                validated[c_name] = validated.get(c_name, 0) + 1
        else:
            ck.corr_diverge("probe", {"probe": pr["name"], "fragment": pr["c_instr"], "sizes": c["sizes"],
                                      "inputs": js(c["data"]), "hardware": js(hw), "model": js(mf),
                                      "diff": first_diff(mf, hw)})
    return validated, skipped


# ---------------------------------------------------------------------------------------------------- instructions
def instr_modes(I):
    modes = {}
    if "DDiv" in I["body"] and not any(a["ety"] == "U16" for a in I["sig"]):
        modes["*"] = "div"
    return modes


def prepare_units(us, gname, scratch):
    """exo side (serial: exo's analyses are not thread safe): one C translation unit for a list of units"""
    import c14_exo
    c, h = c14_exo.compile_group(us, gname + ".h")
    tags = {u["name"]: i for i, u in enumerate(us)}
    main = RUN.PRELUDE + '#include "%s.h"\n' % gname + "".join(RUN.instr_function(u, tags[u["name"]]) for u in us) \
        + RUN.dispatch_main(range(len(us)))
    return dict(us=us, gname=gname, c=c, tags=tags, exe=scratch / "units" / gname / "unit",
                files={gname + ".h": h, gname + ".c": c, "main.c": main})


def build_groups(ck, good, scratch, flags, byname):
    """group the units by variant into few translation units; units whose C gcc rejects are singled out.
    Instructions without a vector-register operand are compiled on their own (nothing else pulls in
    <immintrin.h> for them).  A cache of the units that failed last time (a grouping HINT only: every unit is
    compiled on every run) avoids re-discovering them by repeated group compiles.
    -> ({unit name: (exe, tag)}, {unit name: gcc log})"""
    cache = common.SCRATCH / "c14_cache" / "failing_units.json"
    try:
        hint = set(json.loads(cache.read_text()))
        if len(hint) > 24:          # a polluted cache (e.g. after time-outs) would only slow things down
            hint = set()
    except Exception:
        hint = set()
    built, failed = {}, {}
    groups = {}
    for u in good:
        alone = not any(a["kind"] == "reg" for a in byname[u["instr"]]["sig"]) or u["name"] in hint
        groups.setdefault(u["name"] if alone else "grp_" + u["variant"], []).append(u)
    pending = [(g, us, []) for g, us in sorted(groups.items())]      # (name, units, extra gcc flags)
    for rnd in range(8):
        if not pending:
            break
        preps, again = [], []
        for g, us, extra in pending:
            try:
                preps.append((prepare_units(us, "%s_r%d" % (g, rnd), scratch), g, extra))
            except Exception:
                import c14_exo
                c14_exo.exo_compilable(us)        # marks the units exo itself cannot compile
                for u in us:
                    if "error" in u:
                        ck.violation("x86:%s:exo-fails" % u["instr"],
                                     {"instr": u["instr"], "variant": u["variant"], "procedure": u["src"],
                                      "error": u["error"], "detail": u.get("detail", "")[-1500:]},
                                     "exo cannot compile a procedure calling %s: %s" % (u["instr"], u["error"]))
                        failed[u["name"]] = "exo: " + u["error"]
                rest = [u for u in us if "error" not in u]
                if rest and len(rest) < len(us):
                    again.append((g, rest, extra))
        results = RUN.pool_map(lambda p: RUN.compile_c(p[0]["files"], p[0]["exe"], flags + p[2]), preps, workers=8)
        pending = again
        for (prep, g, extra), (ok, log) in zip(preps, results):
            us = prep["us"]
            if ok:
                for u in us:
                    u["c_t"] = prep["c"]
                    built[u["name"]] = (prep["exe"], prep["tags"][u["name"]])
                continue
            if "[timeout after" in log:        # an overloaded host is not a property of the instruction
                for u in us:
                    failed[u["name"]] = "harness: gcc timed out"
                    ck.broken_obligation("harness:gcc-timeout:" + u["name"], log[-200:])
                continue
            if len(us) == 1:
                u = us[0]
                u["c_t"] = prep["c"]
                if not extra and re.search(r"implicit declaration of function\W+_mm", log):
                    errs = [l.strip() for l in log.splitlines() if "implicit declaration" in l or "undefined reference" in l][:3]
                    ck.violation("x86:%s:missing-include" % u["instr"],
                                 {"instr": u["instr"], "variant": u["variant"], "procedure": u["src"],
                                  "generated_c": prep["c"][-1500:], "gcc_errors": errs},
                                 "a procedure that only calls %s compiles to C without #include <immintrin.h>: %s"
                                 % (u["instr"], "; ".join(errs)[:300]))
                    pending.append((g, us, ["-include", "immintrin.h"]))
                else:
                    failed[u["name"]] = log
                continue
            bad = RUN.failing_functions(log)
            bad_units = [u for u in us if u["t_name"] in bad or u["ref_name"] in bad]
            if not bad_units:           # cannot attribute: compile every unit on its own
                bad_units = us
            for u in bad_units:
                pending.append(("single_" + u["name"], [u], ["-include", "immintrin.h"]))
            rest = [u for u in us if u not in bad_units]
            if rest:
                pending.append((g, rest, extra))
    for g, us, extra in pending:
        for u in us:
            failed.setdefault(u["name"], "not built after 8 rounds")
    try:
        cache.parent.mkdir(parents=True, exist_ok=True)
        cache.write_text(json.dumps(sorted(n for n, lg in failed.items() if " error: " in lg)))
    except Exception:
        pass
    return built, failed


def frag_locals(I):
    return set(re.findall(r"\(SDecl (\w+)", I["frag"]))


def call_site(u):
    m = re.search(r"void %s\(.*?\n}\n" % re.escape(u["t_name"]), u.get("c_t", ""), flags=re.S)
    return m.group(0) if m else ""


def run_instrs(ck, flags, instrs, driver, scratch, variants):
    import c14_exo
    rng = ck.rng
    host = [I for I in instrs if I.get("sig") is not None and not (any(a.get("mem") == "AVX512" for a in I["sig"]) and "avx512f" not in flags)]
    not_runnable = [I["name"] for I in instrs if I not in host]
    import time as _t
    t0 = _t.time()
    units = c14_exo.build_units(host, variants, scratch, log=ck.log)
    ck.log("exo built %d test procedures in %.0fs" % (len(units), _t.time() - t0))
    byname = {I["name"]: I for I in instrs}
    good = []
    for u in units:
        if "error" in u:
            ck.violation("x86:%s:exo-fails" % u["instr"],
                         {"instr": u["instr"], "variant": u["variant"], "procedure": u["src"], "error": u["error"],
                          "detail": u.get("detail", "")[-1500:]},
                         "exo cannot build/compile a procedure calling %s: %s" % (u["instr"], u["error"]))
        else:
            good.append(u)
    good.sort(key=lambda u: (u["instr"], u["variant"]))
    t0 = _t.time()
    built, failed = build_groups(ck, good, scratch, RUN.gcc_flags(flags), byname)
    ck.log("gcc: %d units built, %d rejected, %.0fs" % (len(built), len(failed), _t.time() - t0))
    compiled_A = set()
    nrep = ck.n(4, 40)
    jobs, meta = [], []
    for u in good:
        I = byname[u["instr"]]
        if u["name"] in failed and failed[u["name"]].startswith(("exo: ", "harness: ")):
            continue
        if u["name"] in failed:
            log = failed[u["name"]]
            errs = [l.strip() for l in log.splitlines() if " error: " in l and "ld returned" not in l][:3]
            what = "does-not-compile"
            if u["literal"] is None and any(a["kind"] == "size" for a in I["sig"]) and "must be a constant" in log:
                what = "runtime-size-does-not-compile"
            elif u["variant"] == "B" and u["instr"] in compiled_A:
                what = "does-not-compile-when-called-twice"
            ck.violation("x86:%s:%s" % (u["instr"], what),
                         {"instr": u["instr"], "variant": u["variant"], "procedure": u["src"], "call_site_c": call_site(u),
                          "c_instr": I["c_instr"], "gcc": " ".join(["gcc"] + RUN.gcc_flags(flags)), "gcc_errors": errs},
                         "the C that exo generates for a call of %s (variant %s) is rejected by gcc: %s"
                         % (u["instr"], u["variant"], "; ".join(errs)[:300]))
            ck.case("instr-search", (u["name"], "compile"), True, tag="does-not-compile")
            continue
        if u["name"] not in built:
            ck.broken_obligation("harness:unit-not-built:" + u["name"], "")
            continue
        exe, tag = built[u["name"]]
        if u["variant"] == "A":
            compiled_A.add(u["instr"])
        capture = sorted(frag_locals(I) & {a["name"] for a in I["sig"]}) if u["variant"] in ("A", "L") else []
        sv = u["sizevals"]
        cases = []
        modes = instr_modes(I)
        if u["literal"] is not None:
            size_sets = [u["literal"]]
        elif sv:
            names = sorted(sv)
            vals = sv[names[0]]
            pick = [v for v in vals if v <= 17] + [v for v in BIG_SIZES if v in vals]
            size_sets = [{n: v for n in names} for v in pick]
        else:
            size_sets = [{}]
        for sizes in size_sets:
            for k in range(nrep if len(size_sets) > 1 else nrep * 4):
                m = dict(modes)
                if any(a["ety"] == "U16" for a in I["sig"]) and k % 2 == 0:
                    m["*"] = "small"
                cases.append(gen_case(rng, u["layout"], sizes, m))
        try:
            res, err = RUN.run_exe(exe, u["layout"], cases, 2, probe_idx=tag)
        except Exception as e:  # timeout / crash
            res, err = None, "%s: %s" % (type(e).__name__, e)
        if res is None:
            ck.violation("x86:%s:crash:%s" % (u["instr"], u["variant"]),
                         {"instr": u["instr"], "variant": u["variant"], "procedure": u["src"], "error": err},
                         "running the compiled call of %s fails: %s" % (u["instr"], err[:200]))
            continue
        dom = "Z" if any(a["ety"] == "U16" for a in I["sig"]) else "Q"
        for c, (t, r) in zip(cases, res):
            nontrivial = any(any(x != 0 for x in v) for v in c["data"].values())
            ck.case("instr-search", (u["name"], json.dumps(c, default=str, sort_keys=True)), nontrivial,
                    sample={"instr": u["instr"], "variant": u["variant"], "sizes": c["sizes"], "inputs": js(c["data"]),
                            "with_instruction": js(t), "bodies_inlined": js(r)},
                    tag=u["instr"])
            us_ = UNIT_STATS.setdefault(u["name"], {"cases": 0, "differ": 0, "sizes": set()})
            us_["cases"] += 1
            us_["sizes"].update(c["sizes"].values())
            us_["differ"] += int(t != r)
            if t == r:
                ck.corr_agree("instr-search")
            else:
                st_ = ck.stream("instr-search")
                st_["instruction_and_body_differ"] = st_.get("instruction_and_body_differ", 0) + 1
                szs = ",".join("%s=%s" % kv for kv in sorted(c["sizes"].items()))
                kind = "non-unit-stride" if u["variant"] == "S" else ("name-capture" if capture else "result-differs")
                ck.violation("x86:%s:%s" % (u["instr"], kind),
                             {"instr": u["instr"], "variant": u["variant"], "sizes": c["sizes"], "inputs": js(c["data"]),
                              "with_instruction": js(t), "bodies_inlined": js(r), "first_difference": first_diff(t, r),
                              "c_instr": I["c_instr"], "procedure": u["src"], "call_site_c": call_site(u),
                              "captured_names": capture,
                              "layout": [{k: l[k] for k in l} for l in u["layout"]],
                              "gcc": " ".join(["gcc"] + RUN.gcc_flags(flags))},
                             "%s (%s, variant %s%s): calling the instruction and inlining its body give different results: %s"
                             % (u["instr"], szs, u["variant"],
                                (": %s passed as the column window x[0:len, 1] of a row-major [rows, 3] buffer, which the "
                                 "instruction's assertions permit (no `stride(x, 0) == 1`)" % c14_exo.strided_args(I))
                                if u["variant"] == "S" else
                                (", operands named like the fragment's locals %s" % capture if capture else ""),
                                first_diff(t, r)))
            # variant B calls twice (not the instruction's own semantics); C identifier capture is outside the model
            if not I["unmodelled"] and not I.get("failclosed") and u["variant"] not in ("B", "S") and not capture:
                jobs.append(RUN.model_job(u["instr"], dom, u["layout"], I["sig"], c))
                meta.append((u, I, c, t, r))
    answers = RUN.run_model(driver, jobs) if jobs else []
    for (u, I, c, t, r), ans in zip(meta, answers):
        if ans[0] == "error":
            ck.corr_diverge("instr-frag", {"instr": u["instr"], "error": ans[1]})
            continue
        mf, mb = ans
        ck.case("instr-frag", (u["name"], json.dumps(c, default=str, sort_keys=True)), True, tag=u["instr"])
        big = any(v >= 31 for v in c["sizes"].values())     # `1 << N` is undefined C from N = 31 on: not compared
        if mf is None:
            # the model says the fragment has no meaning; the C must then not have compiled (handled above)
            ck.corr_diverge("instr-frag", {"instr": u["instr"], "model": "none", "hardware": js(t)})
        elif states_equal(mf, t) or big:
            ck.corr_agree("instr-frag")
        else:
            ck.corr_diverge("instr-frag", {"instr": u["instr"], "variant": u["variant"], "sizes": c["sizes"],
                                           "inputs": js(c["data"]), "model_frag": js(mf), "hardware": js(t),
                                           "diff": first_diff(mf, t)})
        ck.case("instr-body", (u["name"], json.dumps(c, default=str, sort_keys=True)), True, tag=u["instr"])
        in_range = mb is not None and all(
            all(0 <= x <= 65535 for x in mb[l["name"]]) for l in u["layout"] if l["kind"] != "size" and l["ety"] == "U16")
        if mb is not None and not in_range:
            ck.stream("instr-body")["distribution"]["skipped:ui16-overflow-in-real-semantics"] = \
                ck.stream("instr-body")["distribution"].get("skipped:ui16-overflow-in-real-semantics", 0) + 1
        elif states_equal(mb, r):
            ck.corr_agree("instr-body")
        else:
            ck.corr_diverge("instr-body", {"instr": u["instr"], "variant": u["variant"], "sizes": c["sizes"],
                                           "inputs": js(c["data"]), "model_body": js(mb), "scalar_c": js(r),
                                           "diff": first_diff(mb, r)})
    return units, not_runnable


# ---------------------------------------------------------------------------------------------------- run
def run(ck: common.Check):
    flags = RUN.cpu_flags()
    ck.log("host CPU flags:", sorted(flags))
    scratch = common.scratch_dir("c14")

    # 1. translator + proofs
    import time as _t
    t0 = _t.time()
    gen_ok = ck.gen(ENGINE)
    sidecar = XD / "_build" / "instrs.json"         # gen.py deletes it first: if present it is from THIS source
    have_terms = sidecar.exists() and (XD / "_build" / "probes.json").exists()
    instrs = json.loads(sidecar.read_text()) if have_terms else []
    failclosed = [I for I in instrs if I.get("failclosed")]
    for I in failclosed:
        ck.log("translator fails closed on %s: %s" % (I["name"], "; ".join(f["construct"] for f in I["failclosed"])))
    if not gen_ok and not have_terms:
        ck.log("translator failed globally: nothing can be checked or searched")
    build_ok = ck.coq_build(ENGINE) if have_terms else False
    ck.log("translator + coq build: %.0fs (translator ok=%s, build ok=%s)" % (_t.time() - t0, gen_ok, build_ok))
    if have_terms and not build_ok:     # name the first lemma that no longer checks in each proof file
        logf = common.SCRATCH / ("build_%s_%s.log" % (ck.pid, ENGINE))
        for m in re.finditer(r'File "\./(\w+)\.v", line (\d+)', logf.read_text() if logf.exists() else ""):
            lines = (XD / (m.group(1) + ".v")).read_text().splitlines()[:int(m.group(2))]
            names = re.findall(r"^(?:Lemma|Theorem|Example)\s+(\w+)", "\n".join(lines), flags=re.M)
            if names:
                ck.broken_obligation("proof:%s.%s" % (m.group(1), names[-1]), "first statement of %s.v that no longer checks" % m.group(1))
                ck.log("first broken statement in %s.v: %s" % (m.group(1), names[-1]))
    props_txt = (XD / "Props_C14.v").read_text()
    thms = set(re.findall(r"^Theorem (C14_[A-Za-z0-9_]+)", props_txt, flags=re.M))
    proved, refuted, missing = [], [], []
    for I in instrs:
        n = I["name"]
        if I["unmodelled"] or I.get("failclosed"):
            continue
        if "C14_%s_refuted" % n in thms:
            refuted.append(n)
        elif "C14_%s" % n in thms:
            proved.append(n)
        else:
            missing.append(n)
            ck.broken_obligation("missing-theorem:C14_%s" % n, "x86.py has an @instr without a theorem in Props_C14.v")
    unmodelled = [{"instr": I["name"], "intrinsics": I["unmodelled"]} for I in instrs if I["unmodelled"] and not I.get("failclosed")]
    for u in unmodelled:
        ck.broken_obligation("unmodelled-instruction:%s" % u["instr"],
                             "uses intrinsics without a model: %s" % ", ".join(u["intrinsics"]))

    # extraction (model side of the correspondence)
    ext_ok = ck.extract(ENGINE) if have_terms else False
    driver = XD / "_build" / "c14driver"
    validated, skipped = {}, []
    if ext_ok and driver.exists():
        probes = json.loads((XD / "_build" / "probes.json").read_text())
        t0 = _t.time()
        validated, skipped = run_probes(ck, flags, probes, driver, scratch)
        ck.log("probes: %.0fs, %s" % (_t.time() - t0, {k: v for k, v in ck.stream("probe").items() if k != "distribution"}))
        used = sorted({c for I in instrs if not I.get("failclosed") for c in I["calls"]})
        not_validated = [c for c in used if c not in validated and not any(c in I["unmodelled"] for I in instrs)]
        runnable_used = [c for c in used if not (c.startswith("_mm512") and "avx512f" not in flags)]
        for c in not_validated:
            if c in runnable_used:
                ck.broken_obligation("correspondence:intrinsic-not-validated:%s" % c,
                                     "no probe of this intrinsic agreed with the hardware")
    else:
        ck.broken_obligation("extraction-build:" + ENGINE, "no model driver: correspondence not run")

    # 3. search against the real implementation (+ instruction-level correspondence)
    variants = ["A", "B", "L", "S"] if ck.thorough else ["A", "B", "l", "S"]   # "l": literal sizes only where nothing else can run
    units, not_runnable = [], []
    if ext_ok and driver.exists():
        t0 = _t.time()
        units, not_runnable = run_instrs(ck, flags, instrs, driver, scratch, variants)
        ck.log("instruction search + correspondence: %.0fs" % (_t.time() - t0))
        for st in ("instr-search", "instr-frag", "instr-body"):
            ck.log(st, {k: v for k, v in ck.stream(st).items() if k != "distribution" and k != "first_divergences"})

    # regression cases of repaired defects
    reg_report = []
    if ext_ok and driver.exists():
        for rg in REGRESSIONS:
            for uname, meaning in rg["units"].items():
                stt = UNIT_STATS.get(uname)
                ok = bool(stt) and stt["differ"] == 0 and set(rg["sizes"]) <= stt["sizes"]
                reg_report.append({"unit": uname, "checks": meaning, "fixed_by": rg["fixed_by"], "passed": ok,
                                   "cases": stt["cases"] if stt else 0, "differ": stt["differ"] if stt else None})
                ck.obligation("regression:%s" % uname, ok,
                              "" if ok else "repaired defect: unit not built/run on every size, or results differ (%s)" % (
                                  {k: (sorted(v) if isinstance(v, set) else v) for k, v in stt.items()} if stt else "not run"))
                if not ok and stt and stt["differ"]:
                    pass    # the concrete input was already reported by the search as x86:<instr>:result-differs
    ck.cov["regressions"] = reg_report

    ck.cov["rule"] = (
        "obligations: one Coq theorem per @instr of exo/platforms/x86.py about the generated (fragment, body) terms "
        "(universally quantified operands / sizes / window placement), the translator, the no-axiom scan; "
        "cases: (probe) every modelled intrinsic, random integer-valued / edge-pattern operands, gcc+hardware vs "
        "extracted model, exact; (instr-search) every instruction x placement variant {A: formals' names, offset 0; "
        "B: row 1 of 2-D buffers, offset 3, called twice; L: literal sizes} x every admissible size (<=17, plus "
        "30,31,32,33,48,64 when unbounded) x random operands: real exo-compiled call vs exo-compiled inlined bodies; "
        "(instr-frag / instr-body) the same cases through the extracted exec_frag / exec_body. "
        "A case is non-trivial when some operand element is non-zero; distinct = distinct (unit, sizes, operands).")
    ck.cov["trusted_base"] = [
        "Coq 8.16.1 kernel (coqc, full .vo build, vm_compute in proofs)",
        "hand-written intrinsic semantics coq/X86/Model.v (validated per intrinsic against this host: stream 'probe')",
        "translator/py2coq_x86.py (C format-string parser, LoopIR body walker, placeholder classification) "
        "— validated end to end by streams 'instr-frag'/'instr-body'",
        "extraction (ExtrOcamlBasic only), OCaml 4.13 driver coq/X86/driver.ml",
        "gcc 12 -O1 -mavx2 -mfma -mavx512f and this host's CPU as the meaning of the intrinsics",
        "exo's own front end/inline/set_memory/compiler for the scalar reference of the search",
    ]
    ck.assumptions += [
        "float lanes are elements of an arbitrary commutative ring (real-number semantics: no rounding, no NaN/inf/-0.0); "
        "fmadd = a*b+c; division and the order test are uninterpreted (used identically on both sides)",
        "ui16 instructions: lanes are integers 0..65535, `+` unbounded, body `/ 3.0` read as floor division "
        "(the value exo's scalar C stores into a uint16_t)",
        "DRAM windows are contiguous (every multi-element window argument carries `stride(x,0) == 1`: checked by the "
        "translator); a register argument is one whole vector (checked against memories.AVX2/AVX512 alloc/window rules)",
        "C `1 << N` follows the x86 shift (count mod 32); for N >= 31 the C is undefined behaviour",
        "contents of ISA-undefined lanes (_mm256_castps128_ps256) are one arbitrary family rundef(i)",
        "exo `size` arguments are >= 1",
        "the C identifiers of the call site differ from the fragment's local identifiers (C name capture is outside the "
        "model: searched by variant A, which names the operands like the formals)",
    ]
    ck.cov["instructions"] = {
        "total": len(instrs), "translator_fail_closed": [{"instr": I["name"], "why": I["failclosed"]} for I in failclosed],
        "proved": proved, "refuted_with_partial": refuted, "unmodelled": unmodelled,
        "missing_theorem": missing, "not_runnable_on_host": not_runnable,
    }
    ck.cov["intrinsics_hardware_validated"] = {k: validated[k] for k in sorted(validated)}
    ck.cov["probes_skipped_no_cpu_support"] = skipped
    ck.cov["host_cpu_flags"] = sorted(flags)
    ck.cov["search_units"] = {"built": len([u for u in units if "error" not in u]),
                              "rejected_by_exo": [u["name"] for u in units if "error" in u]}
    if ck.print_assumptions.get("closed_count"):
        ck.cov["print_assumptions_summary"] = "%s theorems: Closed under the global context%s" % (
            ck.print_assumptions["closed_count"], "; AXIOMS: " + ck.print_assumptions["axioms"] if "axioms" in ck.print_assumptions else "")
