"""C19 — signature- and annotation-changing utilities keep the loop nest."""
import rwsearch
from props.C01 import TRUSTED


def run(ck):
    ck.coq_build("Core")
    ck.extract("Core")
    s = rwsearch.Search(ck, ops=rwsearch.SIG_OPS, chain=1)
    erased = {"same": 0, "differ": 0}

    def erasure(p, q, op, descr, site, replay):
        # annotation setters must not change the term the semantics reads (theorem C19 relies on erasure)
        if op in ("rename", "set_memory", "set_precision", "set_precision_arg", "set_window", "parallelize_loop"):
            import export
            a, b = export.Exporter(), export.Exporter()
            a.erase_flags = b.erase_flags = True
            x, y = a.proc_sexp(p._loopir_proc), b.proc_sexp(q._loopir_proc)
            if x == y:
                erased["same"] += 1
            else:
                erased["differ"] += 1
                ck.violation("%s|term-changed|%s" % (op, site), dict(replay, result=str(q)),
                             "%s changed more than the annotation" % op)

    s.after_apply.append(erasure)
    findings = s.run(n_programs=ck.n(40, 500), budget_s=ck.n(80, 900))
    for f in findings:
        ck.violation(f.key, f.replay, "%s at %s: %s" % (f.op, f.site, f.detail))
    ck.cov["search"] = s.stats
    ck.cov["annotation_erasure"] = erased
    ck.cov["inputs_run_in_reference_semantics"] = s.sc.runs
    ck.cov["rule"] = ("generated procedures x {partial_eval of every control argument with sampled values, transpose of every 2-D "
                      "argument, add_assertion, rename, set_precision, set_memory, set_window, parallelize_loop}; inputs related "
                      "by the documented signature change (fixed argument removed / transposed view of the same cells / only "
                      "inputs satisfying the new assertion) are run in the extracted Coq semantics")
    ck.cov["trusted_base"] = TRUSTED
