"""C19 — signature- and annotation-changing utilities keep the loop nest."""
import common
import rwsearch
from props.C01 import TRUSTED


def run(ck):
    model_errors = {}
    ck.coq_build("Core")
    ck.extract("Core")
    s = rwsearch.Search(ck, ops=rwsearch.SIG_OPS, chain=1, features={"shadow": 0.4, "calls": 0.5, "index_arg": 0.6},
                        prefix_ops={"inline", "unroll_loop", "cut_loop", "divide_loop", "specialize", "bind_expr", "stage_mem",
                                    "expand_dim", "lift_scope", "fission", "simplify"})
    erased = {"same": 0, "differ": 0}

    def erasure(p, q, op, descr, site, replay):
        # annotation setters must not change the term the semantics reads (theorem C19 relies on erasure)
        if op in ("rename", "set_memory", "set_precision", "set_precision_arg", "set_window", "parallelize_loop"):
            import export
            a, b = export.Exporter(), export.Exporter()
            a.erase_flags = b.erase_flags = True
            x, y = a.proc_sexp(p._loopir_proc), b.proc_sexp(q._loopir_proc)
            if x == y:
                erased["same"] += 1
            else:
                erased["differ"] += 1
                ck.violation("%s|term-changed|%s" % (op, site), dict(replay, result=common.safe_str(q)),
                             "%s changed more than the annotation" % op)

    s.after_apply.append(erasure)
    pe_corr = {"same": 0, "differ": 0}

    def expand(sx, defs):
        import re
        for _ in range(8):
            sx2 = re.sub(r"\(call (p\d+) ", lambda m: "(call " + defs.get(m.group(1), m.group(1)) + " ", sx)
            if sx2 == sx:
                return sx
            sx = sx2
        return sx

    def pe_model(p, q, op, descr, site, replay):
        # correspondence of the Gallina rewrite model PartialEval.pe_proc (about which C19_partial_eval_* are
        # proved) with the real Procedure.partial_eval: identical terms
        if op != "partial_eval":
            return
        nm, v = descr.split("=")
        arg = [a for a in p._loopir_proc.args if str(a.name) == nm][0]
        lit = "(bool %s)" % v.lower() if v in ("True", "False") else "(int %s)" % v
        name = s.sc.ref(p)
        ex = s.sc.ex
        model = s.sc.interp.ask("(pe %s %s %s)" % (name, ex.sym(arg.name), lit))
        if model.startswith("error"):  # interpreter time-out or unsupported job: no information, not a divergence
            model_errors["n"] = model_errors.get("n", 0) + 1
            return
        real = ex.proc_sexp(q._loopir_proc)
        defs = {n: sx for (n, sx) in ex.procs.values()}
        ck.case("partial_eval-model-vs-impl", (replay["program"], descr), sample={"arg": nm, "value": v})
        if expand(model, defs) == expand(real, defs):
            pe_corr["same"] += 1
            ck.corr_agree("partial_eval-model-vs-impl")
        else:
            pe_corr["differ"] += 1
            ck.corr_diverge("partial_eval-model-vs-impl", {"program": replay["program"], "source": replay["source"],
                                                           "arg": nm, "value": v, "model": model, "impl": real})

    s.after_apply.append(pe_model)
    tr_corr = {"same": 0, "differ": 0}

    def tr_model(p, q, op, descr, site, replay):
        # correspondence of Transpose.tr_proc (about which C19_transpose is proved) with the real Procedure.transpose
        if op != "transpose":
            return
        arg = [a for a in p._loopir_proc.args if str(a.name) == descr][0]
        name = s.sc.ref(p)
        ex = s.sc.ex
        model = s.sc.interp.ask("(tr %s %s)" % (name, ex.sym(arg.name)))
        if model.startswith("error"):  # interpreter time-out or unsupported job: no information, not a divergence
            model_errors["n"] = model_errors.get("n", 0) + 1
            return
        real = ex.proc_sexp(q._loopir_proc)
        defs = {n: sx for (n, sx) in ex.procs.values()}
        ck.case("transpose-model-vs-impl", (replay["program"], descr), sample={"arg": descr})
        if expand(model, defs) == expand(real, defs):
            tr_corr["same"] += 1
            ck.corr_agree("transpose-model-vs-impl")
        else:
            tr_corr["differ"] += 1
            ck.corr_diverge("transpose-model-vs-impl", {"program": replay["program"], "source": replay["source"],
                                                        "arg": descr, "model": model, "impl": real})

    s.after_apply.append(tr_model)
    findings = s.run(n_programs=ck.n(40, 500), budget_s=ck.n(80, 900))
    for f in findings:
        ck.violation(f.key, f.replay, "%s at %s: %s" % (f.op, f.site, f.detail))
    ck.cov["search"] = s.stats
    ck.cov["annotation_erasure"] = erased
    ck.cov["partial_eval_model_correspondence"] = pe_corr
    ck.cov["transpose_model_correspondence"] = tr_corr
    ck.cov["inputs_run_in_reference_semantics"] = s.sc.runs
    ck.cov["rule"] = ("generated procedures x {partial_eval of every control argument with sampled values, transpose of every 2-D "
                      "argument, add_assertion, rename, set_precision, set_memory, set_window, parallelize_loop}; inputs related "
                      "by the documented signature change (fixed argument removed / transposed view of the same cells / only "
                      "inputs satisfying the new assertion) are run in the extracted Coq semantics")
    ck.cov["trusted_base"] = TRUSTED
