"""C04 — scheduling never breaks safety or well-formedness."""
import time
import common
import rwsearch
import export
from props.C01 import TRUSTED

BACKEND_REJECTIONS = (TypeError,)  # precision / memory / window / parallel analysis errors are TypeErrors; MemGenError below


def run(ck):
    ck.coq_build("Core", props=["Props_C04", "Props_C01"])
    ck.extract("Core")
    s = rwsearch.Search(ck, chain=ck.n(2, 3))
    wf = {"wf": 0, "illformed": 0, "compiled": 0, "backend_rejected": 0}
    from exo.core.memory import MemGenError

    def static_checks(p, q, op, descr, site, replay):
        ex = export.Exporter()
        try:
            name = ex.proc_ref(q._loopir_proc)
        except export.Unsupported:
            return
        s.sc.interp.sent = 0
        for d in ex.defs:
            s.sc.interp.ask(d)
        s.sc.interp.sent = 0
        s.sc.ex = export.Exporter()  # tables were clobbered: start afresh for the next comparison
        if s.sc.interp.wf(name):
            wf["wf"] += 1
        else:
            wf["illformed"] += 1
            ck.violation("%s|ill-scoped|%s" % (op, site), dict(replay, result=common.safe_str(q)),
                         "%s produced a procedure with a use outside the scope of its declaration" % op)
        if wf["compiled"] + wf["backend_rejected"] < ck.n(200, 1500) and (not s.deadline or time.time() < s.deadline):
            try:
                q.c_code_str()
                wf["compiled"] += 1
            except (MemGenError,) + BACKEND_REJECTIONS:
                wf["backend_rejected"] += 1
            except Exception as e:
                ck.violation("%s|compile-crash:%s|%s" % (op, type(e).__name__, site), dict(replay, result=common.safe_str(q), error=str(e)[:300]),
                             "the derived procedure makes the backend crash with %s" % type(e).__name__)

    s.after_apply.append(static_checks)
    findings = s.run(n_programs=ck.n(40, 400), budget_s=ck.n(90, 1300))
    for f in findings:
        if f.kind.startswith("derived-"):
            ck.violation(f.key, f.replay, "%s at %s: %s" % (f.op, f.site, f.detail))
    ck.cov["search"] = s.stats
    ck.cov["static_checks"] = wf
    ck.cov["inputs_run_in_reference_semantics"] = s.sc.runs
    ck.cov["rule"] = ("as C01, for every primitive (incl. configuration and signature utilities): the derived procedure must (a) pass "
                      "the extracted well-scopedness checker Core.Wf.wf_proc, (b) run to completion in the reference semantics on "
                      "every sampled input on which the source does (no out-of-bounds access, unbound variable, negative trip "
                      "count, failed callee assertion, shape mismatch), (c) compile or be rejected by the documented backend checks")
    ck.cov["trusted_base"] = TRUSTED
