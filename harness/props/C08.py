"""C08 — Generated C is free of undefined behaviour and leaks.

  1. translators (mem_analysis.py used_e/used_s -> Gen_Used.v; C text of exo_floor_div/exo_floor_mod -> Gen_Helpers.v),
     full Coq build of coq/MemSafe (Props_C08.v re-checked on every run)
  2. correspondence model <-> real backend on generated (progen) and scheduled (sched) procedures and on synthetic
     LoopIR skeletons: Free placement (MemoryAnalysis().run), write sets / const qualifiers (get_writes_of_stmts,
     C text), lift_to_cir / simplify_cir, the `/` `%` lowering decision (comp_cir, comp_e), the helper functions
     (compiled C vs. translated Gallina).  The model side is evaluated by `Eval vm_compute` in generated shards.
  3. failing-input search against the REAL generated C: clang -fsanitize=address,undefined (+LeakSanitizer) on a
     generated driver with valid inputs; gcc -Werror=discarded-qualifiers for writes through const.
"""
from __future__ import annotations

import json
import os
import re
import subprocess
import sys
from concurrent.futures import ThreadPoolExecutor

import common
from common import COQ, PY, SCRATCH, exo_env, sh

ENGINE = "MemSafe"
HARNESS = common.VERIF / "harness"
NPROC = 12

HEADER = ("From Coq Require Import ZArith List Bool.\nImport ListNotations.\n"
          "From MemSafe Require Import Model ModelDiv ModelCanon.\nOpen Scope Z_scope.\n")

CASEFN = {"mem": "mem_case", "exec": "exec_case", "writes": "writes_case", "lift": "lift_case", "simplify": "simplify_case",
          "div_cir": "div_cir_case", "div_e": "div_e_case"}


# ============================================================================= model evaluation (coqc shards)
def eval_cases(ck, terms: list[str], tag: str, shard: int = 400):
    """terms: Gallina expressions of type list Z.  Returns list of list[int] | None (shard failed)."""
    d = common.scratch_dir("c08_cases_" + tag)
    shards = [terms[i:i + shard] for i in range(0, len(terms), shard)]
    files = []
    for k, sh_terms in enumerate(shards):
        f = d / ("Cases_%d.v" % k)
        f.write_text(HEADER + "".join("Eval vm_compute in (%s).\n" % t for t in sh_terms))
        files.append(f)

    def one(f):
        return sh("coqc -Q %s MemSafe %s" % (COQ / ENGINE, f.name), timeout=900, cwd=d)

    out = []
    with ThreadPoolExecutor(max_workers=NPROC) as ex:
        results = list(ex.map(one, files))
    for (rc, txt), sh_terms, f in zip(results, shards, files):
        vals = re.findall(r"=\s*(\[[^\]]*\])\s*:\s*list Z", txt, flags=re.S)
        if rc != 0 or len(vals) != len(sh_terms):
            ck.broken_obligation("model-evaluation:%s" % f.name, (txt[-500:] if rc != 0 else "parsed %d of %d results" % (len(vals), len(sh_terms))))
            ck.log("model evaluation shard %s failed: rc=%s" % (f.name, rc), txt[-300:])
            out += [None] * len(sh_terms)
            continue
        for v in vals:
            out.append([int(x) for x in re.findall(r"-?\d+", v)])
    return out


# ============================================================================= workers
def run_workers(ck, n_prog, n_sched, n_inputs):
    d = common.scratch_dir("c08_gen")
    per = max(1, (n_prog + NPROC - 1) // NPROC)
    jobs = []
    # the fixed corpus (c08_corpus.py) always runs, first
    jobs.append(([PY, str(HARNESS / "c08_impl.py"), str(ck.seed), "-1", "0", "1", str(d / "corpus.jsonl"), "null", str(n_inputs)],
                 d / "corpus.jsonl"))
    for k in range(NPROC):
        start = k * per
        cnt = min(per, n_prog - start)
        if cnt <= 0:
            break
        out = d / ("w%d.jsonl" % k)
        cmd = [PY, str(HARNESS / "c08_impl.py"), str(ck.seed), str(start), str(cnt), str(n_sched), str(out), "null", str(n_inputs)]
        jobs.append((cmd, out))
    procs = [(subprocess.Popen(cmd, env=exo_env(), stdout=subprocess.PIPE, stderr=subprocess.STDOUT, text=True, cwd="/"), out)
             for cmd, out in jobs]
    recs = []
    for p, out in procs:
        try:
            txt, _ = p.communicate(timeout=1500)
        except subprocess.TimeoutExpired:
            p.kill()
            txt = "[timeout]"
        if p.returncode != 0:
            ck.broken_obligation("harness-worker", (txt or "")[-600:])
            ck.log("worker failed:", (txt or "")[-400:])
        if out.exists():
            for line in out.read_text().splitlines():
                try:
                    recs.append(json.loads(line))
                except ValueError:
                    pass
    recs.sort(key=lambda r: [0 if r["tag"].startswith("c") else 1] + [int(x) for x in re.findall(r"\d+", r["tag"])])
    for r in recs:
        # only the UNSCHEDULED corpus programs (v0, or a front-end rejection of the source itself) must always compile;
        # a scheduled variant that exo refuses to compile is a refusal like for generated programs
        unscheduled = r["tag"].endswith(".v0") or "." not in r["tag"]
        if r["tag"].startswith("c") and unscheduled and r.get("status") != "ok":
            ck.broken_obligation("corpus:" + r["tag"], "corpus program no longer compiles: %s" % r.get("error", r.get("status")))
    return recs


def run_synth(ck, n):
    d = common.scratch_dir("c08_synth")
    out = d / "synth.jsonl"
    rc, txt = sh([PY, str(HARNESS / "c08_synth.py"), str(ck.seed), str(n), str(out)], timeout=600, env=exo_env(), cwd="/")
    if rc != 0:
        ck.broken_obligation("harness-synth", txt[-600:])
        ck.log("synthetic generator failed:", txt[-400:])
        return []
    return [json.loads(l) for l in out.read_text().splitlines()]


# ============================================================================= helpers: compiled C vs translated Gallina
def helper_correspondence(ck):
    """compile the REAL C text of the two helpers and compare with the translated Gallina on a grid"""
    src = (common.REPO / "src/exo/backend/LoopIR_compiler.py").read_text()
    code = ("import ast,sys,textwrap\n"
            "t = ast.parse(open(sys.argv[1]).read())\n"
            "for st in t.body:\n"
            "    if isinstance(st, ast.Assign) and getattr(st.targets[0], 'id', None) == '_static_helpers':\n"
            "        ns = {'textwrap': textwrap}\n"
            "        d = eval(compile(ast.Expression(st.value), 'h', 'eval'), ns)\n"
            "        print('\\n'.join(d[k] for k in sorted(d)))\n")
    rc, helpers = sh([PY, "-c", code, str(common.REPO / "src/exo/backend/LoopIR_compiler.py")], timeout=60)
    if rc != 0 or "exo_floor_div" not in helpers:
        ck.broken_obligation("correspondence:helpers", "cannot extract _static_helpers: " + helpers[-300:])
        return
    ns = list(range(-23, 24)) + [-100, 100, 1000, -1000, 65536, -65537, 1000003, -1000003]
    qs = [1, 2, 3, 4, 5, 7, 8, 16, 100]
    d = common.scratch_dir("c08_helpers")
    has_mod = "exo_floor_mod" in helpers
    main = ["#include <stdio.h>", helpers, "int main(void){",
            "  static const int ns[] = {%s};" % ",".join(map(str, ns)),
            "  static const int qs[] = {%s};" % ",".join(map(str, qs)),
            "  for (unsigned i = 0; i < sizeof(ns)/sizeof(ns[0]); i++) for (unsigned j = 0; j < sizeof(qs)/sizeof(qs[0]); j++)",
            '    printf("%%d %%d\\n", exo_floor_div(ns[i], qs[j]), %s);' % ("exo_floor_mod(ns[i], qs[j])" if has_mod else "0"),
            "  return 0; }"]
    (d / "h.c").write_text("\n".join(main))
    rc, txt = sh("gcc -O0 -fsanitize=undefined -fno-sanitize-recover=all -o h h.c && ./h", timeout=120, cwd=d)
    if rc != 0:
        # e.g. signed overflow inside the helper on a large argument: a genuine C08 defect of the helper text
        ck.violation("ubsan:helper:" + (re.findall(r"runtime error: ([a-z ]+)", txt) or ["compile-or-run-failure"])[0].strip().replace(" ", "-"),
                     {"c": "\n".join(main), "output": txt[-1500:]}, "the static helper itself fails under UBSan")
        return
    real = [[int(x) for x in l.split()] for l in txt.split("\n") if l.strip()]
    terms = ["helper_case (%s) %d" % (n, q) for n in ns for q in qs]
    model = eval_cases(ck, terms, "helpers")
    k = 0
    for n in ns:
        for q in qs:
            m, r = model[k], real[k] if k < len(real) else None
            k += 1
            ck.case("helpers", (n, q), nontrivial=True, sample={"n": n, "q": q, "c": r, "model": m} if n in (-7, 5) and q == 3 else None,
                    tag="neg" if n < 0 else "nonneg")
            py = [n // q, n % q]
            if m is not None and r is not None and m == r and (r == py or not has_mod):
                ck.corr_agree("helpers")
            else:
                ck.corr_diverge("helpers", {"n": n, "q": q, "compiled_c": r, "model": m, "floor": py})
                if r is not None and r != py and not any(v["key"].startswith("helper-value:exo_floor_%s" % ("div" if r[0] != py[0] else "mod"))
                                                         for v in ck.violations):
                    ck.violation("helper-value:exo_floor_%s:n=%d:q=%d" % ("div" if r[0] != py[0] else "mod", n, q),
                                 {"helpers_c": helpers, "n": n, "q": q, "c_result": r, "floor_div_mod": py},
                                 "the compiled helper does not compute floor division / modulus")


# ============================================================================= sanitizer search
SAN_FLAGS = "-O1 -g -fsanitize=address,undefined -fno-sanitize-recover=all -Wno-unknown-pragmas"
CONST_ERR = re.compile(r"discard(s|ed)[- ]qualifiers|read-only|const-qualified|cannot assign to|assignment of read-only")


def shape_of(r):
    ops = sorted({d.split(" ")[0] for d in r.get("sched", [])})
    f = {}
    for p in r.get("procs", []):
        for k, v in (p.get("feat") or {}).items():
            f[k] = f.get(k, 0) + v
    fs = [k for k in ("alloc", "alloc_in_else", "window", "win_of_win", "call") if f.get(k)]
    return "%s:%s" % ("+".join(ops) if ops else "unscheduled", "+".join(fs) if fs else "plain")


def san_kind(txt):
    m = re.search(r"ERROR: AddressSanitizer: ([\w-]+)", txt)
    if m:
        return "asan", m.group(1)
    if "ERROR: LeakSanitizer" in txt:
        return "asan", "leak"
    m = re.search(r"runtime error: ([^\n]*)", txt)
    if m:
        k = re.sub(r"'[^']*'|-?\d+|0x[0-9a-f]+", "", m.group(1)).strip()
        k = re.sub(r"[^a-z]+", "-", k.lower()).strip("-")[:50]
        return "ubsan", k
    return None


def compile_run(job):
    r, d = job
    d.mkdir(parents=True, exist_ok=True)
    prog = d / "prog.c"
    prog.write_text(r["c"] + "\n" + r["main"])
    (d / "code.c").write_text(r["c"])
    res = {"tag": r["tag"]}
    rc, out = sh("gcc -std=gnu99 -Wall -Wextra -Wno-unknown-pragmas -Wno-unused-parameter -Wno-unused-function -Wno-unused-variable "
                 "-Werror=discarded-qualifiers -c code.c -o code.o", timeout=120, cwd=d)
    res["gcc_rc"], res["gcc_out"] = rc, out[-3000:]
    rc, out = sh("clang -std=gnu99 %s -o prog prog.c -lm" % SAN_FLAGS, timeout=180, cwd=d)
    res["clang_rc"], res["clang_out"] = rc, out[-3000:]
    if rc == 0:
        env = dict(os.environ, ASAN_OPTIONS="detect_leaks=1:abort_on_error=0:halt_on_error=1:detect_stack_use_after_return=1",
                   UBSAN_OPTIONS="print_stacktrace=1:halt_on_error=1")
        rc, out = sh("./prog", timeout=60, cwd=d, env=env)
        if rc == 124:  # a loaded machine, not the program (loops are bounded by the small inputs): one more, longer try
            rc, out = sh("./prog", timeout=240, cwd=d, env=env)
        res["run_rc"], res["run_out"] = rc, out[-6000:]
    return res


def select_for_search(ck, recs, limit, suspects=()):
    """feature-weighted choice of variants to compile (at most 3 per generated program); variants on which the
    model and the real backend disagreed come first"""
    def score(r):
        s = 1000.0 if r["tag"] in suspects else 0.0
        if r["tag"].startswith("c"):
            s += 5000.0  # the fixed corpus is always compiled and run
        for p in r.get("procs", []):
            f = p.get("feat") or {}
            s += 3 * min(f.get("alloc", 0), 3) + 4 * f.get("alloc_in_else", 0) + 3 * min(f.get("window", 0), 3) \
                + 4 * f.get("win_of_win", 0) + 2 * min(f.get("call", 0), 2)
        s += 2 * min(len([d for d in r.get("div", []) if d["kind"] in ("div_e", "div_cir")]), 4)
        s += 1.5 * len(r.get("sched", []))
        return s
    cands = [r for r in recs if r.get("status") == "ok" and r.get("main")]
    cands.sort(key=lambda r: (-score(r), r["tag"]))
    per = {}
    out = []
    for r in cands:
        base = r["tag"].split(".")[0]
        if per.get(base, 0) >= 3:
            continue
        per[base] = per.get(base, 0) + 1
        out.append(r)
        if len(out) >= limit:
            break
    return out


def san_search(ck, recs, limit, suspects=()):
    sel = select_for_search(ck, recs, limit, suspects)
    d = common.scratch_dir("c08_san")
    jobs = [(r, d / r["tag"].replace(".", "_")) for r in sel]
    with ThreadPoolExecutor(max_workers=NPROC) as ex:
        results = list(ex.map(compile_run, jobs))
    stats = {"compiled": 0, "ran_clean": 0, "c_compile_error_not_const": 0, "sanitizer_reports": 0, "const_errors": 0,
             "timeouts": 0, "inputs_run": 0}
    other_errors = []
    for r, res in zip(sel, results):
        shape = shape_of(r)
        replay = {"source": r["src"], "schedule": r.get("sched", []), "procedure": r.get("proc_text"), "inputs": r.get("inputs"),
                  "c_program": r["c"] + "\n" + r["main"],
                  "cmd": "clang -std=gnu99 %s prog.c -lm && ASAN_OPTIONS=detect_leaks=1 ./prog" % SAN_FLAGS}
        ck.case("sanitizer-search", r["tag"], nontrivial=True, tag=shape.split(":")[1],
                sample={"tag": r["tag"], "schedule": r.get("sched", []), "n_inputs": len(r.get("inputs") or [])})
        # gcc: writes through const
        if res["gcc_rc"] != 0:
            if CONST_ERR.search(res["gcc_out"]):
                stats["const_errors"] += 1
                what = (re.findall(r"error: ([^\n]*)", res["gcc_out"]) or ["?"])[0]
                rp = dict(replay, gcc_output=res["gcc_out"], cmd="gcc -std=gnu99 -Wall -Wextra -Werror=discarded-qualifiers -c code.c")
                ck.violation("const:%s:%s" % ("discarded-qualifiers" if "discard" in what else "write-through-const", shape), rp,
                             "the generated C writes through (or drops) a const qualifier: " + what)
            else:
                stats["c_compile_error_not_const"] += 1
                other_errors.append({"tag": r["tag"], "schedule": r.get("sched", []), "error": (re.findall(r"error: ([^\n]*)", res["gcc_out"]) or ["?"])[0]})
            continue
        if res["clang_rc"] != 0:
            if CONST_ERR.search(res["clang_out"]):
                stats["const_errors"] += 1
                what = (re.findall(r"error: ([^\n]*)", res["clang_out"]) or ["?"])[0]
                ck.violation("const:write-through-const:%s" % shape, dict(replay, clang_output=res["clang_out"]), what)
            else:
                stats["c_compile_error_not_const"] += 1
                other_errors.append({"tag": r["tag"], "schedule": r.get("sched", []), "error": (re.findall(r"error: ([^\n]*)", res["clang_out"]) or ["?"])[0]})
            continue
        stats["compiled"] += 1
        out = res.get("run_out", "")
        rc = res.get("run_rc")
        if rc == 124:
            stats["timeouts"] += 1
            continue
        stats["inputs_run"] += len(re.findall(r"^INPUT \d+", out, flags=re.M))
        kind = san_kind(out)
        if rc == 0 and "DONE" in out and not kind:
            stats["ran_clean"] += 1
            continue
        last = re.findall(r"^INPUT (\d+)", out, flags=re.M)
        k = int(last[-1]) if last else None
        if kind:
            stats["sanitizer_reports"] += 1
            rp = dict(replay, failing_input_index=k, failing_input=(r["inputs"][k] if k is not None and k < len(r["inputs"]) else None),
                      sanitizer_output=out[-3500:])
            ck.violation("%s:%s:%s" % (kind[0], kind[1], shape), rp,
                         "%s reports %s when the generated C runs on a valid input" % (kind[0], kind[1]))
        else:
            rp = dict(replay, failing_input_index=k, output=out[-2000:], exit_code=rc)
            ck.violation("crash:exit-%s:%s" % (rc, shape), rp, "the generated C terminates abnormally on a valid input")
    ck.cov["sanitizer_search"] = stats
    ck.cov["c_compile_errors_outside_C08"] = other_errors[:10]
    ck.log("sanitizer search: %s" % stats)
    if other_errors:
        ck.log("C compile errors not about const (outside C08, see C15): %s" % other_errors[:3])
    return stats


# ============================================================================= the check
def run(ck: common.Check):
    # ---- 1. translators + proofs
    import time
    t0 = time.time()
    ok_gen = ck.gen(ENGINE)
    ok_build = ck.coq_build(ENGINE)
    ck.log("translators + coq build: %.1fs" % (time.time() - t0))
    model_ok = (COQ / ENGINE / "ModelCanon.vo").exists() and ok_gen

    # ---- generated + scheduled procedures, observed on the real backend
    n_prog = ck.n(90, 500)
    recs = run_workers(ck, n_prog, n_sched=2, n_inputs=ck.n(4, 6))
    ck.log("generation + observation of the real backend: %.1fs" % (time.time() - t0))
    st = {}
    for r in recs:
        st[r.get("status", "?")] = st.get(r.get("status", "?"), 0) + 1
    ck.log("generated variants: %s" % st)
    ck.cov["generator"] = {"programs": n_prog, "variants": len(recs), "status": st}
    # an AssertionError (or other internal error) of the backend on a procedure the front end and the scheduler accepted
    # Internal errors in the code C08 models (the pop assertion of MemoryAnalysis, the asserts of simplify_cir, ...) are C08
    # findings; internal errors elsewhere in the backend produce no C at all and are listed for the owner property.
    MODELLED = re.compile(r"mem_analysis\.py|in (simplify_cir|lift_to_cir|comp_cir|get_window_type|comp_fnarg|get_writes_of_stmts|do_s)\b")
    outside = []
    for r in recs:
        if r.get("status") == "compile-refused" and (r.get("assertion") or r.get("trace")):
            tr = r.get("trace") or ""
            # frames of the harness' own observers (c08_export.py wrappers) do not count
            frames = "\n".join(l for l in tr.split("\n") if "c08_export.py" not in l)
            last = [l for l in frames.split("\n") if l.strip().startswith("File ")][-1:] or [""]
            if MODELLED.search(last[0]):
                key = "backend-crash:%s:%s" % (re.sub(r"[^A-Za-z]+", "-", r["error"].split(":")[0]), shape_of(r))
                ck.violation(key, {"source": r["src"], "schedule": r.get("sched", []), "procedure": r.get("proc_text"), "trace": tr},
                             "the part of the C backend modelled by C08 fails with an internal error: " + r["error"][:200])
            else:
                outside.append({"tag": r["tag"], "error": r["error"][:160], "where": last[0].strip()[:160], "schedule": r.get("sched", [])})
        if r.get("status") == "harness-error":
            ck.broken_obligation("harness-error", r.get("error", "")[-600:])
    ck.cov["backend_internal_errors_outside_C08"] = outside[:10]
    if outside:
        ck.log("backend internal errors outside the code C08 models (no C produced): %d, e.g. %s" % (len(outside), outside[0]))
    okrecs = [r for r in recs if r.get("status") == "ok"]
    if len(okrecs) < max(10, len(recs) // 5):
        ck.broken_obligation("generator-collapsed", "only %d of %d variants compile" % (len(okrecs), len(recs)))

    # ---- 2. correspondence
    suspects = set()
    if model_ok:
        suspects = correspondence(ck, okrecs)
        helper_correspondence(ck)
    # direct check of the real MemoryAnalysis output (independent of model and translated used_s)
    nstat = 0
    for r in okrecs:
        for p in r["procs"]:
            ck.case("real-output-free-check", (r["tag"], p["name"]), nontrivial=bool((p.get("feat") or {}).get("alloc")),
                    tag="allocs=%d" % min((p.get("feat") or {}).get("alloc", 0), 4))
            if p.get("static_free"):
                nstat += 1
                suspects.add(r["tag"])
                ck.corr_diverge("real-output-free-check", {"tag": r["tag"], "proc": p["name"], "schedule": r.get("sched", []),
                                                           "findings": p["static_free"][:5]})
            else:
                ck.corr_agree("real-output-free-check")
    if nstat:
        ck.log("real MemoryAnalysis output violates the Free discipline in %d procedures" % nstat)
    if not model_ok:
        ck.log("model does not build: correspondence skipped, going straight to the search")

    ck.log("correspondence done: %.1fs" % (time.time() - t0))
    # ---- 3. failing-input search against the real generated C (cheap enough for quick)
    san_search(ck, okrecs, ck.n(52, 230), suspects)
    ck.log("sanitizer search done: %.1fs" % (time.time() - t0))

    # ---- 4. evidence
    ck.cov["rule"] = (
        "Programs: progen grammar (sizes/index/bool/scalar/tensor/window args, assertions, nested for/if/else, allocs, "
        "windows and windows of windows, calls, config, / and % on possibly negative operands) x 0-3 random scheduling "
        "operations from sched.candidates; two fifths of the programs come from c08_shapes (last use of an allocation through a "
        "window / window of a window / call, allocations in else branches and loop bodies, strided windows, const and non-const "
        "callee formals, stack and static memories); plus synthetic LoopIR skeletons (every third malformed: re-used Syms, re-bound "
        "windows, Free in input). Inputs of the sanitizer search: sizes 1..8 and constants near those in assertions, index "
        "arguments -3..7, window arguments with strides x1..x3 and offsets, buffers of exactly the addressed size, 4-6 inputs "
        "per program, assertions evaluated before use. Model side evaluated with vm_compute on the same exported terms.")
    ck.cov["trusted_base"] = [
        "Coq 8.16.1 kernel (coqc, full .vo); no axioms: every theorem of Props_C08.v is closed under the global context",
        "translator/py2coq_memanalysis.py (used_e/used_s grammar; 90-line C expression parser for the two static helpers)",
        "hand-written models coq/MemSafe/ModelMem.v (MemoryAnalysis), ModelWrites.v (GetWrites, const decisions), ModelDiv.v "
        "(lift_to_cir, simplify_cir, comp_cir, comp_e division lowering): agreement with the Python is sampled, not proved",
        "harness/c08_export.py (LoopIR -> Gallina terms, monkey-patched observers of lift_to_cir/simplify_cir/comp_cir/comp_e), "
        "c08_cgen.py (driver generation), c08_synth.py, c08_shapes.py, c08_impl.py (incl. the model-independent static check of "
        "the real MemoryAnalysis output)",
        "SpecExec.v: the execution semantics (live set, faults) in which C08_runs_clean / C08_exec_certificate are stated is a "
        "statement-skeleton abstraction of the C program: branches and trip counts unconstrained, data not modelled",
        "C int / int_fast32_t modelled as unbounded Z: signed overflow of index arithmetic and the narrowing of int_fast32_t "
        "arguments to the helpers' `int` parameters are outside the theorems (UBSan exercises them on the sampled inputs only)",
        "the `nn` flags (range analysis answers) are assumed sound in C08_divmod_choice: that is property C13",
        "clang 14 ASan/UBSan/LeakSanitizer and gcc 12 diagnostics as the oracle of the search",
        "well-formedness of compiled LoopIR (wf_b: unique allocation and window Syms, lexical scoping of windows) is a "
        "hypothesis of the Free theorems; it is evaluated on every exported procedure and reported below",
    ]
    ck.assumptions += [
        "wf_b p (Spec.v) for C08_free_once / C08_free_after; additionally rhs_ok for C08_total and ascoped_b (ModelScope.v) for "
        "C08_runs_clean; wfw_b for C08_const — all evaluated on every exported real procedure (coverage.hypotheses_on_real_procedures)",
        "divisors are positive integer literals (front end) and range-analysis flags are sound (C13) for C08_divmod_choice",
        "memories other than DRAM / DRAM_STACK / DRAM_STATIC are not executed",
        "parallel loops are compiled without -fopenmp in the search (pragma ignored)",
    ]
    if ok_build and (COQ / ENGINE / "Props_C08.v").exists():
        ck.assumptions_from_vo(ENGINE, "Props_C08")


def correspondence(ck, okrecs):
    cases = []  # (stream, kind, term, real, meta)
    # ---- Free placement, write sets, const qualifiers on real procedures
    for r in okrecs:
        for p in r["procs"]:
            if "body" not in p:
                continue
            meta = {"tag": r["tag"], "proc": p["name"], "sched": r.get("sched", [])}
            cases.append(("mem-analysis", "mem", p["body"], p["real_after"], dict(meta, feat=p["feat"])))
            cases.append(("const", "const", (p["buf_args"], p["body_after"]), p, meta))
            cases.append(("exec-certificate", "exec", p["body_after"], None, dict(meta, feat=p["feat"])))
    # ---- division lowering
    seen = set()
    budget = {"lift": ck.n(150, 1500), "simplify": ck.n(250, 2500), "div_cir": ck.n(250, 2500), "div_e": ck.n(200, 2000)}
    for r in okrecs:
        for dv in r["div"]:
            key = (dv["kind"], dv["term"])
            if key in seen or budget[dv["kind"]] <= 0:
                continue
            seen.add(key)
            budget[dv["kind"]] -= 1
            cases.append((dv["kind"].replace("_", "-"), dv["kind"], dv["term"], dv["real"],
                          {"tag": r["tag"], "text": dv.get("text"), "lit": dv["lit"]}))
    # ---- synthetic skeletons
    for s in run_synth(ck, ck.n(360, 2500)):
        cases.append(("mem-synthetic", "mem", s["body"], s["mem_real"], {"tag": s["tag"], "malformed": s["malformed"], "err": s.get("mem_err")}))
        cases.append(("writes-synthetic", "writes", s["body"], s["writes_real"], {"tag": s["tag"], "malformed": s["malformed"]}))
    terms = []
    for (stream, kind, term, real, meta) in cases:
        if kind == "const":
            terms.append("const_case [%s] %s" % ("; ".join(map(str, term[0])), term[1]))
        else:
            terms.append("%s %s" % (CASEFN[kind], term))
    model = eval_cases(ck, terms, "corr")
    wf = {"true": 0, "false": 0, "false_samples": []}
    wfw = {"true": 0, "false": 0, "false_samples": []}
    suspects = set()
    diverged_before = lambda st: ck.stream(st)["diverge"]
    for (stream, kind, term, real, meta), m in zip(cases, model):
        ndiv = diverged_before(stream)
        try:
            compare_one(ck, stream, kind, term, real, meta, m, wf, wfw)
        finally:
            if diverged_before(stream) > ndiv and isinstance(meta, dict) and str(meta.get("tag", "")).startswith(("g", "c")):
                suspects.add(meta["tag"])
    return finish_corr(ck, wf, wfw, suspects)


def compare_one(ck, stream, kind, term, real, meta, m, wf, wfw):
    if True:  # (kept as a block: one case = one comparison)
        if m is None:
            ck.case(stream, term, nontrivial=False)
            ck.corr_diverge(stream, {"case": meta, "why": "model evaluation failed"})
            return
        if kind == "mem":
            hyps, m = m[0], m[1:]
            wfflag = hyps == 7  # wf_b + 2*ascoped_b + 4*rhs_ok: all hypotheses of C08_free_* / C08_total / C08_runs_clean
            if stream == "mem-analysis":
                wf["true" if wfflag else "false"] += 1
                if not wfflag and len(wf["false_samples"]) < 5:
                    wf["false_samples"].append(dict(meta, wf_b=bool(hyps & 1), ascoped_b=bool(hyps & 2), rhs_ok=bool(hyps & 4)))
            nfree = m.count(8) if m and m[0] == 0 else 0
            tagk = ("malformed:" if meta.get("malformed") else "") + ("err" if m and m[0] < 0 else "frees=%d" % min(m[1:].count(8), 4) if m else "?")
            ck.case(stream, term, nontrivial=(len(m) > 3), tag=tagk,
                    sample={"case": meta, "model": m[:40], "real": (real or [])[:40]})
            if stream == "mem-synthetic":
                if real is None:
                    # an exception the model does not represent (KeyError of mem_env etc.)
                    ck.stream(stream)["distribution"]["unmodelled-exception"] = ck.stream(stream)["distribution"].get("unmodelled-exception", 0) + 1
                    ck.corr_diverge(stream, {"case": meta, "why": "real code raised an exception outside the model", "model": m[:30]})
                    return
                ok = (m == real) or (m[0] < 0 and real[0] < 0 and ((m[0] == -2) == (real[0] == -2)))
            else:
                ok = m == [0] + real
            (ck.corr_agree(stream) if ok else ck.corr_diverge(stream, {"case": meta, "model": m, "real": real}))
        elif kind == "exec":
            # the proved-sound checker (C08_exec_certificate) on the REAL MemoryAnalysis output
            f = meta.get("feat") or {}
            ck.case(stream, term, nontrivial=bool(f.get("alloc")), tag="allocs=%d" % min(f.get("alloc", 0), 4),
                    sample={"case": {k: v for k, v in meta.items() if k != "feat"}, "exec_safe_b": m})
            (ck.corr_agree(stream) if m == [1] else ck.corr_diverge(stream, {"case": meta, "exec_safe_b": m,
                                                                              "why": "checker rejects the real MemoryAnalysis output"}))
        elif kind == "writes":
            ck.case(stream, term, nontrivial=bool(real), tag="n=%d" % min(len(real or []), 5))
            ok = real is not None and m == [0] + real
            (ck.corr_agree(stream) if ok else ck.corr_diverge(stream, {"case": meta, "model": m, "real": real}))
        elif kind == "const":
            p = real
            if m[0] != 0:
                ck.case(stream, term, nontrivial=False)
                ck.corr_diverge(stream, {"case": meta, "why": "model error", "model": m})
                return
            wfw["true" if m[1] else "false"] += 1
            if not m[1] and len(wfw["false_samples"]) < 5:
                wfw["false_samples"].append(meta)
            m = [m[0]] + m[2:]
            na = m[1]
            sep = m.index(-7)
            margs, mstructs, mnc = m[2:2 + na], m[2 + na:sep], m[sep + 1:]
            obs = p.get("const")
            ck.case(stream, term, nontrivial=bool(mstructs) or any(margs), tag="structs=%d" % min(len(mstructs), 4),
                    sample={"case": meta, "model_args_const": margs, "model_structs_const": mstructs, "observed": obs})
            ok = sorted(set(mnc)) == sorted(set(p["writes_real"])) and mnc == p["writes_real"]
            why = "non_const list"
            if ok and obs is not None and not p.get("has_instr_call"):
                ok = margs == [int(x) for x in obs["args"]] and mstructs == [(-1 if x is None else int(x)) for x in obs["structs"]]
                why = "qualifiers in the C text"
            elif ok and obs is None:
                ok, why = False, "C text of the procedure does not parse"
            # every malloc has its free in the text, as many as the analysed IR has heap allocations
            if ok and p.get("n_free") is not None and p.get("heap") is not None:
                ok = p["n_free"]["malloc"] == p["heap"][0] and p["n_free"]["free"] == p["heap"][1] == p["heap"][0]
                why = "malloc/free count in the C text"
            (ck.corr_agree(stream) if ok else ck.corr_diverge(stream, {"case": meta, "why": why, "model": m, "observed": obs,
                                                                         "writes_real": p["writes_real"], "n_free": p.get("n_free"), "heap": p.get("heap")}))
        else:
            if not meta.get("lit", True):
                wf["nonlit"] = wf.get("nonlit", 0) + 1
            ck.case(stream, term, nontrivial=True, tag="tokens=%d" % min(len(real), 4) if kind.startswith("div") else None,
                    sample={"term": term[:200], "model": m[:30], "real": real[:30], "text": meta.get("text")})
            (ck.corr_agree(stream) if m == real else ck.corr_diverge(stream, {"case": meta, "term": term[:400], "model": m, "real": real}))


def finish_corr(ck, wf, wfw, suspects):
    nonlit = wf.get("nonlit", 0)
    ck.cov["hypotheses_on_real_procedures"] = {"free_theorem_hyps_true": wf["true"], "free_theorem_hyps_false": wf["false"], "free_theorem_hyps_false_samples": wf["false_samples"],
                                               "wfw_b_true": wfw["true"], "wfw_b_false": wfw["false"], "wfw_b_false_samples": wfw["false_samples"],
                                               "non_literal_divisors": nonlit}
    ck.log("hypotheses on exported real procedures: wf_b & ascoped_b & rhs_ok %d true / %d false; wfw_b %d true / %d false; "
           "expressions with a non-literal divisor: %d" % (wf["true"], wf["false"], wfw["true"], wfw["false"], nonlit))
    for name, s in sorted(ck.streams.items()):
        ck.log("stream %-18s cases %5d agree %5d diverge %d" % (name, s["cases"], s["agree"], s["diverge"]))
        if name != "sanitizer-search" and s["cases"] == 0:
            ck.broken_obligation("correspondence-empty:" + name, "no cases")
    return suspects
