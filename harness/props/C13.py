"""C13 — Range analysis bounds contain every attainable value.

  1. translator (range_analysis.py -> coq/Range/Gen_Range.v), full Coq build, OCaml extraction of the model
  2. correspondence  model (extracted OCaml)  <->  real exo.rewrite.range_analysis / exo.stdlib.range_analysis
  3. failing-input search: brute-force enumeration of valuations inside the stated intervals against what
     the REAL implementation returned (oracle = integer arithmetic, c13_gen.ev)
"""
import json
import os
import sys

import common
from common import COQ, PY, SCRATCH, VERIF, exo_env, parse_sexp, sh

sys.path.insert(0, os.path.dirname(os.path.dirname(os.path.abspath(__file__))))
import c13_gen as G  # noqa: E402
import c13_findings  # noqa: E402

ENGINE = "Range"
DRIVER = COQ / ENGINE / "_build" / "c13_driver"


# ============================================================================= case generation
def gen_cases(ck):
    rng = ck.rng
    g = G.Gen(rng)
    cases = []

    def add(stream, c, **meta):
        c = dict(c)
        c["_stream"] = stream
        c["_meta"] = meta
        cases.append(c)

    # -- corpus: witnesses of REPAIRED defects run first and must pass (else VIOLATION regression:<id>)
    import c13_corpus
    for w in c13_corpus.REGRESSIONS:
        add("corpus_regression", w)

    # -- analyze: valid expressions x environments
    for _ in range(ck.n(1200, 40000)):
        syms = g.syms(rng.choice([1, 2, 2, 3, 4]))
        env = g.env(syms)
        e = g.expr(syms, rng.choice([1, 2, 3, 3, 4, 5]))
        add("analyze", {"kind": "analyze", "env": env, "expr": e,
                        "envtype": "dict" if len(env) == 1 and rng.random() < 0.5 else "chainmap"})
    # -- analyze, systematic: every expression with at most two operators over a small alphabet x 5 environments
    small = small_exprs()
    if not ck.thorough:
        small = rng.sample(small, 400)
    envs5 = [[[]], [[[1, 100, 0, 3]]], [[[1, 100, -2, None], [2, 101, None, 4]]], [[[1, 100, None, None]], [[2, 101, 1, 1]]],
             [[[1, 100, 2, 9], [2, 101, -3, 5]]]]
    for e in small:
        for env in (envs5 if ck.thorough else [rng.choice(envs5)]):
            add("analyze_small", {"kind": "analyze", "env": env, "expr": e, "envtype": "chainmap"})
    # -- malformed: range*range, division by a range, c <= 0
    for _ in range(ck.n(400, 12000)):
        syms = g.syms(rng.choice([1, 2, 3]))
        add("malformed", {"kind": "analyze", "env": g.env(syms), "expr": g.expr(syms, rng.choice([1, 2, 3, 4]), True)})
    # -- operator protocol on raw values (incl. the ValueError object)
    for _ in range(ck.n(300, 10000)):
        syms = g.syms(2)
        if rng.random() < 0.12:
            add("protocol", {"kind": "uneg", "a": g.rv(syms, True)})
        else:
            b = g.rv(syms, True)
            if rng.random() < 0.4:
                b = ["int", rng.choice([-3, -1, 0, 0, 1, 2, 4, 5])]
            add("protocol", {"kind": "binop", "op": rng.choice(G.OPS), "a": g.rv(syms, True), "b": b})
    # -- constant_bound / check_expr_bound(s)
    for _ in range(ck.n(500, 16000)):
        syms = g.syms(rng.choice([1, 2, 3]))
        env = g.env(syms)
        k = rng.random()
        if k < 0.25:
            add("constant_bound", {"kind": "cbound", "env": env, "arg": g.arg(syms, 3)})
        elif k < 0.7:
            a, b = g.arg(syms), g.arg(syms)
            if rng.random() < 0.4:
                a = ["int", 0]
            add("check_expr_bound", {"kind": "check", "env": env, "a": a, "op": rng.choice(["lt", "leq", "eq"]),
                                     "b": b})
        else:
            add("check_expr_bound", {"kind": "checks", "env": env, "a": ["int", rng.choice([0, 0, -2, 1])],
                                     "op": rng.choice(["lt", "leq", "leq", "eq"]), "b": g.arg(syms),
                                     "op2": rng.choice(["lt", "lt", "leq", "eq"]),
                                     "c": ["int", rng.choice([1, 2, 4, 8, 16, 3])]})
    # -- _check_range on raw pairs (small exhaustive-ish grid)
    vals = [None, -1, 0, 1, 2]
    for _ in range(ck.n(200, 3000)):
        add("check_range", {"kind": "crange", "r0": [rng.choice(vals), rng.choice(vals)],
                            "op": rng.choice(["lt", "leq", "eq"]), "r1": [rng.choice(vals), rng.choice(vals)]})
    # -- IndexRangeEnvironment life cycle
    for _ in range(ck.n(300, 10000)):
        add("environment", gen_envseq(g, rng))
    # -- join
    for _ in range(ck.n(300, 10000)):
        syms = g.syms(2, shadow=rng.random() < 0.3)
        n = rng.choice([2, 2, 3, 4])
        rs = []
        common_base = g.linear(syms) if rng.random() < 0.5 else ["c", 0]
        for j in range(n):
            r = g.rv(syms, allow_err=(rng.random() < 0.05))
            if isinstance(r, list) and r[0] == "range" and rng.random() < 0.6:
                r[1] = common_base
                if rng.random() < 0.15:  # same NAMES, different Syms (LoopIR_Compare cannot tell them apart)
                    r[1] = rename_ids(common_base, 1000)
            if isinstance(r, list) and r[0] == "int":
                r = ["range", ["c", 0], r[1], r[1]]
            rs.append(r)
        add("join", {"kind": "orchain", "rs": rs})
    # -- get_stride_of / partial_eval_with_range / get_size / wrapper
    for _ in range(ck.n(300, 10000)):
        syms = g.syms(rng.choice([1, 2, 3]))
        k = rng.random()
        base = g.linear(syms, with_divmod=rng.random() < 0.15)
        if rng.random() < 0.3:
            base = ["b", rng.choice(["add", "sub"]), base, g.linear(syms)]
        b = g.bounds()
        r = ["range", base, b[0], b[1]]
        if k < 0.2:
            add("fold_helpers", {"kind": "stride", "r": r, "sym": list(rng.choice(syms))})
        elif k < 0.75:
            gb = g.bounds()
            others = [s for s in syms]
            var = rng.choice(syms)
            gbase = ["c", 0]
            rest = [s for s in syms if s != var]
            if rest and rng.random() < 0.3:
                gbase = ["v"] + list(rng.choice(rest))
            add("fold_helpers", {"kind": "peval", "r": r, "sym": list(var), "g": ["range", gbase, gb[0], gb[1]]})
        elif k < 0.85:
            add("fold_helpers", {"kind": "size", "r": r})
        else:
            add("fold_helpers", {"kind": "wrapper", "expr": g.expr(syms, 3, malformed=rng.random() < 0.2)})
    # -- user level: Procedures built from LoopIR trees
    for _ in range(ck.n(150, 5000)):
        add("user_ir", gen_user_tree(g, rng))
    # -- user level: real @proc sources through the front end
    for src in user_sources(rng, ck.n(10, 80)):
        add("user_src", {"kind": "user", "mode": "src", "src": src})
    return cases


def small_exprs():
    """all index expressions with <= 2 operators over {i, j, -2, 0, 1, 3}, divisors {2, 3} (valid stream)"""
    i, j = ["v", 1, 100], ["v", 2, 101]
    consts = [["c", -2], ["c", 0], ["c", 1], ["c", 3]]
    leaves = [i, j] + consts

    def step(subs):
        out = []
        for a in subs:
            out.append(["neg", a])
            for d in (2, 3):
                out.append(["b", "div", a, ["c", d]])
                out.append(["b", "mod", a, ["c", d]])
            for c in consts:
                out.append(["b", "mul", a, c])
                out.append(["b", "mul", c, a])
            for b in leaves:
                out.append(["b", "add", a, b])
                out.append(["b", "sub", a, b])
                out.append(["b", "sub", b, a])
        return out

    d1 = step(leaves)
    d2 = step(d1)
    seen, out = set(), []
    for e in d1 + d2:
        k = json.dumps(e)
        if k not in seen:
            seen.add(k)
            out.append(e)
    return out


def gen_envseq(g, rng):
    """a walk of the compiler / simplifier over a loop nest: enter_scope, add_loop_iter, ..., exit_scope"""
    sizes = [(50 + j, 500 + j) for j in range(rng.choice([0, 1, 2]))]
    ops, live, allsyms = [], [], list(sizes)
    depth = rng.choice([1, 2, 2, 3, 4])
    nid = 0
    for _ in range(depth):
        nid += 1
        nm = nid if not (live and rng.random() < 0.15) else live[-1][0]  # occasionally the same NAME
        s = (nm, 100 + nid)
        scope_syms = list(sizes) + live
        lo = ["int", rng.choice([0, 0, 0, 1, 2, -1])] if rng.random() < 0.6 else ["expr", g.expr(scope_syms, 2)]
        hi = ["expr", g.expr(scope_syms, 2)] if rng.random() < 0.6 else ["int", rng.choice([1, 2, 4, 8, 3, 0])]
        if rng.random() < 0.85:
            ops.append(["enter"])
        ops.append(["loop", s[0], s[1], lo, hi])
        live.append(s)
        allsyms.append(s)
        if rng.random() < 0.2 and len(live) > 0:  # leave the innermost loop again
            ops.append(["exit"])
            live.pop()
        if rng.random() < 0.04:
            ops.append(["exit"])  # unbalanced exit (root scope popped): ChainMap.parents semantics
            ops.append(["exit"])
            live = []
    keys = [list(s) for s in allsyms] or [[1, 1]]
    q = ["expr", g.expr(allsyms or [(1, 1)], 3)]
    return {"kind": "envseq", "sizes": [list(s) for s in sizes], "ops": ops, "keys": keys, "q": q}


def gen_user_tree(g, rng):
    sizes = [(40, 400)] if rng.random() < 0.4 else []
    counter = [0]

    def fresh(live):
        counter[0] += 1
        nm = counter[0]
        if live and rng.random() < 0.12:
            nm = rng.choice(live)[0]  # shadowing: same name, different Sym
        return (nm, 100 + counter[0])

    def bound(live, hi):
        k = rng.random()
        if hi:
            if k < 0.6:
                return ["c", rng.choice([1, 2, 3, 4, 8])]
            if k < 0.75 and sizes:
                return ["v"] + list(sizes[0])
            if k < 0.9 and live:
                return ["b", "add", ["v"] + list(rng.choice(live)), ["c", rng.choice([0, 1, 2])]]
            return ["b", "add", ["c", rng.choice([1, 2])], ["c", rng.choice([1, 2, 3])]]
        if k < 0.75:
            return ["c", rng.choice([0, 0, 0, 1, 2])]
        if live:
            return ["v"] + list(rng.choice(live))
        return ["c", 0]

    def body(live, depth):
        out = []
        for _ in range(rng.choice([1, 1, 2, 3])):
            if depth > 0 and rng.random() < 0.5:
                s = fresh(live)
                out.append(["for", s[0], s[1], bound(live, False), bound(live, True), body(live + [s], depth - 1)])
            else:
                free = live + sizes
                out.append(["acc", "x", [g.expr(free, rng.choice([1, 2, 2, 3]))]])
        return out

    root = fresh([])
    tree = [["for", root[0], root[1], ["c", 0], ["c", rng.choice([1, 2, 3])], body([root], rng.choice([1, 2, 2, 3]))]]
    return {"kind": "user", "mode": "ir", "sizes": [list(s) for s in sizes], "tree": tree}


SRC_HEAD = "from __future__ import annotations\nfrom exo import proc\n\n"


def user_sources(rng, n):
    """small REAL @proc procedures (front end, type checker, bounds checker in the loop)"""
    T = []
    T.append(lambda a, b, c: """@proc
def p(x: R[256]):
    for k in seq(0, 2):
        for i in seq(0, %d):
            for j in seq(0, %d):
                x[i * %d + j] = 0.0
            x[i + %d] = 1.0
""" % (a + 2, b + 1, b + 1, c))
    T.append(lambda a, b, c: """@proc
def p(n: size, x: R[n + %d]):
    for k in seq(0, 2):
        for i in seq(0, n):
            x[i + %d] = 0.0
        x[%d] = 1.0
""" % (a + c + 1, a, c))
    T.append(lambda a, b, c: """@proc
def p(x: R[256]):
    for k in seq(0, 3):
        for i in seq(%d, %d):
            x[(i * %d + k) / %d] = 0.0
            x[(i + %d) %% %d] = 0.0
""" % (a, a + b + 1, c + 1, b + 1, c, b + 2))
    T.append(lambda a, b, c: """@proc
def p(x: R[256]):
    for k in seq(0, 2):
        for i in seq(0, %d):
            for i in seq(0, %d):
                x[i] = 0.0
""" % (a + 1, a + b + 3))
    T.append(lambda a, b, c: """@proc
def p(x: R[256]):
    for k in seq(0, 2):
        for i in seq(0, %d):
            x[%d - %d * i] = 0.0
        for j in seq(%d, %d):
            x[j + k] = 0.0
""" % (a + 1, 3 * (a + 1) + c, 3, b, b + c + 1))
    T.append(lambda a, b, c: """@proc
def p(n: size, m: size, x: R[n * %d + m]):
    for k in seq(0, n):
        for i in seq(0, %d):
            for j in seq(0, m):
                x[k * %d + j / %d] = 0.0
""" % (a + 2, b + 1, a + 1, c + 1))
    T.append(lambda a, b, c: """@proc
def p(x: R[256]):
    for k in seq(0, 4):
        for i in seq(k, k + %d):
            x[i - k + %d] = 0.0
        x[k] = 0.0
""" % (a + 1, b))
    out = []
    for j in range(n):
        t = T[j % len(T)]
        out.append(SRC_HEAD + t(rng.randint(0, 4), rng.randint(0, 4), rng.randint(0, 5)))
    return out


# ============================================================================= running both sides
def run_impl(ck, cases):
    d = common.scratch_dir("C13")
    payload = [{k: v for k, v in c.items() if not k.startswith("_")} for c in cases]
    (d / "cases.json").write_text(json.dumps(payload))
    rc, out = sh([PY, str(VERIF / "harness" / "c13_impl.py"), str(d / "cases.json"), str(d / "impl.json")],
                 timeout=1500, cwd="/", env=exo_env())
    if rc != 0 or not (d / "impl.json").exists():
        ck.broken_obligation("impl-driver", out[-800:])
        ck.log("implementation driver failed: %s" % out[-500:])
        return None
    return json.loads((d / "impl.json").read_text())


def run_model(ck, jobs):
    if not DRIVER.exists():
        return None
    d = SCRATCH / "C13"
    d.mkdir(parents=True, exist_ok=True)
    (d / "jobs.sexp").write_text("\n".join(jobs) + "\n")
    rc, out = sh("%s < %s" % (DRIVER, d / "jobs.sexp"), timeout=900, cwd="/")
    lines = out.splitlines()
    if rc != 0 or len(lines) != len(jobs):
        ck.broken_obligation("model-driver", "rc=%s lines=%d jobs=%d %s" % (rc, len(lines), len(jobs), out[-300:]))
        return None
    return lines


def user_jobs(tree, buf="x"):
    """model jobs for a user-level case, from the loop tree the impl driver extracted from the LoopIR"""
    root = tree[0]
    accs = []

    def walk(nodes, path):
        for nd in nodes:
            if nd[0] == "for":
                walk(nd[5], path + [nd])
            elif nd[0] == "if":
                walk(nd[1], path)
                walk(nd[2], path)
            elif nd[0] == "acc" and nd[1] == buf:
                loops = [[l[1], l[2], l[3], l[4]] for l in reversed(path)]
                accs.append((loops, nd[2][0]))
    walk(root[5], [])
    jobs = [G.sx(["uinfer", loops, e]) for loops, e in accs]
    jobs.append(G.sx(["ubounds", [[loops, e] for loops, e in accs]]))
    return jobs, accs


# ============================================================================= search oracles
HITS = {}      # violation class -> number of failing inputs found (known findings included)
MAX_NEW_PER_CLASS = 3
EVALS = [0]    # concrete evaluations performed by the search


def report(ck, cls, c, replay, what):
    """one failing input of class `cls`; known findings are filtered by ck.violation, new ones are capped"""
    if c.get("_regress"):  # witness of a REPAIRED defect failing again: never a known finding
        cls = "regression:%s" % c["_regress"]
    key = key_of(cls, c)
    HITS[cls] = HITS.get(cls, 0) + 1
    if ck.match_known(key) is not None or sum(1 for v in ck.violations if v["key"].startswith(cls + ":")) \
            < MAX_NEW_PER_CLASS:
        ck.violation(key, replay, what)


def key_of(prefix, c):
    import hashlib
    payload = {k: v for k, v in c.items() if not k.startswith("_")}
    return "%s:%s" % (prefix, hashlib.sha1(json.dumps(payload, sort_keys=True).encode()).hexdigest()[:10])


def search_analyze(ck, c, res_s):
    """every value the expression takes for valuations inside the stated intervals is in the returned range"""
    try:
        res = parse_sexp(res_s)
    except Exception:
        return
    if not (isinstance(res, list) and res and res[0] in ("int", "range")):
        return
    e = c["expr"]
    keys = G.vars_of(e)
    if isinstance(res, list) and res[0] == "range":
        for k in G.vars_of(G.parse_expr_sx(res[1])):
            if k not in keys:
                keys.append(k)
    doms = {}
    for k in keys:
        b = G.env_lookup(c["env"], k)
        doms[k] = G.sample_interval(b[0], b[1], ck.rng) if b is not None else list(G.FREE_SAMPLE)
    n = 0
    for val in G.valuations(keys, doms, ck.rng):
        v = G.ev(e, val)
        if v is None:
            continue
        n += 1
        EVALS[0] += 1
        if G.in_result(res, v, val) is False:
            report(ck, "analyze:value-outside-range", c,
                         {"call": "exo.rewrite.range_analysis.index_range_analysis(expr, env)", "expr": e,
                          "env": c["env"], "returned": res_s, "valuation": {"%d_%d" % k: x for k, x in val.items()},
                          "value": v},
                         "index_range_analysis returned %s but the expression evaluates to %d" % (res_s, v))
            return
    ck.stream("search:analyze")["cases"] += 1
    ck.stream("search:analyze")["agree"] += 1 if n else 0


def arg_eval(a, val):
    return a[1] if a[0] == "int" else G.ev(a[1], val)


def arg_vars(a):
    return [] if a[0] == "int" else G.vars_of(a[1])


CMPF = {"lt": lambda x, y: x < y, "leq": lambda x, y: x <= y, "eq": lambda x, y: x == y}


def search_check(ck, c, res_s):
    if res_s != "true":
        return
    args = [c["a"], c["b"]] + ([c["c"]] if c["kind"] == "checks" else [])
    keys = []
    for a in args:
        for k in arg_vars(a):
            if k not in keys:
                keys.append(k)
    doms = {}
    for k in keys:
        b = G.env_lookup(c["env"], k)
        doms[k] = G.sample_interval(b[0], b[1], ck.rng) if b is not None else list(G.FREE_SAMPLE)
    for val in G.valuations(keys, doms, ck.rng):
        vs = [arg_eval(a, val) for a in args]
        if any(v is None for v in vs):
            continue
        ok = CMPF[c["op"]](vs[0], vs[1]) and (c["kind"] == "check" or CMPF[c["op2"]](vs[1], vs[2]))
        if not ok:
            report(ck, "check_expr_bound:true-but-false", c,
                         {"call": "IndexRangeEnvironment.check_expr_bound(s)", "case": {k: v for k, v in c.items()
                                                                                       if not k.startswith("_")},
                          "valuation": {"%d_%d" % k: x for k, x in val.items()}, "values": vs},
                         "check_expr_bound answered True but the comparison fails for a valuation in the env")
            return
    ck.stream("search:check_expr_bound")["cases"] += 1
    ck.stream("search:check_expr_bound")["agree"] += 1


def search_envseq(ck, c, res_s):
    """execute the loop nest concretely; every live variable's value must lie in its recorded range and the
    final constant_bound must contain the query's value"""
    try:
        res = parse_sexp(res_s)
    except Exception:
        return
    if not isinstance(res, list) or (res and res[0] == "err"):
        return
    looks, qb = res[:-1], res[-1]
    # replay scopes to know which loops are live at the end
    stack = [[]]  # list of scopes, each a list of loop ops
    for o in c["ops"]:
        if o[0] == "enter":
            stack.append([])
        elif o[0] == "exit":
            if len(stack) > 1:
                stack.pop()
            else:
                stack = [[]]
                c = dict(c, sizes=[])  # root popped: size bindings are gone too
        else:
            stack[-1].append(o)
    live = [o for sc in stack for o in sc]
    sizes = [tuple(s) for s in c["sizes"]]
    bounds_of = {}
    for k, l in zip(c["keys"], looks):
        bounds_of[tuple(k)] = None if l == "none" else (G.parse_opt(l[0]), G.parse_opt(l[1]))
    points = [0]

    def rec(j, val):
        if points[0] > 400:
            return True
        if j == len(live):
            points[0] += 1
            for k, b in bounds_of.items():
                if b is None or k not in val:
                    continue
                x = val[k]
                if (b[0] is not None and x < b[0]) or (b[1] is not None and x > b[1]):
                    report(ck, "environment:value-outside-range", c,
                                 {"call": "IndexRangeEnvironment.add_loop_iter", "ops": c["ops"], "sizes": c["sizes"],
                                  "symbol": list(k), "recorded": list(b), "valuation": {"%d_%d" % kk: v for kk, v in
                                                                                        val.items()}},
                                 "a loop variable takes a value outside the range add_loop_iter recorded")
                    return False
            qv = arg_eval(c["q"], val) if all(k in val for k in arg_vars(c["q"])) else None
            if qv is not None and isinstance(qb, list) and len(qb) == 2:
                lo, hi = G.parse_opt(qb[0]), G.parse_opt(qb[1])
                if (lo is not None and qv < lo) or (hi is not None and qv > hi):
                    report(ck, "environment:constant_bound", c,
                                 {"call": "constant_bound under IndexRangeEnvironment", "ops": c["ops"],
                                  "q": c["q"], "returned": qb, "value": qv,
                                  "valuation": {"%d_%d" % kk: v for kk, v in val.items()}},
                                 "constant_bound does not contain an attainable value")
                    return False
            return True
        o = live[j]
        # bounds are evaluated in the scope OUTSIDE the loop: the loop's own (possibly same-named) variable is
        # a different Sym, so `val` is keyed by (name, id) and shadowing cannot confuse the oracle
        lo_v = arg_eval(o[3], val) if all(k in val for k in arg_vars(o[3])) else None
        hi_v = arg_eval(o[4], val) if all(k in val for k in arg_vars(o[4])) else None
        if lo_v is None or hi_v is None:
            return True  # bound mentions a variable that is no longer live: not a meaningful nest
        for x in range(lo_v, min(hi_v, lo_v + 6)):
            v2 = dict(val)
            v2[(o[1], o[2])] = x
            if not rec(j + 1, v2):
                return False
        return True

    for sv in ([{}] if not sizes else [dict(zip(sizes, combo)) for combo in
                                       __import__("itertools").product([1, 2, 5], repeat=len(sizes))]):
        if not rec(0, dict(sv)):
            return
    ck.stream("search:environment")["cases"] += 1
    ck.stream("search:environment")["agree"] += 1


def rv_values(r, val, rng):
    """a sample of the concretisation of an rv under a valuation"""
    if r == "errv":
        return []
    if r[0] == "int":
        return [r[1]]
    b = G.ev(r[1], val)
    if b is None:
        return []
    return [b + x for x in G.sample_interval(r[2], r[3], rng, k=3)]


def names_clash_syms(syms):
    """two different Syms with one name (the hypothesis of C13_join / C13_bounds_inference_partial fails)"""
    byname = {}
    for (n, i) in syms:
        byname.setdefault(n, set()).add(i)
    return any(len(v) > 1 for v in byname.values())


def join_names_clash(rs):
    syms = []
    for r in rs:
        if r != "errv" and r[0] == "range":
            syms.extend(G.vars_of(r[1]))
    return names_clash_syms(syms)


def tree_syms(nodes, acc=None):
    acc = [] if acc is None else acc
    for nd in nodes:
        if nd[0] == "for":
            acc.append((nd[1], nd[2]))
            acc.extend(G.vars_of(nd[3]) + G.vars_of(nd[4]))
            tree_syms(nd[5], acc)
        elif nd[0] == "if":
            tree_syms(nd[1], acc)
            tree_syms(nd[2], acc)
        elif nd[0] == "acc":
            for e in nd[2]:
                acc.extend(G.vars_of(e))
    return acc


def rename_ids(e, off):
    if e[0] == "v":
        return ["v", e[1], e[2] + off]
    if e[0] == "c":
        return e
    if e[0] == "neg":
        return ["neg", rename_ids(e[1], off)]
    return ["b", e[1], rename_ids(e[2], off), rename_ids(e[3], off)]


def strip_ids(e):
    if e[0] == "v":
        return ["v", e[1]]
    if e[0] == "c":
        return e
    if e[0] == "neg":
        return ["neg", strip_ids(e[1])]
    return ["b", e[1], strip_ids(e[2]), strip_ids(e[3])]


def search_join(ck, c, res_s):
    try:
        res = parse_sexp(res_s)
    except Exception:
        return
    if not (isinstance(res, list) and res and res[0] == "range"):
        return
    keys = []
    for r in c["rs"]:
        if r != "errv" and r[0] == "range":
            for k in G.vars_of(r[1]):
                if k not in keys:
                    keys.append(k)
    doms = {k: [-9, -1, 0, 2, 7, 50] for k in keys}
    for val in G.valuations(keys, doms, ck.rng, cap=60):
        for r in c["rs"]:
            for v in rv_values(r, val, ck.rng):
                if G.in_result(res, v, val) is False:
                    cls = "join:name-only-base-match" if join_names_clash(c["rs"]) else "join:unexpected"
                    report(ck, cls, c,
                                 {"call": "IndexRange.__or__ (chain a | b | ...)", "operands": c["rs"],
                                  "returned": res_s, "operand": r, "value": v,
                                  "valuation": {"%d_%d" % kk: x for kk, x in val.items()}},
                                 "the join %s does not contain the value %d of one of its operands" % (res_s, v))
                    return
    ck.stream("search:join")["cases"] += 1
    ck.stream("search:join")["agree"] += 1


def search_peval(ck, c, res_s):
    """window r = base + [lo,hi] with `var` ranging over g: every base+w must be in the result"""
    try:
        res = parse_sexp(res_s)
    except Exception:
        return
    if not (isinstance(res, list) and res and res[0] in ("range", "int")):
        return
    r, g, var = c["r"], c["g"], tuple(c["sym"])
    if any(op in G.ops_of(r[1]) for op in ("div", "mod")):
        return
    keys = [k for k in G.vars_of(r[1]) + G.vars_of(g[1]) if k != var]
    keys = list(dict.fromkeys(keys))
    doms = {k: [-3, 0, 1, 4] for k in keys}
    for val in G.valuations(keys, doms, ck.rng, cap=30):
        gb = G.ev(g[1], val)
        if gb is None:
            continue
        for gx in G.sample_interval(g[2], g[3], ck.rng, k=3):
            v2 = dict(val)
            v2[var] = gb + gx
            b = G.ev(r[1], v2)
            if b is None:
                continue
            for w in G.sample_interval(r[2], r[3], ck.rng, k=3):
                if G.in_result(res, b + w, v2) is False:
                    report(ck, "partial_eval_with_range:unexpected", c,
                                 {"call": "IndexRange.partial_eval_with_range(var, rng)", "self": r, "var": list(var),
                                  "rng": g, "returned": res_s, "value": b + w,
                                  "valuation": {"%d_%d" % kk: x for kk, x in v2.items()}},
                                 "partial_eval_with_range returned %s, which misses the window value %d"
                                 % (res_s, b + w))
                    return
    ck.stream("search:partial_eval")["cases"] += 1
    ck.stream("search:partial_eval")["agree"] += 1


def search_user(ck, c, r):
    """run the loop nest concretely; compare every index value with infer_range's / bounds_inference's answer"""
    tree = r["tree"]
    root = tree[0]
    sizes = [tuple(s) for s in r.get("sizes", []) if s[0] >= 0]
    infer = []
    for s in r["infer"]:
        try:
            infer.append(parse_sexp(s))
        except Exception:
            infer.append(None)
    try:
        bounds = parse_sexp(r["bounds"])
    except Exception:
        bounds = None
    count = [0]
    found = []

    def names_unique(path):
        nms = [p[1] for p in path]
        return len(set(nms)) == len(nms)

    def run(nodes, val, path, idx):
        for nd in nodes:
            if found or count[0] > 3000:
                return idx
            if nd[0] == "for":
                lo, hi = G.ev(nd[3], val), G.ev(nd[4], val)
                start = idx[0]
                if lo is None or hi is None or lo >= hi:
                    idx[0] = start + count_accs(nd[5])
                    continue
                for x in range(lo, min(hi, lo + 9)):
                    idx[0] = start
                    v2 = dict(val)
                    v2[(nd[1], nd[2])] = x
                    run(nd[5], v2, path + [nd], idx)
                idx[0] = start + count_accs(nd[5])
            elif nd[0] == "if":
                run(nd[1], val, path, idx)
                run(nd[2], val, path, idx)
            elif nd[0] == "acc" and nd[1] == "x":
                j = idx[0]
                idx[0] += 1
                count[0] += 1
                v = G.ev(nd[2][0], val)
                if v is None:
                    continue
                try:
                    if j < len(infer) and infer[j] is not None and G.in_result(infer[j], v, val) is False:
                        found.append(("infer", j, v, dict(val), path))
                        return idx
                    if bounds is not None and bounds != "none" and G.in_result(bounds, v, val) is False:
                        ok_each = j < len(infer) and infer[j] is not None and G.in_result(infer[j], v, val)
                        found.append(("bounds", j, v, dict(val), path, ok_each))
                        return idx
                except KeyError:
                    pass
        return idx

    def count_accs(nodes):
        n = 0
        for nd in nodes:
            if nd[0] == "for":
                n += count_accs(nd[5])
            elif nd[0] == "if":
                n += count_accs(nd[1]) + count_accs(nd[2])
            elif nd[0] == "acc" and nd[1] == "x":
                n += 1
        return n

    import itertools
    for combo in itertools.product([1, 2, 5], repeat=len(sizes)):
        val = dict(zip(sizes, combo))
        lo, hi = G.ev(root[3], val), G.ev(root[4], val)
        if lo is None or hi is None:
            continue
        for x in range(lo, min(hi, lo + 4)):
            v2 = dict(val)
            v2[(root[1], root[2])] = x
            run(root[5], v2, [root], [0])
            if found:
                break
        if found:
            break
    if found:
        f = found[0]
        path = f[4]
        shadow = names_clash_syms(tree_syms(tree) + [tuple(z) for z in r.get("sizes", [])])
        replay = {"call": "exo.stdlib.range_analysis.%s" % ("infer_range" if f[0] == "infer" else "bounds_inference"),
                  "source": c.get("src"), "tree": tree, "names": r.get("names"), "access_index": f[1], "value": f[2],
                  "returned": r["infer"][f[1]] if f[0] == "infer" else r["bounds"],
                  "valuation": {"%d_%d" % kk: x for kk, x in f[3].items()}}
        if f[0] == "infer":
            cls = "infer_range:shadowed-name" if shadow else "infer_range:unexpected"
            what = "infer_range returned %s but the index takes the value %d" % (replay["returned"], f[2])
        else:
            cls = "bounds_inference:shadowed-name" if shadow else "bounds_inference:unexpected"
            what = "bounds_inference returned %s but an access has index %d" % (replay["returned"], f[2])
        report(ck, cls, c, replay, what)
        return
    ck.stream("search:user")["cases"] += 1
    ck.stream("search:user")["agree"] += 1


# ============================================================================= main
def run(ck):
    # OPEN findings of this engine that are not (yet) listed in /verif/known_findings.json; a no-op as soon as
    # the lead has added them there (then c13_findings.py and these two lines can be deleted)
    have = {f.get("id") for f in common.load_known().get("findings", [])}
    ck.known.extend(f for f in c13_findings.FINDINGS if f["id"] not in have)

    # ---- 1. translator, proofs, extraction
    gen_ok = ck.gen(ENGINE)
    build_ok = ck.coq_build(ENGINE, timeout=900)
    if build_ok:
        ck.assumptions_from_vo(ENGINE, "Props_C13")
    ext_ok = ck.extract(ENGINE) if (gen_ok and (COQ / ENGINE / "Gen_Range.vo").exists()) else False
    if not ext_ok and DRIVER.exists():
        DRIVER.unlink()  # never compare against a model extracted from an older source
    if not gen_ok:
        ck.log("translator failed: Gen_Range.v removed, proofs about the arithmetic cannot be re-established")

    # ---- 2. correspondence
    cases = gen_cases(ck)
    impl = run_impl(ck, cases)
    if impl is None:
        return evidence(ck, gen_ok, build_ok, ext_ok)
    jobs, slots = [], []
    for c, r in zip(cases, impl):
        if c["kind"] == "fold":
            slots.append(None)
        elif c["kind"] == "user":
            if isinstance(r, dict) and "tree" in r and "infer" in r:
                js, accs = user_jobs(r["tree"])
                slots.append((len(jobs), len(js)))
                jobs.extend(js)
            else:
                slots.append(None)
        else:
            slots.append((len(jobs), 1))
            jobs.append(G.job_of(c))
    model = run_model(ck, jobs) if ext_ok else None
    if model is None:
        ck.broken_obligation("correspondence:model-unavailable",
                             "the extracted model could not be built/run; correspondence not established")
    for c, r, sl in zip(cases, impl, slots):
        st = c["_stream"]
        if c["kind"] == "fold":
            ck.case(st, c["src"], True, None, tag="fold")
            continue
        if c["kind"] == "user":
            if sl is None:
                ck.case(st, json.dumps(c.get("tree", c.get("src"))), False, None, tag="rejected")
                if c["mode"] == "src":
                    ck.corr_diverge(st, {"case": c.get("src"), "impl": r})
                continue
            got = r["infer"] + [r["bounds"]]
            tag = "shadow" if has_shadow(r["tree"]) else "plain"
            ck.case(st, json.dumps(r["tree"]), True, {"tree": r["tree"], "infer": r["infer"], "bounds": r["bounds"]}
                    if ck.stream(st)["cases"] < 2 else None, tag=tag)
            if model is not None:
                want = model[sl[0]: sl[0] + sl[1]]
                if want == got:
                    ck.corr_agree(st)
                else:
                    ck.corr_diverge(st, {"case": c.get("src") or c.get("tree"), "impl": got, "model": want})
            continue
        payload = {k: v for k, v in c.items() if not k.startswith("_")}
        tag = "error" if isinstance(r, str) and r.startswith("(err") else ("errv" if r == "errv" else "value")
        ck.case(st, json.dumps(payload, sort_keys=True), nontrivial_case(c),
                {"case": payload, "impl": r} if ck.stream(st)["cases"] < 2 else None, tag=tag)
        if isinstance(r, str) and r.startswith("(impl-driver-error"):
            ck.corr_diverge(st, {"case": payload, "impl": r})
            continue
        if model is not None:
            m = model[sl[0]]
            if m == r:
                ck.corr_agree(st)
            else:
                ck.corr_diverge(st, {"case": payload, "impl": r, "model": m})
    for st, s in sorted(ck.streams.items()):
        if not st.startswith("search:"):
            ck.log("stream %-18s cases %5d agree %5d diverge %3d  %s" % (st, s["cases"], s["agree"], s["diverge"],
                                                                        s["distribution"]))

    # ---- 3. failing-input search against the REAL implementation (oracle: integer arithmetic)
    for c, r in zip(cases, impl):
        k, st = c["kind"], c["_stream"]
        if st in ("analyze", "analyze_small"):
            search_analyze(ck, c, r)
        elif k in ("check", "checks"):
            search_check(ck, c, r)
        elif k == "envseq":
            search_envseq(ck, c, r)
        elif k == "orchain":
            search_join(ck, c, r)
        elif k == "peval":
            search_peval(ck, c, r)
        elif k == "fold":
            if r != c["expect"]:
                report(ck, "fold", c, {"call": "resize_dim(p, p.find('x: _'), 0, size, 0, fold=True)", "source": c["src"],
                                       "size": c["size"], "returned": r, "expected": c["expect"]},
                       "buffer folding is %s for a procedure whose accesses overlap after folding" % r)
            else:
                ck.stream("search:fold")["cases"] += 1
                ck.stream("search:fold")["agree"] += 1
        elif k == "user" and isinstance(r, dict) and "tree" in r and "infer" in r:
            search_user(ck, c, r)
    for st, s in sorted(ck.streams.items()):
        if st.startswith("search:"):
            ck.log("%-26s cases without a failing valuation: %d" % (st, s["cases"]))
    ck.cov["search_failing_inputs_by_class"] = dict(HITS)
    ck.cov["search_analyze_evaluations"] = EVALS[0]
    ck.log("search: failing inputs by class (known findings included): %s; analyze evaluations %d"
           % (dict(HITS), EVALS[0]))
    return evidence(ck, gen_ok, build_ok, ext_ok)


def has_shadow(tree):
    def walk(nodes, names):
        for nd in nodes:
            if nd[0] == "for":
                if nd[1] in names or walk(nd[5], names | {nd[1]}):
                    return True
        return False
    return walk(tree, set())


def nontrivial_case(c):
    k = c["kind"]
    if k == "analyze":
        return G.size_of(c["expr"]) >= 3
    return True


def evidence(ck, gen_ok, build_ok, ext_ok):
    ck.cov["rule"] = (
        "proof: Props_C13.v (Coq 8.16.1) about Gen_Range.v regenerated from range_analysis.py on this run; "
        "correspondence: every generated case is run through exo.rewrite.range_analysis / "
        "exo.stdlib.range_analysis and through the extracted model, outputs compared as canonical strings "
        "(base structurally, lo, hi, exception class); a case is non-trivial when its expression has >= 3 nodes "
        "(analyze) or always (other streams); distinct = distinct canonical JSON of the input; "
        "search: integer brute force over valuations inside the stated intervals (unbounded sides sampled "
        "up to +-50), loop nests executed concretely (<= 9 iterations per loop)")
    ck.cov["trusted_base"] = [
        "Coq 8.16.1 kernel (coqc, full .vo builds; vm_compute only in Examples and _refuted witnesses)",
        "translator/py2coq_range.py (fail-closed ast->Gallina; encodes Python's binary-operator protocol, "
        "flow-sensitive Optional narrowing, ZeroDivisionError guards, helper signature table)",
        "extraction: Require Extraction + ExtrOcamlBasic only; coq/Range/extract/driver.ml (s-expression "
        "reader/printer, int<->Z conversion); OCaml 4.13.1",
        "hand-modelled (ModelAnalysis.v, tied by sampled correspondence only): index_range_analysis, "
        "constant_bound, IndexRangeEnvironment (ChainMap scopes, add_loop_iter, check_expr_bound(s), fast-mode "
        "size ranges), get_stride_of, partial_eval_with_range, get_size, index_range_analysis_wrapper, "
        "merge_index_ranges, stdlib infer_range / constant_bound / bounds_inference; Model.v: iexpr, ieval, "
        "LoopIR_Compare.match_e",
        "translated (Gen_Range.v): zero, is_zero, binop, IndexRange.create_*, __add__ __radd__ __neg__ __sub__ "
        "__rsub__ __mul__ __rmul__ __floordiv__ __mod__ __or__, IndexRangeEnvironment._check_range, and the "
        "py_* operator dispatch derived from the set of dunder methods the class defines",
        "harness: harness/c13_gen.py (generators, integer oracle ev), harness/c13_impl.py (runs the real code), "
        "harness/props/C13.py",
    ]
    ck.assumptions = [
        "index values are unbounded integers (no machine-integer overflow)",
        "exo's / and % are floor division/modulo and only defined for a positive divisor (typecheck.py:506-521); "
        "the theorems carry the guard 0 < c explicitly, ieval has no value otherwise",
        "arg_range_analysis in slow mode (fast=False, used by the compiler) obtains ranges from an SMT query: "
        "treated as an oracle whose answer is assumed to contain the argument's value (C13_init_env)",
        "size arguments are >= 1 (exo's size type) for the fast-mode initialisation (1, None)",
        "only index-typed expressions built from Read/Const/USub/BinOp are modelled (StrideExpr, ReadConfig "
        "make the real analysis assert False)",
        "C13_join, C13_user_level_named and C13_bounds_inference_partial assume that equally named symbols have equal "
        "values (name_determined); without it they are refuted (open findings C13-join-name-only, "
        "C13-user-shadowed-name)",
        "C13_partial_eval assumes the IndexRange class invariant lin(base): a linear combination of variables without a "
        "constant term (get_coeff's docstring); C13_analysis_bases_linear proves the analysis establishes it for every "
        "expression without `/` (with `/` in the base get_stride_of raises and no range is returned)",
        "the hand-written model agrees with the Python only as far as sampled (see correspondence counts)",
    ]
