"""C09 — Parallel loops that compile are race-free.

  1. translators  translator/py2coq_partraverse.py (ParallelAnalysis.map_s + LoopIR_Rewrite dispatch) and
                  translator/py2coq_effpreds.py (getsets, Disjoint_Memory, Commutes, .., Check_ParallelizeLoop)
                  -> coq/Par/Gen_*.v ; full Coq build of coq/Par ; the two extracted drivers
                  (instrumented interpreter `parfp`, translated traversal `partrav`)
  2. correspondence (real compiler, observed by monkey-patching inside this process, vs. the model):
       visited    per ParallelAnalysis.run: the sequence of loops on which Check_ParallelizeLoop is invoked and
                  the outcome of run  ==  the TRANSLATED traversal (with the observed verdicts as oracle)
       coverage   when compilation succeeds: the analysis ran on EVERY procedure of the call tree (own walk) and
                  the check was invoked on EVERY par loop at every nesting position
       canonical  fixed programs whose verdict every version of the analysis must reproduce
       exactness  on the systematic and window-chain families (race-free by construction) the real verdict must be
                  `accept` for the race-free members (the racy ones are the search's business)
  3. search       every procedure the REAL compiler accepts is run by the extracted instrumented semantics
                  (Footprint.v, sequential order) on a bounded family of valid inputs; a race reported by
                  `races` is a violation (replay: source, input, conflicting pair).  Race-free runs are re-run with
                  the iterations of par loops reversed and rotated: a different result is a violation as well.
                  Rejected-but-race-free programs are counted (incompleteness is allowed by the property).
"""
from __future__ import annotations

import copy
import os
import sys
import time

import common
from common import COQ, sh

sys.path.insert(0, os.path.dirname(os.path.dirname(os.path.abspath(__file__))))

ENGINE = "Par"


# ============================================================================= build
def build(ck):
    d = COQ / ENGINE
    # the shared semantic core (read-only for this engine): only Syntax.vo and Sem.vo are needed here
    core = COQ / "Core"
    stale = [f for f in ("Syntax", "Sem")
             if not (core / (f + ".vo")).exists()
             or (core / (f + ".vo")).stat().st_mtime < (core / (f + ".v")).stat().st_mtime]
    if stale:
        rc, out = sh("coqc -Q . Core Syntax.v && coqc -Q . Core Sem.v", cwd=core, timeout=900)
        if rc != 0:
            ck.broken_obligation("coq-build:Core", out[-400:])
    before = {f: (d / f).read_text() if (d / f).exists() else None for f in ("Gen_ParTraverse.v", "Gen_EffPreds.v")}
    ck.gen(ENGINE)
    after = {f: (d / f).read_text() if (d / f).exists() else None for f in before}
    if before["Gen_ParTraverse.v"] != after["Gen_ParTraverse.v"] or after["Gen_ParTraverse.v"] is None:
        # never run a stale extraction of the traversal
        for f in ("ExtractTrav.vo", "_build/partrav.ml", "_build/partrav.mli", "_build/partrav"):
            try:
                (d / f).unlink()
            except OSError:
                pass
    (d / "_build").mkdir(exist_ok=True)
    for vo, ml in (("ExtractFp.vo", "_build/parfp.ml"), ("ExtractTrav.vo", "_build/partrav.ml")):
        if not (d / ml).exists() and (d / vo).exists():   # _build was wiped: force the extraction to run again
            (d / vo).unlink()
    built = ck.coq_build(ENGINE, timeout=1500)
    # Props_C01preds.v belongs to C01 but depends on the same translation: report its state here too
    if not (d / "Props_C01preds.vo").exists():
        ck.broken_obligation("Props_C01preds (C01_predicates_commutes)", "does not compile against the current "
                             "translation of Commutes/getsets")
    ck.extract(ENGINE)
    have_fp = (d / "_build" / "parfp").exists()
    have_trav = (d / "_build" / "partrav").exists()
    return built, have_fp, have_trav


# ============================================================================= one module
class Runner:
    def __init__(self, ck, have_fp, have_trav):
        import export
        import c09_impl as I
        self.ck, self.I, self.export = ck, I, export
        self.fp = I.ParFp() if have_fp else None
        self.trav = I.ParTrav() if have_trav else None
        self.stats = {"modules": 0, "frontend_rejected": 0, "accepted": 0, "rejected_par": 0, "other_error": 0,
                      "accepted_with_par": 0, "par_loops_checked": 0, "par_loops_alloc_free": 0, "positions": {}, "inputs_run": 0,
                      "inputs_valid": 0, "inputs_invalid": 0, "inputs_fail": 0, "nontrivial_runs": 0,
                      "races_in_accepted": 0, "order_mismatch": 0, "order_runs": 0,
                      "rejected_racy": 0, "rejected_race_free": 0, "rejected_no_nontrivial_input": 0,
                      "rejected_race_free_samples": [], "unsupported": 0, "other_error_kinds": {}, "interp_timeouts": 0}

    def close(self):
        for d in (self.fp, self.trav):
            if d:
                d.close()

    # ------------------------------------------------------------------ inputs
    def inputs(self, ir, cfg_types, n_random):
        export, rng = self.export, self.ck.rng
        out = []
        for k in (1, 2, 3, 4):
            dsc = export.InputGen(rng, size_range=(k, k), index_range=(-1, 4)).gen(ir, cfg_types)
            if dsc:
                out.append(dsc)
        g = export.InputGen(rng, size_range=(1, 4), index_range=(-1, 4))
        for _ in range(n_random):
            dsc = g.gen(ir, cfg_types)
            if dsc:
                out.append(dsc)
        # both values of every bool argument / bool config field
        extra = []
        for dsc in out[:4]:
            flip = copy.deepcopy(dsc)
            ch = False
            for a in flip["args"]:
                if a["kind"] == "val" and a["v"][0] == "b":
                    a["v"] = ("b", not a["v"][1])
                    ch = True
            for k, v in list(flip["cfg"].items()):
                if v[0] == "b":
                    flip["cfg"][k] = ("b", not v[1])
                    ch = True
            if ch:
                extra.append(flip)
        return out + extra

    # ------------------------------------------------------------------ the whole treatment of one module
    def module(self, src, main, stream, tag, expect=None, race_free_by_construction=None, n_random=3):
        ck, I, export, st = self.ck, self.I, self.export, self.stats
        st["modules"] += 1
        p, err = I.load(src, main)
        if p is None:
            st["frontend_rejected"] += 1
            ck.case("frontend", (stream, tag), nontrivial=False, tag="rejected:" + (err or "")[:40])
            if expect is not None:
                ck.corr_diverge("canonical", {"tag": tag, "expected": expect, "got": "front end rejects: " + (err or "")})
            return None
        ir = p._loopir_proc
        r = I.compile_observed(p)
        outcome = r["outcome"]
        tree = I.call_tree(ir)
        tree = [q for q in tree if q.instr is None]
        ex = export.Exporter()
        try:
            names = {}
            ex.proc_ref(ir)
            for q in tree:
                names[id(q)] = ex.proc_ref(q)
        except export.Unsupported as e:
            st["unsupported"] += 1
            ck.case(stream, (tag, "unsupported"), nontrivial=False, tag="unsupported")
            return None
        loops = {id(q): I.par_loops(q) for q in tree}
        npar = sum(len(v) for v in loops.values())
        if outcome == "accept":
            st["accepted"] += 1
            st["accepted_with_par"] += 1 if npar else 0
        elif outcome == "reject-par":
            st["rejected_par"] += 1
        else:
            st["other_error"] += 1
            k = outcome + ":" + r["msg"][:50]
            st["other_error_kinds"][k] = st["other_error_kinds"].get(k, 0) + 1
        sample = {"tag": tag, "outcome": outcome, "par_loops": npar, "source": src if len(src) < 1500 else src[:1500]}
        ck.case(stream, (tag, src), nontrivial=npar > 0, sample=sample, tag=outcome)

        # ---- (b1) visited: every ParallelAnalysis.run the compiler performed vs the translated traversal
        if self.trav is not None:
            self.trav.reset()
            self.trav.define(ex)
            for (q, how) in r["runs"]:
                if id(q) not in names:
                    ck.corr_diverge("visited", {"tag": tag, "what": "analysis ran on a procedure outside the call tree",
                                                "proc": q.name})
                    continue
                calls = [(ex.syms.get(s.iter), ok) for (pp, s, ok) in r["calls"] if pp is q]
                observed = [c for c, _ in calls]
                failing = [c for c, ok in calls if not ok]
                m_accept, m_visited = self.trav.parun(names[id(q)], failing)
                real_accept = how == "returned"
                ck.case("visited", (tag, q.name, tuple(observed), real_accept), nontrivial=bool(observed),
                        tag="%d-loops" % min(len(observed), 3))
                if m_visited == observed and m_accept == real_accept:
                    ck.corr_agree("visited")
                else:
                    ck.corr_diverge("visited", {"tag": tag, "proc": q.name, "real_checked": observed,
                                                "model_visited": m_visited, "real_run": how,
                                                "model_accept": m_accept, "source": src})
        # ---- (b2) coverage: accepted => analysis ran on every procedure and checked every par loop
        if outcome == "accept":
            ran = {id(q) for (q, _) in r["runs"]}
            checked = {id(s) for (_, s, _) in r["calls"]}
            missing_procs = [q.name for q in tree if id(q) not in ran]
            missing_loops = []
            for q in tree:
                for (s, depth, ctx) in loops[id(q)]:
                    pos = ("sub:" if q is not ir else "") + ("/".join(ctx) or "top")
                    st["positions"][pos] = st["positions"].get(pos, 0) + 1
                    if id(s) in checked:
                        st["par_loops_checked"] += 1
                        st["par_loops_alloc_free"] += 1 if I.alloc_free(s.body) else 0
                    else:
                        missing_loops.append({"proc": q.name, "loop": str(s.iter), "position": pos})
            ck.case("coverage", (tag, src), nontrivial=npar > 0, tag="sub" if len(tree) > 1 else "single")
            if missing_procs or missing_loops:
                ck.corr_diverge("coverage", {"tag": tag, "unanalysed_procedures": missing_procs,
                                             "unchecked_par_loops": missing_loops, "source": src})
            else:
                ck.corr_agree("coverage")
        # ---- canonical verdicts
        if expect is not None:
            got = "accept" if outcome == "accept" else "reject" if outcome == "reject-par" else outcome
            ck.case("canonical", tag, tag=expect)
            if got == expect:
                ck.corr_agree("canonical")
            else:
                ck.corr_diverge("canonical", {"tag": tag, "expected": expect, "got": got, "msg": r["msg"],
                                              "source": src})
        # ---- (c) search with the instrumented semantics
        if self.fp is None or npar == 0 or outcome.startswith("error"):
            return outcome
        self.fp.reset()
        self.fp.define(ex)
        name = names[id(ir)]
        cfg_types = dict(ex.cfg_types)
        found_race, nontriv_runs = None, 0
        for dsc in self.inputs(ir, cfg_types, n_random):
            inp = export.render_input(dsc)
            try:
                o = self.fp.fp(name, inp, "seq")
            except TimeoutError:
                st["interp_timeouts"] += 1   # job dumped under .scratch/c09/; the driver was restarted
                self.fp.reset()
                self.fp.define(ex)
                continue
            st["inputs_run"] += 1
            if o[0] != "done":
                st["inputs_invalid" if o[0] == "invalid" else "inputs_fail"] += 1
                continue
            st["inputs_valid"] += 1
            race, nontriv = o[3], o[5]
            if nontriv:
                nontriv_runs += 1
                st["nontrivial_runs"] += 1
            if race is not None:
                found_race = found_race or (race, inp)
                if outcome == "accept":
                    st["races_in_accepted"] += 1
                    self.report_race(src, main, tag, inp, race, ex)
                    break
                continue
            if outcome == "accept" and nontriv:
                # every execution order gives the sequential result
                for order in ("rev", "rot"):
                    try:
                        o2 = self.fp.fp(name, inp, order)
                    except TimeoutError:
                        st["interp_timeouts"] += 1
                        self.fp.reset()
                        self.fp.define(ex)
                        continue
                    st["order_runs"] += 1
                    if o2[0] != "done" or o2[1] != o[1] or o2[2] != o[2]:
                        st["order_mismatch"] += 1
                        ck.violation("order:%s:%s" % (order, tag.split(":")[0]),
                                     {"source": src, "main": main, "input": inp, "order": order,
                                      "sequential": repr(o[:3]), "permuted": repr(o2[:3]),
                                      "how": "coq/Par/_build/parfp: (def ..) then (fp NAME INPUT seq|%s)" % order},
                                     "accepted procedure, race-free by the checker, yet executing the iterations "
                                     "of its par loops in order `%s` changes the result" % order)
        if outcome == "reject-par":
            if found_race:
                st["rejected_racy"] += 1
            elif nontriv_runs:
                st["rejected_race_free"] += 1
                if len(st["rejected_race_free_samples"]) < 6:
                    st["rejected_race_free_samples"].append(src[-700:])
                if race_free_by_construction:
                    ck.case("exactness", tag, tag="race-free-rejected")
                    ck.corr_diverge("exactness", {"tag": tag, "what": "a loop that is race-free by construction "
                                                  "(equal shifts) is rejected by the real analysis", "source": src})
            else:
                st["rejected_no_nontrivial_input"] += 1
        elif outcome == "accept" and race_free_by_construction is not None:
            ck.case("exactness", tag, tag="race-free-accepted" if race_free_by_construction else "racy-accepted")
            if race_free_by_construction:
                ck.corr_agree("exactness")
        return outcome

    def report_race(self, src, main, tag, inp, race, ex):
        kind = race[0]
        if kind == "iters":
            _, itersym, depth, sub, i, j, e1, e2 = race
            key = "race:%s%s:d%s:%s" % (e1[0], e2[0], depth, "sub" if sub == "true" else "main")
            pair = {"iterations": [i, j], "events": [e1, e2]}
        else:
            _, itersym, depth, sub, i, eb, e = race
            key = "race:bound%s:d%s:%s" % (e[0], depth, "sub" if sub == "true" else "main")
            pair = {"iteration": i, "bound_event": eb, "event": e}
        loopvar = [str(s) for s, n in ex.syms.items() if str(n) == str(itersym)]
        self.ck.violation(key, {"source": src, "main": main, "generator_tag": tag, "input": inp,
                                "loop_variable": loopvar[0] if loopvar else itersym, "loop_depth": depth,
                                "in_subprocedure": sub, "conflict": pair,
                                "how": "the real compiler accepts `%s` (c_code_str emits #pragma omp parallel for); "
                                       "coq/Par/_build/parfp (extracted Footprint.run_fp/races) on the exported "
                                       "procedure and this input reports the conflicting pair" % main},
                          "accepted procedure with a parallel loop whose iterations %s conflict on %s"
                          % (pair.get("iterations", pair.get("iteration")), (e1 if kind == "iters" else e)[1]))


# ============================================================================= run
def run(ck):
    t0 = time.time()
    built, have_fp, have_trav = build(ck)
    ck.log("build: coq=%s parfp=%s partrav=%s (%.0fs)" % (built, have_fp, have_trav, time.time() - t0))
    if not have_trav:
        ck.broken_obligation("correspondence:visited", "the translated traversal could not be built/extracted")

    import c09_gen as G
    import progen

    R = Runner(ck, have_fp, have_trav)
    budget = (150 if not ck.thorough else 16 * 60) - (time.time() - t0)
    deadline = time.time() + max(budget, 60)
    try:
        # -- canonical verdicts
        for verdict, name, src, main in G.canonical("c"):
            R.module(src, main, "canonical-src", "canonical:" + name, expect=verdict, n_random=2)
        # -- chains of 2-3 window statements BEFORE the par loop, same cells reached through the innermost window
        #    and through the root / an intermediate window / a second chain (all in thorough, every other one,
        #    rotating with the seed, in quick)
        wch = list(G.winchains("w"))
        if not ck.thorough:
            off = ck.rng.randrange(2)
            wch = [x for k, x in enumerate(wch) if k % 2 == off or x[0].startswith("twochains")]
        for (tag, rf, src, main) in wch:
            if time.time() > deadline:
                break
            R.module(src, main, "winchain", "wch:" + tag, race_free_by_construction=rf, n_random=1)
        # -- systematic family: all of it in thorough, a rotating third in quick
        sysl = list(G.systematic("s"))
        if not ck.thorough:
            off = ck.rng.randrange(3)
            pick = [x for k, x in enumerate(sysl) if k % 3 == off]
            # make sure every position appears with a racy and a race-free member
            seen = {(x[1], x[2]) for x in pick}
            for x in sysl:
                if (x[1], x[2]) not in seen:
                    pick.append(x)
                    seen.add((x[1], x[2]))
            sysl = pick
        for (tag, pos, rf, src, main) in sysl:
            if time.time() > deadline:
                break
            R.module(src, main, "systematic", "sys:" + tag, race_free_by_construction=rf, n_random=1)
        # -- random modules
        n_rand = ck.n(260, 5000)
        n_prog = ck.n(50, 800)
        k = 0
        while k < n_rand and time.time() < deadline:
            k += 1
            g = G.ParGen(ck.rng, "r%d" % k)
            R.module(g.module("foo"), "foo", "random", "rand:%d" % k, n_random=ck.n(3, 6))
        j = 0
        while j < n_prog and time.time() < deadline:
            j += 1
            pg = progen.ProgGen(ck.rng, "q%d" % j, features={"par": 0.5, "calls": 0.5})
            R.module(pg.module("foo"), "foo", "progen", "progen:%d" % j, n_random=ck.n(3, 6))
        ck.log("modules: systematic %d, random %d, progen %d" % (len(sysl), k, j))
    finally:
        R.close()
    st = R.stats
    ck.log("stats: %s" % {k: v for k, v in st.items() if k not in ("rejected_race_free_samples", "positions",
                                                                 "other_error_kinds")})
    ck.log("positions of checked par loops in accepted procedures: %s" % st["positions"])
    # a collapsed population is a harness failure, not a pass
    if st["accepted_with_par"] < (10 if not ck.thorough else 100):
        ck.broken_obligation("search-population", "only %d accepted procedures with par loops were generated"
                             % st["accepted_with_par"])
    if have_fp and st["nontrivial_runs"] < (30 if not ck.thorough else 300):
        ck.broken_obligation("search-population", "only %d executions with a par loop of >= 2 iterations"
                             % st["nontrivial_runs"])

    ck.cov["c09_statistics"] = st
    ck.cov["rule"] = ("proof: the theorems of coq/Par/Props_C09*.v (instrumented semantics, footprint soundness, permutation semantics; "
                      "translated traversal; translated predicate algebra); "
                      "correspondence: observed Check_ParallelizeLoop invocations / ParallelAnalysis.run outcomes == "
                      "translated traversal, coverage of every procedure of the call tree and every par loop when "
                      "compilation succeeds, canonical verdicts, exactness on the systematic family; search: every "
                      "accepted procedure run by the extracted instrumented semantics on inputs with sizes 1..4, index "
                      "arguments -1..4, both bool values, config values 0..2 — no race, and reversed/rotated iteration "
                      "orders give the sequential result")
    ck.cov["trusted_base"] = [
        "Coq 8.16.1 kernel; no axioms (every theorem of Props_C09.v and Props_C01preds.v: Closed under the global "
        "context)",
        "coq/Core (shared LoopIR syntax and reference semantics) and harness/export.py (LoopIR -> s-expression)",
        "translator/py2coq_partraverse.py and translator/py2coq_effpreds.py (fail-closed Python-ast -> Gallina)",
        "extraction (ExtrOcamlBasic only) + coq/Par/driver.ml (s-expression reader copied from coq/Core/driver.ml)",
        "oracle trusted by exo and by the property's premise: effect extraction, location-set lowering and z3 inside "
        "Check_ParallelizeLoop (its VERDICTS are what the search tests against the instrumented semantics)",
        "monkey-patched observation of exo.backend.parallel_analysis.{Check_ParallelizeLoop, ParallelAnalysis.run}",
    ]
    ck.assumptions += [
        "C09_perm_core (no hypothesis left about the iterations) covers parallel loops whose body, callees included, "
        "does not allocate.  For bodies that allocate, the fresh block names depend on the execution order, so the "
        "result is the same only up to renaming of blocks allocated inside the loop; that case rests on the abstract "
        "C09_perm with the hypothesis ParSem.respects, validated by execution: %d re-runs of race-free accepted "
        "procedures with reversed/rotated iteration order, %d mismatches; %d of the %d par loops of accepted "
        "procedures have allocation-free bodies" % (st["order_runs"], st["order_mismatch"],
                                                     st["par_loops_alloc_free"], st["par_loops_checked"]),
        "iterations are atomic in the parallel semantics (any PERMUTATION of whole iterations); finer interleavings "
        "are not modelled",
        "the loop bounds are evaluated once (Core.Sem); `races` additionally reports an iteration that modifies a "
        "cell read by the bounds (C's re-evaluation); loops whose bounds read a configuration field do not compile "
        "at all on the current tree (range analysis asserts)",
        "the six basic sets of getsets (get_basic_locsets) are taken as the exact footprint; how they are extracted "
        "from statements is the analysis' oracle part",
        "the OpenMP runtime and the C compiler are outside the model",
    ]
