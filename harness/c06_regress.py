"""C06: fixed reproducers that run first on every tier.

* F2, F5, F1-assert, F3 were repaired in /repo (fix: commits); their reproducers must PASS — a failure is
  reported with the key ``api:regress:<id>``.
* F1-hull and F4 are open findings; their reproducers go through the ordinary identity oracle, so that they are
  reported under the same keys as the search reports them (``api:block:AssertionError:reorder_stmts`` ...).
"""
from __future__ import annotations

import c06_api as A
import c06_impl as I
import common
from exo.core import internal_cursors as ic
from exo.core.LoopIR import LoopIR
import exo.API_scheduling as S

SRC_SEQ = """@proc
def c06_seq(n: size, x: f32[8]):
    x[0] = 0.0
    x[1] = 1.0
    x[2] = 2.0
    x[3] = 3.0
"""

SRC_LOOP = """@proc
def c06_loop(n: size, x: f32[8]):
    for i in seq(0, 8):
        x[0] = 0.0
        x[1] = 1.0
        x[2] = 2.0
    pass
    x[3] = 3.0
"""

SRC_GUARD = """@proc
def c06_guard(n: size, x: f32[8]):
    for i in seq(0, 4):
        if i < 3:
            x[i] = 1.0
"""

SRC_ATTR = """@proc
def c06_attr(n: size, m: size, x: f32[8]):
    if n > 2:
        pass
    else:
        if m > 1:
            for i in seq(0, 4):
                x[i] = 1.0
"""


def run(ck, stats):
    def fail(rid, src, prims, what):
        ck.violation("api:regress:" + rid, {"source": src, "primitives": prims}, what)

    # ---- F1 (open): reorder_stmts, block cursors on the reordered list
    p = A.make_proc(SRC_SEQ)
    p2, events, err = A.apply_candidate(lambda: S.reorder_stmts(p, p.body()[0:2]))
    ck.case("api:regress", "F1", tag="F1-hull-open+assert-fixed", sample={"source": SRC_SEQ, "primitive": "reorder_stmts(body[0:2])"})
    A.check_forward(ck, p, p2, "reorder_stmts", {"source": SRC_SEQ, "primitives": ["reorder_stmts @ body[0:2]"]},
                    stats, events=events)

    # F1-assert (fixed): the block whose end points end up out of order must be reported invalid
    try:
        p2.forward(p.body()[0:2])
    except ic.InvalidCursorError:
        pass
    except Exception as ex:
        fail("F1-move-block-assert", SRC_SEQ, ["reorder_stmts body[0:2]; forward(body[0:2])"],
             "forward raised %s instead of InvalidCursorError" % type(ex).__name__)

    # ---- F3 (fixed): an exactly deleted block must be reported invalid
    p = A.make_proc(SRC_LOOP)
    p2, events, err = A.apply_candidate(lambda: S.delete_pass(p))
    ck.case("api:regress", "F3", tag="F3-fixed", sample={"source": SRC_LOOP, "primitive": "delete_pass"})
    A.check_forward(ck, p, p2, "delete_pass", {"source": SRC_LOOP, "primitives": ["delete_pass"]}, stats, events=events)
    try:
        p2.forward(p.body()[1:2])
        fail("F3-deleted-block-empty", SRC_LOOP, ["delete_pass; forward(body[1:2])"],
             "a cursor was returned for a block whose only statement was deleted")
    except ic.InvalidCursorError:
        pass
    except Exception as ex:
        fail("F3-deleted-block-empty", SRC_LOOP, ["delete_pass; forward(body[1:2])"],
             "forward raised %s instead of InvalidCursorError" % type(ex).__name__)

    # ---- F2 (fixed): block cursor inside a wrapped body that does not start at the body's start
    p = A.make_proc(SRC_LOOP)
    loop = p.find_loop("i")
    body = loop.body()
    p2 = S.divide_loop(p, loop, 4, ["io", "ii"], perfect=True)
    ck.case("api:regress", "F2", tag="F2-fixed", sample={"source": SRC_LOOP, "primitive": "divide_loop(i,4,perfect)"})
    for lo in range(3):
        for hi in range(lo + 1, 4):
            try:
                f = p2.forward(body[lo:hi])
                got = [c._impl._node for c in f]
                want = [c._impl._node for c in body[lo:hi]]
                if len(got) != len(want) or any(g is not w for g, w in zip(got, want)):
                    fail("F2-wrap-block-anchor", SRC_LOOP, ["divide_loop i 4 perfect; body[%d:%d]" % (lo, hi)],
                         "forwarded block denotes other statements")
            except Exception as ex:
                fail("F2-wrap-block-anchor", SRC_LOOP, ["divide_loop i 4 perfect; body[%d:%d]" % (lo, hi)],
                     "forward raised %s" % type(ex).__name__)

    # ---- F4 (open): add_loop with a guard wraps TWO levels with one Block._wrap
    p = A.make_proc(SRC_GUARD)
    s = p.body()[0]
    p2, events, err = A.apply_candidate(lambda: S.add_loop(p, s, "al", 2, guard=True))
    ck.case("api:regress", "F4", tag="F4-open", sample={"source": SRC_GUARD, "primitive": "add_loop(guard=True)"})
    rp = {"source": SRC_GUARD, "primitives": ["add_loop @ body[0] al 2 guard=True"]}
    A.check_forward(ck, p, p2, "add_loop:guard", rp, stats, events=events)
    A.replay_in_model(ck, p, p2, events, "add_loop:guard", rp, stats, stream="api:regress-replay")

    # ---- F5 (fixed): a block moved from a body list into an orelse list takes the new attribute
    p = A.make_proc(SRC_ATTR)
    outer = p.body()[0].orelse()[0]
    loop = outer.body()[0]
    blk = outer.body()
    p2 = S.lift_scope(p, loop)
    ck.case("api:regress", "F5", tag="F5-fixed", sample={"source": SRC_ATTR, "primitive": "lift_scope(for i)"})
    try:
        f = p2.forward(blk)
        nodes = [c._impl._node for c in f]
        if len(nodes) != 1 or not isinstance(nodes[0], LoopIR.For) or f._impl._attr != "orelse":
            fail("F5-move-block-attr", SRC_ATTR, ["lift_scope for i; outer.body()"],
                 "forwarded block is %r" % (I.canon_cursor(f._impl),))
    except Exception as ex:
        fail("F5-move-block-attr", SRC_ATTR, ["lift_scope for i; outer.body()"], "forward raised %s" % type(ex).__name__)
    st = ck.stream("api:regress")
    st["agree"] = st["cases"]
