"""C07 runtime purity monitor (runs in a subprocess with common.exo_env()).

usage: c07_monitor.py <seed> <n_sessions> <n_sweeps> <time_cap_s> <out.jsonl> [<worker-tag>]

One *session* = one generated Exo module (harness/progen.py, through the real @proc front end) followed by a chain
of 3..8 calls chosen among every scheduling primitive harness/sched.py can apply to any procedure created so far in
the session (not only the newest), plus queries (str, find, find_all, c_code_str, cursor navigation, forward).
Operations that raise are caught and the session continues.

Before the first call and after EVERY call a deep fingerprint of ALL procedures, sub-procedures and cursors
created so far is taken and compared with the fingerprint recorded when the object was first seen:

  for every LoopIR node reachable from a procedure (through fields, lists, types, Call.f sub-procedures):
      id, class, every field value (child id / list id / atom repr+id)
  for every list object: id and element ids           (an in-place edit is seen even if the text is unchanged)
  str(p); the identity of Procedure._loopir_proc / _provenance_eq_Procedure / _forward
  for every cursor: class, id of its procedure, id of impl, id(root), path/anchor/range contents and list id,
      and the ids of the node(s) it denotes (resolved by walking from the root, not through the cached property)

Any difference is reported as a violation record with key  purity:<opname>:<what changed>  and the session
(source text + op descriptions) as replay.  At the end of a session str(p) / c_code_str() of every procedure is
recomputed and compared with the first answer (module-level caches of new_eff must not change answers), and the
first accepted and first refused operation are replayed on their (unchanged) procedure: the outcome class must be
the same.
"""
from __future__ import annotations

import json
import os
import random
import re
import sys
import time
import traceback

sys.setrecursionlimit(20000)
sys.path.insert(0, os.path.dirname(os.path.abspath(__file__)))

import progen  # noqa: E402
import sched  # noqa: E402
import c07_templates as TT  # noqa: E402
import c07_ops  # noqa: E402
import attrs  # noqa: E402
import exo.API_cursors as PC  # noqa: E402
from exo.API import Procedure  # noqa: E402
from exo.core import internal_cursors as IC  # noqa: E402
from exo.core.LoopIR import LoopIR  # noqa: E402
from exo.core.configs import Config  # noqa: E402


# ------------------------------------------------------------------------------------------- fingerprints
def is_node(x):
    return attrs.has(type(x))


def atom_fp(x):
    """fingerprint of a leaf value (Sym, str, int, Config, SrcInfo, Memory class, Extern ...)"""
    t = type(x).__name__
    if x is None or isinstance(x, (bool, int, float, str)):
        return (t, repr(x))
    if isinstance(x, type):
        return ("class", x.__name__, id(x))
    try:
        r = repr(x)
    except Exception:  # pragma: no cover
        r = "?"
    return (t, id(x), r[:120])


def proc_fp(root):
    """list of records (path, kind, id, payload) for everything reachable from a LoopIR.proc"""
    out = []
    seen = set()

    def visit(x, path):
        if isinstance(x, list):
            out.append((path, "list", id(x), tuple(id(e) for e in x)))
            if id(x) in seen:
                return
            seen.add(id(x))
            for i, e in enumerate(x):
                if is_node(e) or isinstance(e, list):
                    visit(e, "%s[%d]" % (path, i))
                else:
                    out.append(("%s[%d]" % (path, i), "atom", 0, atom_fp(e)))
            return
        if is_node(x):
            cls = type(x).__name__
            fields = []
            kids = []
            for a in attrs.fields(type(x)):
                v = getattr(x, a.name)
                if isinstance(v, list):
                    fields.append((a.name, "list", id(v)))
                    kids.append((a.name, v))
                elif is_node(v):
                    fields.append((a.name, "node", id(v)))
                    kids.append((a.name, v))
                else:
                    fields.append((a.name, "atom", atom_fp(v)))
            out.append((path, "node:" + cls, id(x), tuple(fields)))
            if id(x) in seen:
                return
            seen.add(id(x))
            for nm, v in kids:
                if nm == "srcinfo":
                    continue
                visit(v, "%s.%s" % (path, nm) if path else nm)
            return
        out.append((path, "atom", 0, atom_fp(x)))

    visit(root, "")
    return out


def resolve(root, path):
    n = root
    for attr, idx in path:
        n = getattr(n, attr)
        if idx is not None:
            n = n[idx]
    return n


def impl_fp(im):
    """fingerprint of an internal cursor (Node / Block / Gap) without touching cached properties"""
    if im is None:
        return ("none",)
    if isinstance(im, IC.Node):
        try:
            den = id(resolve(im._root, im._path))
        except Exception as e:  # the cursor was already dangling when created
            den = "unresolvable:" + type(e).__name__
        return ("Node", id(im), id(im._root), id(im._path), tuple(im._path), den)
    if isinstance(im, IC.Block):
        a = im._anchor
        try:
            lst = getattr(resolve(a._root, a._path), im._attr)
            den = (id(lst), tuple(id(e) for e in lst[im._range.start: im._range.stop]))
        except Exception as e:
            den = "unresolvable:" + type(e).__name__
        return ("Block", id(im), id(im._root), impl_fp(a), im._attr, (im._range.start, im._range.stop, im._range.step), den)
    if isinstance(im, IC.Gap):
        return ("Gap", id(im), id(im._root), impl_fp(im._anchor), str(im._type))
    return ("other", id(im), repr(im)[:80])


def cursor_fp(c):
    if isinstance(c, PC.InvalidCursor):
        return ("InvalidCursor", id(c))
    return (type(c).__name__, id(c), id(getattr(c, "_proc", None)), impl_fp(c._impl))


def first_diff(old, new):
    """human readable description + short 'what' tag of the first difference of two proc fingerprints"""
    for i, (a, b) in enumerate(zip(old, new)):
        if a != b:
            path, kind, ident, payload = a
            path2, kind2, ident2, payload2 = b
            parent_cls = ""
            # find the node record owning this list/field for a stable tag
            for j in range(i, -1, -1):
                if old[j][1].startswith("node:") and (path.startswith(old[j][0]) or not old[j][0]):
                    parent_cls = old[j][1][5:]
                    break
            last = re.sub(r"\[\d+\]", "", path.split(".")[-1]) if path else "<root>"
            if kind != kind2 or path != path2:
                return "%s.%s:structure" % (parent_cls, last), "record %d: %r -> %r" % (i, a[:3], b[:3])
            if kind == "list":
                if ident != ident2:
                    return "%s.%s:list-identity" % (parent_cls, last), "list at %s replaced: id %x -> %x" % (path, ident, ident2)
                return "%s.%s:list-contents" % (parent_cls, last), "list at %s edited in place: %d -> %d elements, ids %r -> %r" % (
                    path, len(payload), len(payload2), payload[:6], payload2[:6])
            if kind.startswith("node:"):
                if ident != ident2:
                    return "%s:node-identity" % kind[5:], "node at %s replaced" % (path or "<root>")
                ch = [f[0] for f, g in zip(payload, payload2) if f != g]
                return "%s.%s:field" % (kind[5:], ",".join(ch)), "node at %s: fields %s changed: %r -> %r" % (
                    path or "<root>", ch, [f for f, g in zip(payload, payload2) if f != g][:3],
                    [g for f, g in zip(payload, payload2) if f != g][:3])
            return "%s.%s:atom" % (parent_cls, last), "atom at %s: %r -> %r" % (path, payload, payload2)
    if len(old) != len(new):
        return "tree:size", "reachable objects %d -> %d" % (len(old), len(new))
    return "unknown", ""


# ------------------------------------------------------------------------------------------- caller-owned arguments
# Every public scheduling primitive is an exo.API_scheduling.AtomicSchedulingOp.  Its __call__ is wrapped (inside this
# process only): the containers the caller passes (lists / dicts / sets, one level deep) are snapshotted before the
# call and compared after it, whether it returned or raised.
ARG_MUTATIONS = []


def _snap(x):
    if isinstance(x, list):
        return ("list", tuple(id(e) for e in x), tuple(_snap(e) for e in x if isinstance(e, (list, dict, set))))
    if isinstance(x, dict):
        return ("dict", tuple((id(k), id(v)) for k, v in x.items()))
    if isinstance(x, set):
        return ("set", tuple(sorted(id(e) for e in x)))
    return None


def install_argument_watch():
    import exo.API_scheduling as AS

    orig = AS.AtomicSchedulingOp.__call__
    if getattr(orig, "_c07_watch", False):
        return

    def watched(self, *args, **kwargs):
        owned = [a for a in list(args) + list(kwargs.values()) if isinstance(a, (list, dict, set))]
        before = [_snap(a) for a in owned]
        try:
            return orig(self, *args, **kwargs)
        finally:
            for a, b in zip(owned, before):
                if _snap(a) != b:
                    ARG_MUTATIONS.append(getattr(self, "__name__", None) or getattr(self.func, "__name__", "?"))

    watched._c07_watch = True
    AS.AtomicSchedulingOp.__call__ = watched


# ------------------------------------------------------------------------------------------- session
GEN_NAME = re.compile(r"\b(bnd|io|ii|ij|al|sub_x|subx|stg|renamed|lb|o|i)_x?\d+")


def norm_names(s):
    return GEN_NAME.sub(lambda m: m.group(1) + "_N", s)


class Live:
    """a procedure or cursor being watched"""

    def __init__(self, kind, obj, origin):
        self.kind, self.obj, self.origin = kind, obj, origin
        if kind == "proc":
            self.fp = proc_fp(obj._loopir_proc)
            self.shell = (id(obj._loopir_proc), id(obj._provenance_eq_Procedure), id(obj._forward))
            self.text = safe_str(obj)
            self.ccode = None  # filled lazily (first answer)
        else:
            self.fp = cursor_fp(obj)


def c_code_of(p):
    try:
        return ("ok", p.c_code_str())
    except Exception as e:
        return ("exc", type(e).__name__, str(e)[:300])


class Session:
    def __init__(self, rng, uid, emit, stats, deadline=None):
        self.rng, self.uid, self.emit, self.stats = rng, uid, emit, stats
        self.deadline = deadline or (time.time() + 3600)
        self.live: list[Live] = []
        self.ops: list[dict] = []
        self.src = ""
        self.configs = []
        self.nviol = 0

    # -- registration
    def add_proc(self, p, origin):
        if any(l.kind == "proc" and l.obj is p for l in self.live):
            return
        self.live.append(Live("proc", p, origin))
        # sub-procedures reachable through calls are procedures of their own right
        # (they are covered by the deep fingerprint of the caller: Call.f is followed)

    def add_cursors(self, p, origin, k=8):
        try:
            st = sched.Sites(p)
        except Exception:
            return
        pool = st.stmts + st.gaps + st.blocks + st.exprs
        try:
            pool += list(p.args())
        except Exception:
            pass
        self.rng.shuffle(pool)
        for c in pool[:k]:
            self.live.append(Live("cursor", c, origin))

    def procs(self):
        return [l for l in self.live if l.kind == "proc"]

    def cursors(self):
        return [l for l in self.live if l.kind == "cursor"]

    # -- the check after every call
    def check_all(self, opname, step):
        while ARG_MUTATIONS:
            prim = ARG_MUTATIONS.pop()
            self.violation(prim.replace("_", "_"), "argument-list", "a container passed by the caller (list / dict / set argument) "
                           "was edited in place by the primitive %s (during %s)" % (prim, opname), step)
        for n, l in enumerate(self.live):
            try:
                if l.kind == "proc":
                    p = l.obj
                    shell = (id(p._loopir_proc), id(p._provenance_eq_Procedure), id(p._forward))
                    if shell != l.shell:
                        self.violation(opname, "Procedure:attribute", "Procedure object %d (%s): _loopir_proc/_provenance/_forward "
                                       "rebound" % (n, l.origin), step)
                        l.shell = shell
                    fp = proc_fp(p._loopir_proc)
                    if fp != l.fp:
                        what, detail = first_diff(l.fp, fp)
                        after = safe_str(p)
                        self.violation(opname, what, "procedure #%d (%s): %s" % (n, l.origin, detail), step,
                                       extra={"before": l.text, "after": after})
                        l.fp = fp  # report each change once
                        l.text = after
                        l.ccode = None
                    else:
                        txt = safe_str(p)
                        if txt != l.text:
                            self.violation(opname, "str", "procedure #%d (%s): str() changed although the tree is unchanged"
                                           % (n, l.origin), step, extra={"before": l.text, "after": txt})
                            l.text = txt
                else:
                    fp = cursor_fp(l.obj)
                    if fp != l.fp:
                        self.violation(opname, "cursor:" + fp[0], "cursor #%d (%s): %r -> %r" % (n, l.origin, l.fp, fp), step)
                        l.fp = fp
            except Exception as e:  # a fingerprint that cannot be taken any more is a change as well
                self.violation(opname, "fingerprint-crash:" + type(e).__name__, "object #%d (%s): %s" % (n, l.origin, e), step)
        self.stats["fingerprint_rounds"] += 1
        self.stats["objects_fingerprinted"] += len(self.live)

    def violation(self, opname, what, detail, step, extra=None):
        self.nviol += 1
        rec = {"t": "violation", "key": "purity:%s:%s" % (opname, what), "what": detail, "step": step,
               "replay": {"source": self.src, "ops": list(self.ops), "violating_step": step}}
        if extra:
            rec["replay"].update(extra)
        self.emit(rec)

    # -- one session
    def run(self):
        rng = self.rng
        gen = progen.ProgGen(rng, self.uid)
        self.src = gen.module()
        mod, err = progen.load_module(self.src, tag="c07")
        if mod is None:
            self.stats["rejected_modules"] += 1
            self.emit({"t": "reject", "err": err})
            return
        self.stats["modules"] += 1
        for nm, v in vars(mod).items():
            if isinstance(v, Config):
                self.configs.append(v)
        main = getattr(mod, "foo", None)
        if not isinstance(main, Procedure):
            self.stats["rejected_modules"] += 1
            return
        subs = [v for nm, v in vars(mod).items() if isinstance(v, Procedure) and v is not main]
        for sp in subs:
            self.add_proc(sp, "sub-procedure " + sp.name())
        self.add_proc(main, "generated foo")
        self.add_cursors(main, "cursors of foo")
        for l in self.procs():
            l.ccode = c_code_of(l.obj)
        self.check_all("c_code_str", -1)

        first_ok = first_refused = None
        nsteps = rng.randint(3, 8)
        for step in range(nsteps):
            procs = self.procs()
            # mostly continue from the newest procedure, but regularly go back to an older one
            tgt = procs[-1] if rng.random() < 0.6 else rng.choice(procs)
            r = rng.random()
            if r < 0.22:
                self.query(tgt, step)
                continue
            try:
                cands = sched.candidates(tgt.obj, rng, configs=self.configs, other_procs=[s for s in subs][:1])
            except Exception as e:
                self.ops.append({"step": step, "op": "candidates", "outcome": "harness:" + type(e).__name__})
                self.check_all("candidates", step)
                continue
            try:
                if rng.random() < 0.5:
                    cands = cands + c07_ops.extra_candidates(tgt.obj, rng, subs=subs)
            except Exception as e:
                self.ops.append({"step": step, "op": "extra-candidates", "outcome": "harness:" + type(e).__name__})
            # enumerating the candidates creates cursors and runs queries: that alone must be pure as well
            self.check_all("enumerate-cursors", step)
            if not cands:
                continue
            names = sorted({c[0] for c in cands})
            opn = rng.choice(names)
            opname, descr, thunk = rng.choice([c for c in cands if c[0] == opn])
            rstate = rng.getstate()
            rec = {"step": step, "op": opname, "descr": descr, "on": self.live.index(tgt)}
            t0 = time.time()
            try:
                res = thunk()
                rec["outcome"] = "ok"
            except sched.REFUSALS as e:
                res = None
                rec["outcome"] = "refused:" + type(e).__name__
                rec["msg"] = str(e)[:160]
            except Exception as e:
                res = None
                rec["outcome"] = "crash:" + type(e).__name__
                rec["msg"] = str(e)[:160]
            rec["ms"] = int(1000 * (time.time() - t0))
            self.ops.append(rec)
            self.stats["calls"] += 1
            self.stats["by_op"].setdefault(opname, [0, 0, 0])
            self.stats["by_op"][opname][0 if rec["outcome"] == "ok" else 1 if rec["outcome"].startswith("refused") else 2] += 1
            self.check_all(opname, step)
            if isinstance(res, Procedure):
                if first_ok is None:
                    first_ok = (tgt, opname, thunk, rstate, "ok", norm_names(safe_str(res)))
                self.add_proc(res, "step %d %s" % (step, opname))
                self.add_cursors(res, "cursors of step %d" % step, k=5)
                self.procs()[-1].ccode = c_code_of(res)
                self.check_all("c_code_str", step)
            elif rec["outcome"].startswith("refused") and first_refused is None:
                first_refused = (tgt, opname, thunk, rstate, rec["outcome"], None)

        # ---- end of session: answers must not have changed (module level caches)
        for n, l in enumerate(self.live):
            if l.kind != "proc":
                continue
            txt = safe_str(l.obj)
            if txt != l.text:
                self.violation("end-of-session", "str", "procedure #%d (%s): str() differs from the first answer" % (n, l.origin),
                               len(self.ops), extra={"before": l.text, "after": txt})
            if l.ccode is not None:
                cc = c_code_of(l.obj)
                self.stats["ccode_recomputed"] += 1
                if cc != l.ccode:
                    self.violation("end-of-session", "c_code_str", "procedure #%d (%s): c_code_str() differs from the first answer"
                                   % (n, l.origin), len(self.ops),
                                   extra={"before": l.ccode[1][-1500:], "after": cc[1][-1500:]})
            else:
                a, b = c_code_of(l.obj), c_code_of(l.obj)
                self.stats["ccode_recomputed"] += 1
                if a != b:
                    self.violation("end-of-session", "c_code_str", "procedure #%d (%s): two consecutive c_code_str() differ"
                                   % (n, l.origin), len(self.ops))
        self.check_all("c_code_str", len(self.ops))
        for fr in (first_ok, first_refused):
            if fr is None:
                continue
            tgt, opname, thunk, rstate, outcome, text = fr
            keep = rng.getstate()
            rng.setstate(rstate)
            try:
                res = thunk()
                now, now_text = "ok", norm_names(safe_str(res)) if isinstance(res, Procedure) else None
            except sched.REFUSALS as e:
                now, now_text = "refused:" + type(e).__name__, None
            except Exception as e:
                now, now_text = "crash:" + type(e).__name__, None
            rng.setstate(keep)
            self.stats["replayed_ops"] += 1
            if now != outcome or (text is not None and now_text is not None and text != now_text):
                self.violation(opname, "replayed-answer", "the same call on the same (unchanged) procedure answered %s first and "
                               "%s at the end of the session" % (outcome, now), len(self.ops),
                               extra={"before": text, "after": now_text})
            self.check_all(opname + "(replayed)", len(self.ops))
        self.stats["sessions"] += 1
        self.stats["chain_lengths"].setdefault(str(nsteps), 0)
        self.stats["chain_lengths"][str(nsteps)] += 1

    # -- sweep stream: every applicable candidate of every primitive on instances of buffer-heavy templates
    def sweep(self, k):
        rng = self.rng
        self.src = TT.instance(rng, k)
        mod, err = progen.load_module(self.src, tag="c07s")
        if mod is None:
            self.stats["rejected_modules"] += 1
            self.emit({"t": "reject", "err": err, "template": k})
            return
        self.stats["modules"] += 1
        main = mod.foo
        subs = [v for nm, v in vars(mod).items() if isinstance(v, Procedure) and v is not main]
        for sp in subs:
            self.add_proc(sp, "sub-procedure " + sp.name())
        self.add_proc(main, "template %d" % (k % len(TT.TEMPLATES)))
        self.add_cursors(main, "cursors of foo", k=6)
        base = self.procs()[-1]
        base.ccode = c_code_of(main)
        self.check_all("c_code_str", -1)
        # a caller-owned list of cursors handed to a primitive must come back unchanged
        try:
            st0 = sched.Sites(main)
            if st0.binops:
                lst = [st0.binops[0]]
                ids = [id(c) for c in lst]
                self.ops.append({"step": -1, "op": "commute_expr", "descr": "caller-owned list [first BinOp cursor of foo]"})
                try:
                    sched.S.commute_expr(main, lst)
                except Exception:
                    pass
                if [id(c) for c in lst] != ids:
                    self.violation("commute_expr", "argument-list", "the list of cursors passed by the caller was edited in place: "
                                   "its elements were replaced by other cursor objects", -1)
                self.check_all("commute_expr", -1)
        except Exception:
            pass
        level = [base]
        step = 0
        for depth in range(2):
            nxt = []
            for tgt in level:
                try:
                    cands = sched.candidates(tgt.obj, rng, configs=[], other_procs=subs[:1], limit_per_op=4)
                except Exception as e:
                    self.ops.append({"step": step, "op": "candidates", "outcome": "harness:" + type(e).__name__})
                    continue
                try:
                    cands = c07_ops.extra_candidates(tgt.obj, rng, subs=subs) + cands
                except Exception as e:
                    self.ops.append({"step": step, "op": "extra-candidates", "outcome": "harness:" + type(e).__name__})
                self.check_all("enumerate-cursors", step)
                if depth > 0:  # second level: only the list-rebuilding primitives, a sample of them
                    cands = [c for c in cands if c[0] in TT.INDEX_OPS]
                    rng.shuffle(cands)
                    cands = cands[:10]
                for opname, descr, thunk in cands:
                    if time.time() > self.deadline:
                        self.stats["sweeps_cut_short"] = self.stats.get("sweeps_cut_short", 0) + 1
                        break
                    rec = {"step": step, "op": opname, "descr": descr, "on": self.live.index(tgt)}
                    try:
                        res = thunk()
                        rec["outcome"] = "ok"
                    except sched.REFUSALS as e:
                        res = None
                        rec["outcome"] = "refused:" + type(e).__name__
                    except Exception as e:
                        res = None
                        rec["outcome"] = "crash:" + type(e).__name__
                        rec["msg"] = str(e)[:160]
                    self.ops.append(rec)
                    self.stats["calls"] += 1
                    self.stats["by_op"].setdefault(opname, [0, 0, 0])
                    self.stats["by_op"][opname][0 if rec["outcome"] == "ok" else 1 if rec["outcome"].startswith("refused") else 2] += 1
                    self.check_all(opname, step)
                    step += 1
                    if isinstance(res, Procedure) and depth == 0 and opname in TT.INDEX_OPS and len(nxt) < 3 and rng.random() < 0.5:
                        self.add_proc(res, "step %d %s" % (step, opname))
                        nxt.append(self.procs()[-1])
            level = nxt
        for n, l in enumerate(self.live):
            if l.kind == "proc" and l.ccode is not None:
                cc = c_code_of(l.obj)
                self.stats["ccode_recomputed"] += 1
                if cc != l.ccode:
                    self.violation("end-of-session", "c_code_str", "procedure #%d (%s): c_code_str() differs from the first answer"
                                   % (n, l.origin), step)
        self.check_all("c_code_str", step)
        self.stats["sweeps"] += 1

    # -- queries
    def query(self, tgt, step):
        rng = self.rng
        p = tgt.obj
        kinds = ["str", "find", "find_all", "c_code_str", "nav", "forward", "find_loop", "args", "eq", "listarg", "listarg"]
        k = rng.choice(kinds)
        rec = {"step": step, "op": "query:" + k, "on": self.live.index(tgt)}
        try:
            if k == "str":
                str(p)
            elif k == "c_code_str":
                r = c_code_of(p)
                if tgt.ccode is None:
                    tgt.ccode = r
                elif r != tgt.ccode:
                    self.violation("query:c_code_str", "c_code_str", "c_code_str() of procedure #%d differs from its first answer"
                                   % self.live.index(tgt), step)
            elif k in ("find", "find_all"):
                pat = rng.choice(["for _ in _: _", "_ = _", "_ += _", "if _: _", "_: _", "pass", "x[_]", "for i in _: _ #1",
                                  "_(_)", "y[_] = _"])
                rec["descr"] = pat
                res = p.find(pat, many=(k == "find_all"))
                res = res if isinstance(res, list) else [res]
                for c in res[:3]:
                    self.live.append(Live("cursor", c, "find %r at step %d" % (pat, step)))
            elif k == "find_loop":
                c = p.find_loop(rng.choice(["i", "j", "k", "ii", "i #1"]))
                self.live.append(Live("cursor", c, "find_loop at step %d" % step))
            elif k == "args":
                for c in list(p.args())[:2]:
                    self.live.append(Live("cursor", c, "arg cursor at step %d" % step))
            elif k == "eq":
                others = self.procs()
                p == rng.choice(others).obj
            elif k == "nav":
                cs = [l for l in self.cursors() if not isinstance(l.obj, PC.InvalidCursor)]
                if cs:
                    c = rng.choice(cs).obj
                    meths = [m for m in ("parent", "next", "prev", "before", "after", "body", "orelse", "as_block", "anchor",
                                         "rhs", "idx", "lo", "hi", "cond", "name", "proc", "expand") if hasattr(c, m)]
                    m = rng.choice(meths)
                    rec["descr"] = "%s.%s()" % (type(c).__name__, m)
                    r = getattr(c, m)()
                    if isinstance(r, PC.Cursor):
                        self.live.append(Live("cursor", r, "navigation %s at step %d" % (m, step)))
                    str(c)
            elif k == "listarg":
                # a caller-owned LIST of cursors handed to a primitive: neither the cursors nor the list may change
                chain, q = [], p
                while q is not None and len(chain) < 6:
                    chain.append(q)
                    q = q._provenance_eq_Procedure
                src_p = rng.choice(chain)
                st = sched.Sites(src_p)
                if st.binops:
                    lst = [rng.choice(st.binops)]
                    ids = [id(c) for c in lst]
                    fps = [cursor_fp(c) for c in lst]
                    op = rng.choice(["commute_expr", "bind_expr"])
                    rec["descr"] = "%s(<procedure #%d>, [a BinOp cursor of its ancestor %d steps back])" % (
                        op, self.live.index(tgt), chain.index(src_p))
                    try:
                        if op == "commute_expr":
                            sched.S.commute_expr(p, lst)
                        else:
                            sched.S.bind_expr(p, lst, "lb_%d" % step)
                    finally:
                        if [id(c) for c in lst] != ids or [cursor_fp(c) for c in lst] != fps:
                            self.violation(op, "argument-list", "the list of cursors passed by the caller was edited in place: "
                                           "its elements were replaced by other cursor objects", step)
            elif k == "forward":
                cs = [l for l in self.cursors() if not isinstance(l.obj, PC.InvalidCursor)]
                if cs:
                    c = rng.choice(cs).obj
                    rec["descr"] = "forward %s" % type(c).__name__
                    r = p.forward(c)
                    if isinstance(r, PC.Cursor):
                        self.live.append(Live("cursor", r, "forwarded at step %d" % step))
            rec["outcome"] = "ok"
        except sched.REFUSALS as e:
            rec["outcome"] = "refused:" + type(e).__name__
        except Exception as e:
            rec["outcome"] = "crash:" + type(e).__name__
            rec["msg"] = str(e)[:160]
        self.ops.append(rec)
        self.stats["queries"] += 1
        self.stats["by_query"].setdefault(k, 0)
        self.stats["by_query"][k] += 1
        self.check_all("query:" + k, step)


def safe_str(p):
    try:
        return str(p)
    except Exception as e:
        return "<str failed: %s>" % type(e).__name__


def main():
    seed, n_sessions, n_sweeps, cap, out_path = int(sys.argv[1]), int(sys.argv[2]), int(sys.argv[3]), float(sys.argv[4]), sys.argv[5]
    tag = sys.argv[6] if len(sys.argv) > 6 else "w"
    out = open(out_path, "w")

    def emit(rec):
        out.write(json.dumps(rec, default=str) + "\n")
        out.flush()

    install_argument_watch()
    stats = {"sessions": 0, "modules": 0, "rejected_modules": 0, "calls": 0, "queries": 0, "fingerprint_rounds": 0,
             "objects_fingerprinted": 0, "ccode_recomputed": 0, "replayed_ops": 0, "by_op": {}, "by_query": {},
             "chain_lengths": {}, "harness_errors": 0, "violations": 0, "sweeps": 0}
    rng = random.Random(seed)
    t0 = time.time()
    for i in range(n_sweeps):
        if time.time() - t0 > cap * 0.5:
            stats["sweeps_stopped_by_time_cap_after"] = i
            break
        srng = random.Random(rng.getrandbits(48))
        s = Session(srng, "%ss%d" % (tag, i), emit, stats, deadline=t0 + cap * 0.55)
        try:
            widx = int("".join(ch for ch in tag if ch.isdigit()) or 0)
            s.sweep(widx + i)
        except Exception as e:
            stats["harness_errors"] += 1
            emit({"t": "harness_error", "err": "%s: %s" % (type(e).__name__, e), "tb": traceback.format_exc()[-1500:],
                  "source": s.src, "ops": s.ops[-5:]})
        stats["violations"] += s.nviol
    for i in range(n_sessions):
        if time.time() - t0 > cap:
            stats["stopped_by_time_cap_after"] = i
            break
        srng = random.Random(rng.getrandbits(48))
        s = Session(srng, "%s%d" % (tag, i), emit, stats)
        try:
            s.run()
        except Exception as e:
            stats["harness_errors"] += 1
            emit({"t": "harness_error", "err": "%s: %s" % (type(e).__name__, e), "tb": traceback.format_exc()[-1500:],
                  "source": s.src, "ops": s.ops})
        stats["violations"] += s.nviol
        if i < 2:
            emit({"t": "sample", "source": s.src.split("@proc")[-1][:500], "ops": s.ops})
    stats["wall_s"] = round(time.time() - t0, 1)
    emit({"t": "stats", **stats})
    out.close()


if __name__ == "__main__":
    main()
