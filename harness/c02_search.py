"""C02 main search: the emitted C (real compiler, real gcc) against the extracted Coq reference semantics.

One *unit* = one generated module: the procedure as written, an annotated variant (memories / precisions) and
scheduled variants; every variant is compiled to C by exo, built with gcc, run on the inputs the reference interpreter
gets, and compared cell by cell.  Units are independent and run in worker processes (`run_units`)."""
from __future__ import annotations

import hashlib
import os
import random
import re
import shutil
import time
import traceback
from concurrent.futures import ProcessPoolExecutor, as_completed
from fractions import Fraction

import common
import export
import progen
import c02_cmain as CM
import c02_gen as G
from exo.core.LoopIR import LoopIR, T

class PrivateInterp(export.Interp):
    """client of the run's private copy of the extracted interpreter (export.INTERP is set by props/C02.py): never
    tries to rebuild the shared binary, which another check may be rebuilding at this very moment"""

    def __init__(self):
        import subprocess
        self.p = subprocess.Popen([export.INTERP], stdin=subprocess.PIPE, stdout=subprocess.PIPE, text=True, bufsize=1)
        self.sent = 0


WORK = common.SCRATCH / "c02" / ("run%d" % os.getpid())  # private to this run (concurrent runs must not collide)


# ---------------------------------------------------------------------------------------------- features
class Feat:
    def __init__(self):
        self.tags = set()

    def stmts(self, ss, wins):
        for s in ss:
            self.stmt(s, wins)

    def stmt(self, s, wins):
        if isinstance(s, (LoopIR.Assign, LoopIR.Reduce)):
            if isinstance(s, LoopIR.Reduce):
                self.tags.add("reduce")
            for i in s.idx:
                self.expr(i, True)
            self.expr(s.rhs, False)
        elif isinstance(s, LoopIR.WriteConfig):
            self.tags.add("cfgwrite")
            self.expr(s.rhs, True)
        elif isinstance(s, LoopIR.If):
            self.expr(s.cond, True)
            self.stmts(s.body, wins)
            self.stmts(s.orelse, wins)
        elif isinstance(s, LoopIR.For):
            if isinstance(s.loop_mode, LoopIR.Par):
                self.tags.add("par")
            self.expr(s.lo, True)
            self.expr(s.hi, True)
            self.stmts(s.body, wins)
        elif isinstance(s, LoopIR.Alloc):
            if s.mem is not None and s.mem.name() != "DRAM":
                self.tags.add("mem" + s.mem.name().replace("DRAM_", ""))
            self.prec(s.type)
        elif isinstance(s, LoopIR.WindowStmt):
            self.tags.add("window")
            self.wexpr(s.rhs, wins)
            wins.add(s.name)
        elif isinstance(s, LoopIR.Call):
            self.tags.add("instr" if s.f.instr is not None else "call")
            for a, fa in zip(s.args, s.f.args):
                if isinstance(a, LoopIR.WindowExpr):
                    self.tags.add("winarg")
                    self.wexpr(a, wins)
                elif fa.type.is_real_scalar():
                    self.tags.add("scalarref")
                elif isinstance(a, LoopIR.Read) and a.name in wins:
                    self.tags.add("winarg")
                else:
                    self.expr(a, True)
            if s.f.instr is None:
                sub = Feat()
                sub.stmts(s.f.body, set(fa.name for fa in s.f.args if fa.type.is_win()))
                self.tags |= {t for t in sub.tags if t in ("divmod", "cfgread", "cfgwrite", "extern")}

    def prec(self, t):
        if t.is_numeric():
            bt = t.basetype()
            if bt != T.R and bt != T.f32:
                self.tags.add("prec" + bt.ctype().replace("_t", "").replace("double", "f64").replace("int32", "i32"))

    def wexpr(self, e, wins):
        if e.name in wins:
            self.tags.add("winwin")
        kinds = {type(w).__name__ for w in e.idx}
        if kinds == {"Point", "Interval"}:
            self.tags.add("winmix")
        for w in e.idx:
            if isinstance(w, LoopIR.Point):
                self.expr(w.pt, True)
            else:
                self.expr(w.lo, True)
                self.expr(w.hi, True)

    def expr(self, e, control):
        if isinstance(e, LoopIR.BinOp):
            if e.op in ("/", "%") and not e.type.is_numeric():
                self.tags.add("divmod")
            self.expr(e.lhs, control)
            self.expr(e.rhs, control)
        elif isinstance(e, LoopIR.USub):
            if isinstance(e.arg, LoopIR.USub) or (isinstance(e.arg, LoopIR.Const) and not isinstance(e.arg.val, bool)
                                                   and e.arg.val < 0):
                self.tags.add("negneg")
            self.expr(e.arg, control)
        elif isinstance(e, LoopIR.Read):
            for i in e.idx:
                self.expr(i, True)
        elif isinstance(e, LoopIR.Extern):
            self.tags.add("extern")
            for a in e.args:
                self.expr(a, control)
        elif isinstance(e, LoopIR.ReadConfig):
            self.tags.add("cfgread")
        elif isinstance(e, LoopIR.StrideExpr):
            self.tags.add("strideexpr")
        elif isinstance(e, LoopIR.WindowExpr):
            self.wexpr(e, set())


def bound_syms(ir):
    out = [a.name for a in ir.args]

    def go(ss):
        for s in ss:
            if isinstance(s, (LoopIR.Alloc, LoopIR.WindowStmt)):
                out.append(s.name)
            elif isinstance(s, LoopIR.For):
                out.append(s.iter)
                go(s.body)
            elif isinstance(s, LoopIR.If):
                go(s.body)
                go(s.orelse)
    go(ir.body)
    return out


def features(ir, c_code: str):
    f = Feat()
    wins = set()
    for a in ir.args:
        if a.type.is_win():
            wins.add(a.name)
            f.tags.add("windowarg")
        if a.type.is_real_scalar():
            f.tags.add("scalararg")
        if isinstance(a.type, T.Index):
            f.tags.add("indexarg")
        f.prec(a.type)
    for pr in ir.preds:
        f.expr(pr, True)
    f.stmts(ir.body, wins)
    body = c_code.split("/* ---- C02 driver")[0]
    if len(re.findall(r"exo_floor_(?:div|mod)\(", body)) > len(re.findall(r"static int exo_floor_(?:div|mod)\(", body)):
        f.tags.add("floorhelper")
    names = {}
    for sy in bound_syms(ir):
        names.setdefault(str(sy), set()).add(sy)
    if any(len(v) > 1 for v in names.values()):
        f.tags.add("samename")
    if any(re.fullmatch(r".*_\d+", nm) for nm in names):
        f.tags.add("gennames")
    return f.tags


# ---------------------------------------------------------------------------------------------- precisions
def _cfg_ctype(config, field):
    t = config.lookup_type(field)
    if isinstance(t, T.Bool):
        return "bool"
    if t.is_real_scalar():
        return "float" if t == T.R else t.ctype()
    return "int"


def _literal_only(e):
    if isinstance(e, LoopIR.Const):
        return True
    if isinstance(e, LoopIR.USub):
        return _literal_only(e.arg)
    if isinstance(e, LoopIR.BinOp):
        return _literal_only(e.lhs) and _literal_only(e.rhs)
    return False


def precision_info(ir, cfg_ids):
    """declared C type of every compared location, the coarsest float precision taking part in the program (callees
    included) and the configuration fields that are only ever written with literals"""
    floats, cfg, seen = set(), {}, set()

    def ty(t):
        if t.is_numeric():
            ct = CM.ctype_of(t)
            if ct in CM.TOL:
                floats.add(ct)

    def expr(e):
        if isinstance(e, LoopIR.ReadConfig):
            c = cfg.setdefault((e.config.name(), e.field), {"ctype": _cfg_ctype(e.config, e.field), "pinned": True})
            if c["ctype"] in CM.TOL:
                floats.add(c["ctype"])
        elif isinstance(e, LoopIR.BinOp):
            expr(e.lhs)
            expr(e.rhs)
        elif isinstance(e, LoopIR.USub):
            expr(e.arg)
        elif isinstance(e, LoopIR.Extern):
            for a in e.args:
                expr(a)
        elif isinstance(e, LoopIR.Read):
            for i in e.idx:
                expr(i)

    def stmts(ss):
        for s in ss:
            if isinstance(s, (LoopIR.Assign, LoopIR.Reduce)):
                expr(s.rhs)
            elif isinstance(s, LoopIR.WriteConfig):
                c = cfg.setdefault((s.config.name(), s.field), {"ctype": _cfg_ctype(s.config, s.field), "pinned": True})
                if not _literal_only(s.rhs):
                    c["pinned"] = False
                    if c["ctype"] in CM.TOL:
                        floats.add(c["ctype"])
                expr(s.rhs)
            elif isinstance(s, LoopIR.If):
                expr(s.cond)
                stmts(s.body)
                stmts(s.orelse)
            elif isinstance(s, LoopIR.For):
                stmts(s.body)
            elif isinstance(s, LoopIR.Alloc):
                ty(s.type)
            elif isinstance(s, LoopIR.Call):
                proc(s.f)

    def proc(p):
        if id(p) in seen:
            return
        seen.add(id(p))
        for a in p.args:
            ty(a.type)
        stmts(p.body)

    proc(ir)
    floor = "double"
    for ct in CM.COARSE:
        if ct in floats:
            floor = ct
    bufs = [CM.ctype_of(a.type) if CM.ctype_of(a.type) in CM.TOL else "int" for a in ir.args if a.type.is_numeric()]
    cfgp = {}
    for key, cid in cfg_ids.items():
        c = cfg.get(key)
        if c is not None:
            cfgp[cid] = (c["ctype"] if c["ctype"] in CM.TOL else "int", c["pinned"])
    return {"bufs": bufs, "cfg": cfgp, "floor": floor}


# ---------------------------------------------------------------------------------------------- one variant
def exact_limit(tags):
    if "preci32" in tags:
        return Fraction(1 << 30)
    if "precf64" in tags and not ("call" in tags or "instr" in tags):
        return Fraction(1 << 50)
    return Fraction(1 << 23)


class Unit:
    def __init__(self, uid: int, seed: int, opts: dict):
        self.uid, self.seed, self.opts = uid, seed, opts
        self.rng = random.Random(seed)
        self.dir = WORK / ("u%d" % uid)
        self.results = []
        self.interp = None
        self.phase = {}

    def tick(self, name, t0):
        self.phase[name] = round(self.phase.get(name, 0.0) + time.time() - t0, 2)

    def log_result(self, **kw):
        self.results.append(kw)

    def past_deadline(self):
        d = self.opts.get("deadline")
        return d is not None and time.time() > d

    def check_variant(self, label, src, p, sched_descr, notes):
        """compile, build, run, compare one procedure; appends result records"""
        rng = self.rng
        if self.past_deadline():
            self.log_result(status="deadline", variant=label, schedule=sched_descr, annotations=notes)
            return
        ir = p._loopir_proc
        base = {"variant": label, "schedule": sched_descr, "annotations": notes}
        t_ = time.time()
        try:
            c_code = G.with_timeout(lambda: p.c_code_str(), 60)
        except Exception as e:
            self.tick("exo_compile", t_)
            self.log_result(status="exo-refused", detail="%s: %s" % (type(e).__name__, str(e)[:200]), **base)
            return
        self.tick("exo_compile", t_)
        tags = features(ir, c_code)
        ex = export.Exporter()
        try:
            name = ex.proc_ref(ir)
        except export.Unsupported as e:
            self.log_result(status="unsupported", detail=str(e), tags=sorted(tags), **base)
            return
        self.interp.sent = 0
        self.interp.define(ex)
        gen = export.InputGen(rng)
        descs, refs, skipped = [], [], {}
        inexact_inputs = 0
        tries = 0
        want = self.opts["n_inputs"]
        while len(descs) < want and tries < want * 5:
            tries += 1
            d = gen.gen(ir, dict(ex.cfg_types))
            if d is None:
                skipped["nogen"] = skipped.get("nogen", 0) + 1
                continue
            try:
                o = export.parse_outcome(G.with_timeout(lambda: self.interp.run(name, export.render_input(d)), 30))
            except G.OpTimeout:
                # the exact-rational reference can take astronomically long (values that square in a loop): give up on
                # this variant and start a fresh interpreter process
                try:
                    self.interp.p.kill()
                except Exception:
                    pass
                self.interp = PrivateInterp()
                self.log_result(status="reference-timeout", tags=sorted(tags), **base)
                return
            if o[0] != "done":
                k = "%s:%s" % (o[0], o[1])
                skipped[k] = skipped.get(k, 0) + 1
                continue
            m, dens_ok = CM.max_abs(o)
            # values beyond the range of the integer types (overflow is undefined behaviour) or absurdly large are
            # outside; everything else is compared, inexact values within the relative error of the declared precision
            if m > (Fraction(1 << 30) if "preci32" in tags else Fraction(1 << 100)):
                skipped["out-of-range"] = skipped.get("out-of-range", 0) + 1
                continue
            if not dens_ok or m > exact_limit(tags):
                inexact_inputs += 1
            descs.append(d)
            refs.append(o)
        if not descs:
            self.log_result(status="no-valid-input", skipped=skipped, tags=sorted(tags), **base)
            return
        if inexact_inputs:
            tags.add("inexactvalues")
        prec = precision_info(ir, ex.cfgs)
        strided = any(a["kind"] == "buf" and a["shape"] and a["strides"] != dense(a["shape"]) for d in descs for a in d["args"])
        if strided:
            tags.add("stridedinput")
        if any(a["kind"] == "val" and a["v"][0] == "i" and a["v"][1] < 0 for d in descs for a in d["args"]):
            tags.add("negindex")
        try:
            main_c = CM.build_main(ir, c_code, descs, ex.cfgs)
        except CM.MainGenError as e:
            self.log_result(status="harness-error", detail=str(e), tags=sorted(tags), **base)
            return
        self.dir.mkdir(parents=True, exist_ok=True)
        stem = "%s_%s" % (label.replace(":", "_"), hashlib.sha1(c_code.encode()).hexdigest()[:8])
        cfile = str(self.dir / (stem + ".c"))
        with open(cfile, "w") as f:
            f.write(c_code + main_c)
        buf_kinds = []
        for a in ir.args:
            if a.type.is_real_scalar():
                buf_kinds.append("scalar")
            elif a.type.is_numeric():
                buf_kinds.append("window" if a.type.is_win() else "tensor")
        opts_list = ["-O1"]
        if self.opts.get("also_O0") and rng.random() < self.opts["also_O0"]:
            opts_list.append("-O0")
        replay0 = dict(base, exo_source=src, c_code=c_code, c_main=main_c, tags=sorted(tags))
        for opt in opts_list:
            exe = str(self.dir / (stem + opt.replace("-", "_")))
            t_ = time.time()
            rc, out, cmd = CM.cc_build(cfile, exe, opt)
            self.tick("gcc", t_)
            if rc != 0:
                self.log_result(status="cbuild-failed", detail=out[:3000], tags=sorted(tags), cmd=cmd,
                                replay=dict(replay0, cc=cmd, cc_output=out[:3000]), **base)
                return
            n_ok = 0
            for k, (d, ref) in enumerate(zip(descs, refs)):
                t_ = time.time()
                rc, out = CM.run_exe(exe, k)
                self.tick("run", t_)
                got = CM.parse_run(out) if rc == 0 else None
                why = None
                if got is None:
                    why = ("crash", "the compiled program exits with status %s: %s" % (rc, out[-300:]))
                else:
                    why = CM.compare(ref, got, buf_kinds, prec)
                if why is not None and why[0] not in ("harness",) and got is not None and "float" in c_code:
                    # float rounding is outside the property: a mismatch that disappears in double arithmetic is not counted
                    exe2 = exe + "_dbl"
                    rc2, out2, _ = CM.cc_build(cfile, exe2, opt, extra=("-Dfloat=double",))
                    if rc2 == 0:
                        rc3, out3 = CM.run_exe(exe2, k)
                        got3 = CM.parse_run(out3) if rc3 == 0 else None
                        if got3 is not None and CM.compare(ref, got3, buf_kinds, prec) is None:
                            self.log_result(status="inexact-float", tags=sorted(tags), **base)
                            continue
                if why is not None:
                    self.log_result(status="mismatch" if why[0] != "harness" else "harness-error", kind=why[0], detail=why[1],
                                    tags=sorted(tags), opt=opt,
                                    replay=dict(replay0, cc=cmd, input=export.render_input(d), input_desc=d,
                                                reference_outcome=repr(ref)[:1500], c_output=out[-1500:], what=why[1]),
                                    **base)
                    return
                n_ok += 1
            self.log_result(status="agree", inputs=n_ok, tags=sorted(tags), opt=opt, skipped=skipped,
                            sample={"variant": label, "schedule": sched_descr, "annotations": notes,
                                    "input": export.render_input(descs[0])[:300]}, **base)

    def run(self):
        t0 = time.time()
        rng = self.rng
        if self.past_deadline():
            return {"uid": self.uid, "seed": self.seed, "status": "deadline", "results": [], "src": ""}
        src = self.opts.get("source")
        if src is None:
            g = G.C02Gen(random.Random(rng.randrange(1 << 30)), uid="c%d" % self.uid, features=self.opts.get("features"))
            src = g.module()
        try:
            mod, err = G.with_timeout(lambda: progen.load_module(src, tag="c02"), 180)
        except G.OpTimeout:
            mod, err = None, "front end timeout"
        self.tick("frontend", t0)
        if mod is None:
            return {"uid": self.uid, "seed": self.seed, "status": "rejected", "detail": err, "results": [], "src": src}
        self.interp = PrivateInterp()
        try:
            p = mod.foo
            cfgs = [v for v in vars(mod).values() if type(v).__name__ == "Config"]
            self.check_variant("orig", src, p, [], [])
            if self.opts.get("annotate", True):
                try:
                    pa, notes = G.annotate(p, random.Random(rng.randrange(1 << 30)))
                except Exception as e:
                    pa, notes = p, []
                if notes and pa is not p:
                    self.check_variant("annot", src, pa, [], notes)
                    if rng.random() < 0.5:
                        p = pa
                        base_notes = notes
                    else:
                        base_notes = []
                else:
                    base_notes = []
            else:
                base_notes = []
            for v in range(self.opts.get("n_sched", 1)):
                if time.time() - t0 > self.opts.get("unit_budget", 60) or self.past_deadline():
                    break
                t_ = time.time()
                q, applied = G.schedule(p, random.Random(rng.randrange(1 << 30)), cfgs, rng.randint(1, 3))
                self.tick("schedule", t_)
                if applied:
                    self.check_variant("sched%d" % v, src, q, applied, base_notes)
        except Exception as e:
            self.log_result(status="harness-error", detail="%s: %s\n%s" % (type(e).__name__, e, traceback.format_exc()[-800:]),
                            variant="?", schedule=[], annotations=[])
        finally:
            self.interp.close()
        shutil.rmtree(self.dir, ignore_errors=True)
        return {"uid": self.uid, "seed": self.seed, "status": "ok", "results": self.results, "src": src,
                "wall": round(time.time() - t0, 2), "phase": self.phase}


def dense(shape):
    out, acc = [], 1
    for n in reversed(shape):
        out.insert(0, acc)
        acc *= n
    return out


def run_unit(args):
    uid, seed, opts = args
    try:
        return Unit(uid, seed, opts).run()
    except Exception as e:
        return {"uid": uid, "seed": seed, "status": "harness-error", "detail": "%s: %s\n%s" % (type(e).__name__, e, traceback.format_exc()[-1500:]),
                "results": []}


def run_units(jobs, workers=12, deadline=None, grace=300, hard_after=None):
    """jobs: list of (uid, seed, opts); returns unit results in uid order (deterministic reporting).  After the deadline
    units that have not started are dropped (they return at once: Unit.past_deadline); running ones are awaited for at
    most `grace` seconds, then the workers are killed (a hung solver or interpreter must not hang the check)."""
    from concurrent.futures import wait, FIRST_COMPLETED
    WORK.mkdir(parents=True, exist_ok=True)
    out = {}
    pool = ProcessPoolExecutor(max_workers=workers)
    futs = {pool.submit(run_unit, j): j[0] for j in jobs}
    pending = set(futs)
    cancelled = False
    hard = (None if hard_after is None else time.time() + hard_after) if deadline is None else deadline + grace
    while pending:
        done, pending = wait(pending, timeout=5, return_when=FIRST_COMPLETED)
        for f in done:
            uid = futs[f]
            if f.cancelled():
                out[uid] = {"uid": uid, "seed": None, "status": "deadline", "results": []}
                continue
            try:
                out[uid] = f.result()
            except Exception as e:
                out[uid] = {"uid": uid, "seed": None, "status": "harness-error", "detail": repr(e), "results": []}
        now = time.time()
        if deadline and now > deadline and not cancelled:
            cancelled = True
            for g in list(pending):
                if g.cancel():
                    out[futs[g]] = {"uid": futs[g], "seed": None, "status": "deadline", "results": []}
                    pending.discard(g)
        if hard and now > hard and pending:
            for g in pending:
                out[futs[g]] = {"uid": futs[g], "seed": None, "status": "abandoned", "results": []}
            for p in list(getattr(pool, "_processes", {}).values()):
                try:
                    p.kill()
                except Exception:
                    pass
            pending = set()
    pool.shutdown(wait=False, cancel_futures=True)
    return [out[k] for k in sorted(out)]


# ---------------------------------------------------------------------------------------------- corpus
# Hand-written seed programs, run before the generated ones on every run.  Each exercises one clause of the property
# text with values chosen so that a wrong lowering shows (distinct cell values, negative dividends, non-unit strides).
CORPUS = {
    # regression witness of the defect repaired in /repo: two windows of one source name after inline; the strides of
    # the renamed one were read from the other (comp_cir printed the Sym's source name)
    "stride_of_renamed_window": '''
@proc
def sub(dst: [R][4, 3], src: [R][4]):
    w = dst[0:4, 1]
    for i in seq(0, 4):
        src[i] = w[i]

@proc
def foo(x: R[8], y: R[4, 3]):
    w = x[0:4]
    sub(y[0:4, 0:3], w)
    x[7] = w[1]

foo = inline(foo, "sub(_, _)")
''',
    "divmod_negative": '''
@config
class CfgD:
    a: index

@proc
def pick(s: R, k: index, src: [R][4]):
    assert k >= 0
    assert k < 4
    s += src[k]

@proc
def foo(n: size, kk: index, x: R[8], y: [R][n, 4], sc: R):
    assert kk >= -6
    for i in seq(0, 8):
        x[(i - 3) % 8] += 1.0
        x[(i - 5) / 2 % 8] += 2.0
        if (i - 5) / 2 < -1:
            x[i] += 4.0
        if (i - 6) % 3 == 1:
            x[i] += 8.0
        pick(sc, (i - 7) % 4, y[0, 0:4])
        pick(sc, (i + kk - 9) / 3 % 4, y[n - 1, 0:4])
    for j in seq(0, n):
        y[j, (kk - 7) / 3 % 4] = 3.0
        y[j, (j - kk - 2) % 4] += 5.0
    CfgD.a = (kk - 7) / 2 % 5
    x[7 / 2] += 16.0
    x[(0 - 7) / 2 % 8] += 32.0
''',
    "windows_mix": '''
@proc
def rev2(n: size, dst: [R][n], src: [R][n]):
    for i in seq(0, n):
        dst[i] += 2.0 * src[n - 1 - i]

@proc
def foo(n: size, a: [R][n, 6], b: R[6, n], c: R[3, 4, 5], sc: R):
    for i in seq(0, n):
        w = a[i, 1:5]
        w2 = w[1:3]
        w2[1] = b[2, i] + w[0]
    col = b[1:5, 0]
    c2 = col[1:3]
    c2[0] = 7.0
    c2[1] += col[3]
    rev2(n, a[0:n, 2], b[3, 0:n])
    rev2(4, c[1, 0:4, 2], a[0, 2:6])
    p = c[0:3, 1:3, 2:5]
    q = p[1, 0:2, 1:3]
    q[1, 0] = 9.0
    r = q[0:2, 1]
    r[0] = q[1, 0] + 1.0
    sc = r[1] + c[2, 3, 4]
''',
    "scalars_by_reference": '''
@proc
def inner(s: R, k: index, src: [R][4]):
    assert k >= 0
    assert k < 4
    s += src[k]

@proc
def mid(s: R, src: [R][4]):
    inner(s, 1, src)
    t: R
    t = 2.0
    inner(t, 3, src)
    s += t

@proc
def foo(x: R[4], sc: R, y: R[2]):
    mid(sc, x[0:4])
    u: R
    u = 1.0
    mid(u, x)
    y[0] = u
    sc += x[2]
    for i in seq(0, 2):
        u = sc
        y[i] += u
''',
    "config_state": '''
@config
class CfgS:
    a: index
    flag: bool
    scale: f32

@proc
def setit(k: index, x: [R][4]):
    assert k >= 0
    assert k < 4
    CfgS.a = 2
    CfgS.scale = 3.0
    x[k] = CfgS.scale

@proc
def foo(x: R[4], y: R[4]):
    if CfgS.flag:
        y[3] = CfgS.scale
    if CfgS.a == 1:
        y[2] = 5.0
    setit(2, x[0:4])
    if CfgS.a == 2:
        y[0] = 1.0
        CfgS.flag = False
    else:
        CfgS.flag = True
    for i in seq(0, 4):
        y[i] += CfgS.scale
    CfgS.scale = 4.0
''',
    "precision_casts": '''
@proc
def foo(n: size, x: f64[n, 2], y: f32[n], z: i32[4], sc: f64, w: [f32][4]):
    for i in seq(0, n):
        x[i, 0] = y[i] + 1.0
        x[i, 1] += y[n - 1 - i] * 2.0
    for j in seq(0, 4):
        z[j] = w[j] * 3.0
        w[j] = z[3 - j]
    sc = y[0]
    t: f64
    t = sc * 2.0
    y[0] = t
    sc += z[1]
''',
    "memories": '''
@proc
def addto(n: size, dst: [R][n], src: [R][n]):
    for i in seq(0, n):
        dst[i] += src[i]

@proc
def foo(n: size, x: R[4, 6], y: R[6]):
    a: R[4, 6] @ DRAM_STACK
    b: R[6] @ DRAM_STATIC
    for i in seq(0, 4):
        for j in seq(0, 6):
            a[i, j] = x[i, j] + 1.0
    for j in seq(0, 6):
        b[j] = y[j]
    for i in seq(0, 4):
        c: R[2, 3] @ DRAM_STACK
        for p in seq(0, 2):
            for q in seq(0, 3):
                c[p, q] = a[i, 3 * p + q]
        addto(3, b[1:4], c[1, 0:3])
        addto(4, x[0:4, i], a[0:4, 5 - i])
    for j in seq(0, 6):
        y[j] = b[j]
''',
    "shadowed_names": '''
@proc
def sub(x: [R][4], y: [R][4]):
    t: R
    t = y[1]
    for i in seq(0, 4):
        x[i] += t
        t += 1.0

@proc
def foo(x: R[4], y: R[4], z: R[8]):
    t: R
    t = 3.0
    for i in seq(0, 2):
        for i in seq(1, 4):
            z[i] += 1.0
        z[i + 4] += t
        t: R[2]
        t[0] = y[i]
        t[1] = 2.0
        z[i + 6] = t[0] + t[1]
    sub(x[0:4], y[0:4])
    for i in seq(0, 4):
        t: R
        t = z[i]
        x[i] += t
    z[0] = t

foo = inline(foo, "sub(_, _)")
''',
    "reduce_and_loops": '''
@proc
def foo(n: size, m: size, x: R[n, m], y: [R][m], acc: R):
    assert n >= 2
    for i in seq(1, n):
        for j in seq(0, m):
            y[j] += x[i, j] * x[i - 1, j]
            acc += y[j]
    for k in seq(2, 2):
        acc = 0.0
    for i in par(0, n):
        for j in seq(0, m):
            x[i, j] = x[i, j] + 1.0
    if n > 2:
        acc += x[2, 0]
    else:
        acc += x[1, m - 1]
''',
    # nested unary minus must not become C's pre-decrement operator (reported by C15 as well: invalid / wrong C)
    "nested_unary_minus": '''
@proc
def foo(n: size, x: R[4], y: R[4]):
    assert n <= 4
    y[0] = -(-(y[1])) + x[0]
    if -(-n) < 3:
        y[2] = 1.0
    for i in seq(0, n):
        y[i] += 2.0
''',
    # user variables literally named like generated identifiers: the innermost `i` must become i_2 (not capture the
    # loop variable i_1), the inlined local `t` must become t_2 (not collide with the user's t_1)
    "generated_like_user_names": '''
@proc
def foo(x: R[2, 3, 4], y: R[3, 4], z: R[4]):
    for i in seq(0, 2):
        for i_1 in seq(0, 3):
            for i in seq(0, 4):
                y[i_1, i] += x[1, i_1, i]
    for x_1 in seq(0, 2):
        w = y[x_1, 0:4]
        for x_1 in seq(1, 3):
            w_1 = y[2, 1:4]
            w[x_1] = w_1[x_1 - 1] + 1.0
    for i_1 in seq(0, 2):
        for i_2 in seq(0, 2):
            for i_1 in seq(0, 2):
                for i_1 in seq(1, 3):
                    z[i_2 + i_1] += 1.0
''',
    "generated_like_user_locals": '''
@proc
def sub(dst: [R][4], src: [R][4]):
    t: R
    t = src[1]
    for i in seq(0, 4):
        dst[i] += t

@proc
def foo(z: R[4], u: R[4]):
    t: R
    t = 2.0
    t_1: R
    t_1 = 3.0
    sub(z[0:4], u[0:4])
    z[0] += t + t_1

foo = inline(foo, "sub(_, _)")
''',
    # literals written to configuration fields of other precisions than the default: the context struct must hold the
    # field-precision value (double 0.1, the i32 2**24 + 1), not the f32 rounding of the literal
    "config_precision_literals": '''
@config
class CfgP:
    scale: f64
    count: i32
    big: i32
    gain: f32
    tiny: f64

@proc
def foo(n: size, x: f64[n], y: f64[n], cnt: i32[2]):
    CfgP.scale = 0.1
    CfgP.count = 16777217
    CfgP.big = 33554433
    CfgP.gain = 0.5
    CfgP.tiny = 0.001
    for i in seq(0, n):
        y[i] = x[i] * CfgP.scale + CfgP.tiny
    cnt[0] = CfgP.count
    cnt[1] = CfgP.big
''',
    "instr_calls": '''
@instr("for (int q_ = 0; q_ < {n}; q_++) (&{dst_data})[q_ * {dst}.strides[0]] += 2.0f * {src}.data[({n} - 1 - q_) * {src}.strides[0]];")
def ins_rev2(n: size, dst: [R][n], src: [R][n]):
    for i in seq(0, n):
        dst[i] += 2.0 * src[n - 1 - i]

@instr("*{s_data} = {src}.data[{k} * {src}.strides[0]] + 1.0f;")
def ins_pick(s: R, k: index, src: [R][4]):
    assert k >= 0
    assert k < 4
    s = src[k] + 1.0

@proc
def foo(n: size, a: [R][n, 6], b: R[6, n], c: R[8], sc: R):
    ins_rev2(n, a[0:n, 2], b[3, 0:n])
    ins_rev2(4, a[n - 1, 1:5], c[2:6])
    t: R
    ins_pick(t, 2, b[1:5, 0])
    ins_pick(sc, (n - 7) % 4, a[0, 0:4])
    sc += t
''',
}
